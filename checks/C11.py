"""C11 -- cosmological distances equal their Hogg (1999) definitions."""
import ast
import os
import re

import sympy as sp

from vcheck import cfront, csymx, rules, symx
from vcheck.cfg import eval_test
from vcheck.core import PyRepo, AnalysisError, call_name, dotted_name, kwarg, norm, walk_no_nested
from vcheck.cstr import parse_tuple_format
from vcheck.ceffects import parse_tuple_binding
from vcheck.rules import cfg_of

MANIFEST = dict(
    text="Formula conformance from the clang AST plus wrapper/dispatch cross-checks (not numerical testing): every distance function of "
         "the C library is lowered to a term (callee calls as function symbols, the quadrature loop as a finite sum) and compared with "
         "Hogg (1999): 1/E(z) for flat and curved models, the fixed-order Gauss-Legendre integral with the affine map (5 nodes; 10 for the "
         "volume), D_C = D_H*int, D_M with sinh/sin arms and sqrt|Omega_k|/D_H, D_A = D_M/(1+z), D_L = (1+z) D_M, dV, V with 4 pi, inverse "
         "critical density (zero for z_s <= z_l) and its constant 4 pi G/c^2 against CODATA-derived value, c in C and Python equal; node / "
         "weight arrays are written only by the rule generator on [-1,1] (effect walk over the constructor with helpers folded in: gauleg "
         "fills, whole-array memcpy, compute-once static tables), a private local array filled by one loop and read by a later one is read "
         "as the values stored (loop fission); switch statements are lowered as if-chains, loops that step "
         "pointers as the same loop over an index, a struct member that caches a function of the constructor's parameters (and that no "
         "other function writes) is read as that function; a guard of D_M on a quantity the definition quantifies over (the value of D_C, a redshift) splits the "
         "inputs into regions and the returned term must be the definition on every region with non-empty interior (strict "
         "satisfiability witness of the guards; a region on an equality is compared after solving it); 26 C wrappers (helpers of the translation unit inlined, also where they are "
         "called inside an if-condition, then lowered as a whole, path by path, so that a helper's status code and its out-parameters "
         "stay tied): parse format, output sized from the array argument, stored term = Q(arg1[i]|arg1, arg2[i]|arg2) (after one level of "
         "inlining), complete method table; five Python dispatchers executed on abstract scalar/array arguments (private helpers followed): "
         "scalar pattern -> suffix -> converted argument (a fast path guarded by tests that establish float64 / C-contiguous / >= 1-d counts "
         "as the conversion; dispatch tables and named tuples are followed, and where the table or the bound extension methods are put "
         "on the object by the constructor the dispatcher is run on objects built by abstract execution of the constructor), differing lengths or shapes raise before the two-array call (an ordering test of the two lengths is decided for first shorter / "
         "longer / equal, a length compared with the length of the same array is decided as the constant it is); exhaustive abstract "
         "evaluation of the parameter normaliser over (omega_k in {None,0,nonzero}) x (flat in {T,F}); h overrides H0, D_H = c/H0; copy "
         "and pickle argument order; object state by abstract execution of the constructor, accessors, copy(), __copy__, __deepcopy__ and "
         "__reduce__ on symbolic arguments with the attributes of self tracked: D_H = c/(100 h | H0), H0() * D_H = c, normalised parameters "
         "reach the extension object, every duplicate is built from the same extension arguments and reports the same H0() (the rules on "
         "the spelling of the constructor, copy() and the pickling tuple fall back on this execution when the spelling changed); distance "
         "modulus formula by symbolic evaluation of the method body with the distance calls on (0, z) as terms in D_L.",
    note="Not decided: truncation-error bound of the fixed-order rule, libm. Bit-identical results of copies are decided as: the duplicate's extension "
         "arguments are the same floating-point terms (same rounding operations on the same inputs) as the original's. Trusted: clang AST, sympy normaliser, the method-table-to-Python naming of the extension type.",
    technique="static analysis: formula conformance by symbolic normal forms lowered from the clang AST, format/table agreement, sibling cross-check of wrappers and dispatchers, exhaustive abstract evaluation of the normaliser",
)

CQ = "esutil.cosmology.cosmology."
TWO = {"Dc": ("zmin", "zmax"), "Dm": ("zmin", "zmax"), "Da": ("zmin", "zmax"), "Dl": ("zmin", "zmax"), "scinv": ("zl", "zs")}
ONE = {"ez_inverse": "z", "dV": "z"}


# rules that keep their verdict however the code is laid out (decided by term equality, effect analysis or dominance over
# resolved calls); every other rule of this check is a template rule (vcheck.core.Check.obt)
SEMANTIC = ('R11.1', 'R11.2', 'R11.3', 'R11.4', 'R11.5::extract_parms', 'R11.6::state', 'R11.7')


def run(chk):
    repo = PyRepo()
    chk.set_templates(repo, semantic=SEMANTIC)
    chk.explanation = MANIFEST["text"]
    chk.trusted = ["clang 14 AST", "sympy normaliser", "PyMethodDef name -> Python attribute"]
    chk.floor = 150
    lib_decls = cfront.load_tu("cosmolib")
    _ENUMS.clear()
    _load_enums(lib_decls)
    _CONSTS.clear()
    _load_consts(lib_decls)
    lib = cfront.functions(lib_decls)
    wrap_decls = cfront.load_tu("cosmolib_pywrap")
    wrap = cfront.functions(wrap_decls)
    formulas(chk, lib)
    quadrature(chk, lib, lib_decls)
    wrappers(chk, lib, wrap, wrap_decls)
    dispatch(chk, repo)
    normaliser(chk, repo)
    sem = object_state(chk, repo)
    constructor(chk, repo, wrap, sem)
    copy_pickle(chk, repo, sem)
    distmod(chk, repo)


def S(n):
    return sp.Symbol(n)


# function symbols of the reference formulas: calls to these stay calls (one level of conformance per quantity); a call to
# any other function defined in the same translation unit is a private helper and is inlined
QUANT = ("ez_inverse", "ez_inverse_integral", "Dc", "Dm", "Da", "Dl", "dV", "V", "scinv")


# numpy accessors that are one value under two names: PyArray_BYTES(a) is PyArray_DATA(a) typed char* instead of void*; the
# lowering drops pointer casts, so both are the term PyArray_DATA(a)
_ACCESSOR_ALIASES = {"PyArray_BYTES": "PyArray_DATA"}
_api_cache = {}


def _api_names():
    """slot number -> name of the numpy C-API table (numpy/__multiarray_api.h: `#define PyArray_New (*(type) PyArray_API[93])`): a
    call the preprocessor turned into a call through the table is the call of that function, whichever macro
    (PyArray_ZEROS / PyArray_SimpleNew / PyArray_SIZE ...) it was written with"""
    if "v" not in _api_cache:
        out = {}
        try:
            np_inc = cfront._py_includes()[0]
            with open(os.path.join(np_inc, "numpy", "__multiarray_api.h"), encoding="utf-8", errors="replace") as f:
                txt = f.read()
            for m in re.finditer(r"#define\s+(\w+)\s*(?:\\\n)?\s*\(\*\((?:[^\n\\]|\\\n)*?\)\s*(?:\\\n)?\s*PyArray_API\[(\d+)\]\)", txt):
                out.setdefault(int(m.group(2)), m.group(1))
        except (OSError, AnalysisError, IndexError, AttributeError):
            out = {}
        _api_cache["v"] = out
    return _api_cache["v"]


def _api_call_name(name):
    m = re.fullmatch(r"\(?\*\s*PyArray_API\[(\d+)\]\)?", name.strip())
    if m:
        return _api_names().get(int(m.group(1)), name)
    return name


def _private_arrays(fn):
    """names of the non-static local arrays of a function that are used only through subscripts (never handed to a callee, never
    aliased, no compound assignment / increment / address of an element): their contents are exactly what the element stores of
    the function put there"""
    body = cfront.body_of(fn) if isinstance(fn, dict) else None
    if not body:
        return set()
    names, seen = set(), set()
    for x in cfront.walk(body):
        if x.get("kind") == "VarDecl" and x.get("name"):
            if x["name"] in seen:
                names.discard(x["name"])
                continue
            seen.add(x["name"])
            if x.get("storageClass") != "static" and re.search(r"\[\d+\]$", (x.get("type") or {}).get("qualType", "")):
                names.add(x["name"])
    if not names:
        return names
    ok_base = set()
    bad = set()
    for x in cfront.walk(body):
        k = x.get("kind")
        if k == "ArraySubscriptExpr":
            ok_base.add(id(cfront.strip(x["inner"][0])))
        if k == "CompoundAssignOperator" or (k == "UnaryOperator" and x.get("opcode") in ("++", "--", "&")):
            tgt = cfront.strip(x["inner"][0])
            if tgt.get("kind") == "ArraySubscriptExpr":
                b = cfront.strip(tgt["inner"][0])
                if b.get("kind") == "DeclRefExpr":
                    bad.add((b.get("referencedDecl") or {}).get("name"))
    for x in cfront.walk(body):
        if x.get("kind") == "DeclRefExpr" and (x.get("referencedDecl") or {}).get("name") in names and id(x) not in ok_base:
            bad.add(x["referencedDecl"]["name"])
    return names - bad


def _memory_names(fn):
    """names of the local arrays and pointers of a function (parameters excluded): a term that still contains a read through one
    of them is a read of memory the lowering has not resolved to a value"""
    body = cfront.body_of(fn) if isinstance(fn, dict) else None
    out = set()
    for x in cfront.walk(body or {}):
        if x.get("kind") == "VarDecl" and x.get("name"):
            q = (x.get("type") or {}).get("qualType", "").rstrip()
            if q.endswith("*") or q.endswith("]"):
                out.add(x["name"])
    return out


def _unresolved_reads(t, fn):
    """the local arrays / pointers of fn that the term t still reads through (an element whose value the lowering does not know)"""
    if not isinstance(t, sp.Basic):
        return []
    mem = _memory_names(fn)
    return sorted({a.func.__name__ for a in t.atoms(sp.core.function.AppliedUndef) if a.func.__name__ in mem})


class _Lower(csymx.Lower):
    """csymx.Lower, extended so that the term does not depend on how the code is cut into statements and helpers:
    * a call to a private helper of the translation unit is inlined (the callee is lowered with its parameters bound to the
      argument terms), a call through a function-pointer parameter becomes a call of the function bound to it;
    * a load of a member lvalue (c->x) sees the last store to it;
    * `i = lo; while (i < hi) { ...; i++; }` and `for (int i = lo; ...)` are lowered like `for (i = lo; i < hi; i++)`."""

    def __init__(self, fn, symbols=None, funcs=None, keep=QUANT, depth=0):
        csymx.Lower.__init__(self, fn, symbols)
        self.funcs = funcs or {}
        self.keep = keep
        self.depth = depth
        self.stores = []      # element stores P[idx] = value: dict(base, index, value, loop=(lo, hi) | None, cond)
        self._loop = None
        self._cond = sp.true
        self._read_range = None          # (index symbol, lo, hi) of the counted loop whose body is being lowered
        self.local_arrays = _private_arrays(fn)
        self.locals = {x["name"] for x in cfront.walk(cfront.body_of(fn) or {}) if x.get("kind") == "VarDecl" and x.get("name")} | set(self.params) if isinstance(fn, dict) else set()
        self.fork = False                # lower if-statements path by path (wrappers) instead of merging the arms
        self._guard = sp.true            # the test inside a loop body under which the element store being recorded is reached
        self.partial_loops = []          # lines of element-storing loops in which some way through the body stores nothing
        self._paths = 0

    def expr(self, n):
        k = n.get("kind")
        inner = n.get("inner", []) or []
        if k == "$Term":
            # a term put into the tree by the loop canonicaliser (the value a stepped variable has on entry to its loop)
            return n["term"]
        if k == "DeclRefExpr" and (n.get("referencedDecl") or {}).get("kind") == "EnumConstantDecl" and n["referencedDecl"].get("name") in _ENUMS \
                and n["referencedDecl"]["name"] not in self.env:
            return sp.Integer(_ENUMS[n["referencedDecl"]["name"]])
        if k == "DeclRefExpr" and (n.get("referencedDecl") or {}).get("kind") == "VarDecl" and n["referencedDecl"].get("name") in _CONSTS \
                and n["referencedDecl"]["name"] not in self.env and n["referencedDecl"]["name"] not in self.locals:
            # a file-scope `const` object with a constant initialiser is that constant
            return _CONSTS[n["referencedDecl"]["name"]]
        if k == "MemberExpr":
            key = cfront.render(n)
            if key in self.env:
                return self.env[key]
        if k == "ArraySubscriptExpr":
            b = cfront.strip(inner[0])
            if b.get("kind") == "DeclRefExpr" and (b.get("referencedDecl") or {}).get("name") in self.local_arrays:
                v = self._filled(b["referencedDecl"]["name"], self.expr(inner[1]))
                if v is not None:
                    return v
        if k == "UnaryExprOrTypeTraitExpr":
            return sp.Symbol(cfront.render(n))
        if k == "StringLiteral":
            return sp.Symbol(n.get("value", '""'))
        if k == "CharacterLiteral" and isinstance(n.get("value"), int):
            return sp.Integer(n["value"])
        if k == "UnaryOperator" and n.get("opcode") == "&":
            # address of an lvalue: carries the name and the value the lvalue holds at this point
            nm = cfront.render(inner[0])
            try:
                cur = self.expr(inner[0])
            except csymx.CUnsupported:
                cur = sp.Symbol(nm)
            return sp.Function("addr")(sp.Symbol(nm), cur)
        if k == "UnaryOperator" and n.get("opcode") == "*":
            p_ = self.expr(inner[0])
            if getattr(p_, "func", None) is not None and getattr(p_.func, "__name__", "") == "addr":
                return self.env.get(str(p_.args[0]), sp.Symbol(str(p_.args[0])))
            return sp.Function("deref")(p_)
        if k == "CallExpr":
            callee = cfront.strip(inner[0])
            name = cfront.callee_name(n)
            if callee.get("kind") == "DeclRefExpr" and (callee.get("referencedDecl") or {}).get("kind") in ("ParmVarDecl", "VarDecl"):
                bound = self.env.get(name)
                if not isinstance(bound, sp.Symbol) or str(bound) == name:
                    raise csymx.CUnsupported("call through the unbound function pointer %s (line %s)" % (name, n.get("line")))
                name = str(bound)
            if not name:
                # call through a table of function pointers (the numpy C API): the callee text is the function symbol
                name = cfront.render(inner[0])
            args = [self.expr(a) for a in inner[1:]]
            # accessors that return the same thing under another name / type (char* vs void* of the one data pointer)
            name = _api_call_name(name)
            name = _ACCESSOR_ALIASES.get(name, name)
            if name.lstrip("_").startswith("PyArg_Parse"):
                # the parsed values are written through the pointer arguments: from here on each names "the k-th parsed argument"
                for a in args:
                    if getattr(getattr(a, "func", None), "__name__", "") == "addr":
                        self.env[str(a.args[0])] = sp.Symbol(str(a.args[0]))
            if name in csymx.MATH:
                return csymx.MATH[name](*args)
            if name in self.funcs and name not in self.keep:
                if self.depth >= 4:
                    raise csymx.CUnsupported("helper nesting too deep at %s" % name)
                decl = self.funcs[name]
                params = cfront.params_of(decl)
                if len(params) != len(args):
                    raise csymx.CUnsupported("helper %s called with %d arguments" % (name, len(args)))
                sub = _Lower(decl, dict(zip(params, args)), self.funcs, self.keep, self.depth + 1)
                t = csymx.merged_return(sub.run(cfront.body_of(decl).get("inner", []) or []))
                if t is None:
                    raise csymx.CUnsupported("helper %s returns no value" % name)
                return t
            return sp.Function(name)(*args)
        return csymx.Lower.expr(self, n)

    def run(self, stmts, cond=sp.true):
        res = []
        stmts = list(stmts)
        for pos, st in enumerate(stmts):
            st = self._canon_switch(st)
            st = self._canon_loop(st)
            st = self._canon_stepping(st)
            if self.fork and st.get("kind") == "IfStmt":
                return res + self._fork_if(st, stmts[pos + 1:], cond)
            outer_cond, self._cond = self._cond, cond
            try:
                if not self._store_stmt(st) and not self._map_loop(st, cond):
                    outer_rr = self._read_range
                    self._read_range = self._counted(st) or outer_rr
                    try:
                        res += csymx.Lower.run(self, [st], cond)
                    finally:
                        self._read_range = outer_rr
            finally:
                self._cond = outer_cond
            for v, t in (st.get("$after") or {}).items():
                self.env[v] = t
            if st.get("kind") == "ReturnStmt":
                break
        return res

    # -- path-by-path lowering of if-statements ----------------------------------------------------------------------------------
    def _fork_if(self, st, rest, cond):
        """the statements after an if-statement are lowered once per arm, each time in the state that arm leaves: what a helper
        returned (a status code, say) and what it stored through its out-parameters stay tied to each other, and a test on a value
        that is a constant on the path is decided"""
        inner = [x for x in (st.get("inner", []) or []) if isinstance(x, dict) and x.get("kind")]
        if len(inner) < 2:
            raise csymx.CUnsupported("if-statement form (line %s)" % st.get("line"))
        c = self.truth(self.expr(inner[0]))
        arms = [(c, _branch_stmts(inner[1])), (sp.Not(c), _branch_stmts(inner[2]) if len(inner) > 2 else [])]
        base_env = dict(self.env)
        out = []
        for take, arm in arms:
            if take == sp.false:
                continue
            self._paths += 1
            if self._paths > 600:
                raise csymx.CUnsupported("too many paths through the function (line %s)" % st.get("line"))
            self.env = dict(base_env)
            out += self.run(list(arm) + list(rest), sp.And(cond, take))
            if take == sp.true:
                break
        return out

    # -- a private local array that one loop fills and a later loop reads (loop fission) ------------------------------------------
    def _counted(self, st):
        """(index symbol, lo, hi) of `for (i = lo; i < hi; i++)`, else None"""
        if st.get("kind") != "ForStmt":
            return None
        init, _cv, test, _inc, _body = ((st.get("inner", []) or []) + [{}] * 5)[:5]
        i0, t = cfront.strip(init) if init.get("kind") else {}, cfront.strip(test) if test.get("kind") else {}
        if not (i0.get("kind") == "BinaryOperator" and i0.get("opcode") == "=" and t.get("kind") == "BinaryOperator" and t.get("opcode") in ("<", "<=")):
            return None
        iv = cfront.render(i0["inner"][0])
        if cfront.render(t["inner"][0]) != iv:
            return None
        try:
            return sp.Symbol(iv, integer=True), self.expr(i0["inner"][1]), self.expr(t["inner"][1]) - (1 if t["opcode"] == "<" else 0)
        except csymx.CUnsupported:
            return None

    def _filled(self, name, idx):
        """the value of element idx of the private local array `name`, when exactly one loop `for i in [lo, hi]: name[i] = f(i)`
        (run under the same path condition as the read) stored into it and idx lies in [lo, hi]: f(idx).  None otherwise."""
        recs = [s_ for s_ in self.stores if s_["base"] == sp.Symbol(name)]
        if len(recs) != 1:
            return None
        r = recs[0]
        if r["loop"] is None or r["index"] != IDX or r.get("cond") != self._cond or r.get("guard", sp.true) != sp.true:
            return None
        lo, hi = r["loop"]

        def le(a, b):
            try:
                d = sp.simplify(sp.sympify(b) - sp.sympify(a))
            except (TypeError, ValueError, sp.SympifyError):
                return False
            return d.is_number and d.is_nonnegative is True

        # the range the read index sweeps: an index affine in the counter of the enclosing counted loop takes its extreme values
        # at the two ends of that loop
        rng = None
        if self._read_range is not None and self._read_range[0] in getattr(idx, "free_symbols", ()):
            rng = self._read_range
        elif self._loop is not None and IDX in getattr(idx, "free_symbols", ()):
            rng = (IDX,) + tuple(self._loop)
        if rng is None:
            ends = [idx]
        else:
            try:
                if sp.Poly(idx, rng[0]).degree() > 1:
                    return None
            except sp.PolynomialError:
                return None
            ends = [idx.subs(rng[0], rng[1]), idx.subs(rng[0], rng[2])]
        if not all(le(lo, e_) and le(e_, hi) for e_ in ends):
            return None
        return r["value"].subs(IDX, idx)

    # -- switch: an if / else-if chain over the case labels (no fall-through between non-empty groups) ---------------------------
    def _canon_switch(self, st):
        if st.get("kind") != "SwitchStmt":
            return st
        inner = [x for x in (st.get("inner", []) or []) if isinstance(x, dict) and x.get("kind")]
        if len(inner) != 2 or inner[1].get("kind") != "CompoundStmt":
            raise csymx.CUnsupported("switch statement form (line %s)" % st.get("line"))
        sel, body = inner
        if any(x.get("kind") in ("CallExpr", "CompoundAssignOperator") or (x.get("kind") in ("BinaryOperator", "UnaryOperator") and x.get("opcode") in ("=", "++", "--"))
               for x in cfront.walk(sel)):
            raise csymx.CUnsupported("switch on an expression with side effects (line %s)" % st.get("line"))
        groups = []          # [labels (constant expression | None for default), statements]
        for s_ in body.get("inner", []) or []:
            labels = []
            while s_.get("kind") in ("CaseStmt", "DefaultStmt"):
                parts = [x for x in (s_.get("inner", []) or []) if isinstance(x, dict) and x.get("kind")]
                if s_["kind"] == "CaseStmt":
                    if len(parts) != 2:
                        raise csymx.CUnsupported("case label form (line %s)" % s_.get("line"))
                    labels.append(parts[0])
                else:
                    if len(parts) != 1:
                        raise csymx.CUnsupported("default label form (line %s)" % s_.get("line"))
                    labels.append(None)
                s_ = parts[-1]
            if labels:
                if groups and (not groups[-1][1] or groups[-1][1][-1].get("kind") not in ("BreakStmt", "ReturnStmt")):
                    raise csymx.CUnsupported("switch case falls through (line %s)" % s_.get("line"))
                groups.append([labels, []])
            elif not groups:
                raise csymx.CUnsupported("statement before the first case label (line %s)" % s_.get("line"))
            groups[-1][1].append(s_)
        chain_else = []
        arms = []
        for labels, body_ in groups:
            if body_ and body_[-1].get("kind") == "BreakStmt":
                body_ = body_[:-1]
            if any(x.get("kind") in ("BreakStmt", "CaseStmt", "DefaultStmt", "ContinueStmt") for b in body_ for x in cfront.walk(b)):
                raise csymx.CUnsupported("break / label inside a switch arm (line %s)" % st.get("line"))
            if None in labels:
                chain_else = body_          # the explicit labels of this group go where `default` goes
                continue
            test = None
            for lab in labels:
                eq = {"kind": "BinaryOperator", "opcode": "==", "inner": [sel, lab]}
                test = eq if test is None else {"kind": "BinaryOperator", "opcode": "||", "inner": [test, eq]}
            arms.append((test, body_))
        out = _compound(chain_else)
        for test, body_ in reversed(arms):
            has_else = bool(out.get("inner"))
            out = _compound([{"kind": "IfStmt", "line": st.get("line"), "hasElse": has_else, "inner": [test, _compound(body_)] + ([out] if has_else else [])}])
        stmts = out.get("inner", [])
        return stmts[0] if len(stmts) == 1 else {"kind": "IfStmt", "line": st.get("line"), "hasElse": False,
                                                  "inner": [{"kind": "IntegerLiteral", "value": "1"}, out]}

    # -- loops that step pointers / several variables: the same loop over a fresh index ----------------------------------------
    def _steps(self, inc):
        """names of the variables the increment expression advances by one (v++, ++v, v += 1, joined by commas), else None"""
        out = []

        def visit(e):
            e = cfront.strip(e)
            k = e.get("kind")
            if k == "BinaryOperator" and e.get("opcode") == ",":
                return visit(e["inner"][0]) and visit(e["inner"][1])
            if k == "UnaryOperator" and e.get("opcode") == "++":
                tgt = cfront.strip(e["inner"][0])
            elif k == "CompoundAssignOperator" and e.get("opcode") == "+=" and cfront.render(e["inner"][1]) == "1":
                tgt = cfront.strip(e["inner"][0])
            else:
                return False
            if tgt.get("kind") != "DeclRefExpr":
                return False
            out.append(tgt["referencedDecl"]["name"])
            return True

        if not isinstance(inc, dict) or not inc.get("kind") or not visit(inc) or len(set(out)) != len(out):
            return None
        return out

    def _canon_stepping(self, st):
        """`for (init; p < end; p++, q++) { ... *p ... *q = ... }` (also `!=`, `<=`, mirrored tests, an integer counter among the
        stepped variables, an empty init) is rewritten into `for (i$ = 0; i$ < N; i$++)` with N = end - p(entry) and every stepped
        variable v read as v(entry) + i$: `*v` and `v[k]` become v(entry)[i$] and v(entry)[i$ + k].  The classic counted loop
        `for (i = lo; i < hi; i++)` is left as it is."""
        if st.get("kind") != "ForStmt":
            return st
        init, _cv, test, inc, body = ((st.get("inner", []) or []) + [{}] * 5)[:5]
        steps = self._steps(inc)
        i0, t = cfront.strip(init) if init.get("kind") else {}, cfront.strip(test) if test.get("kind") else {}
        if steps is not None and len(steps) == 1 and i0.get("kind") == "BinaryOperator" and i0.get("opcode") == "=" and cfront.render(i0["inner"][0]) == steps[0] \
                and t.get("kind") == "BinaryOperator" and t.get("opcode") in ("<", "<=") and cfront.render(t["inner"][0]) == steps[0]:
            return st
        if steps is None:
            raise csymx.CUnsupported("loop increment form (line %s)" % st.get("line"))
        if not body.get("kind"):
            raise csymx.CUnsupported("loop without a body (line %s)" % st.get("line"))
        # the init part runs once, before the loop
        def init_stmts(e):
            e = cfront.strip(e)
            if e.get("kind") == "BinaryOperator" and e.get("opcode") == ",":
                return init_stmts(e["inner"][0]) + init_stmts(e["inner"][1])
            return [e]
        if init.get("kind"):
            for s_ in init_stmts(init):
                if s_.get("kind") not in ("DeclStmt", "NullStmt") and not (s_.get("kind") == "BinaryOperator" and s_.get("opcode") == "="):
                    raise csymx.CUnsupported("loop init form (line %s)" % st.get("line"))
                csymx.Lower.run(self, [s_])
        if t.get("kind") != "BinaryOperator" or t.get("opcode") not in ("<", "<=", ">", ">=", "!="):
            raise csymx.CUnsupported("loop test form (line %s)" % st.get("line"))
        a, b = cfront.strip(t["inner"][0]), cfront.strip(t["inner"][1])
        op = t["opcode"]
        if a.get("kind") == "DeclRefExpr" and a["referencedDecl"]["name"] in steps and op in ("<", "<=", "!="):
            pvar, bound = a["referencedDecl"]["name"], t["inner"][1]
        elif b.get("kind") == "DeclRefExpr" and b["referencedDecl"]["name"] in steps and op in (">", ">=", "!="):
            pvar, bound = b["referencedDecl"]["name"], t["inner"][0]
        else:
            raise csymx.CUnsupported("loop test form (line %s)" % st.get("line"))
        bound_names = {x["referencedDecl"]["name"] for x in cfront.walk(bound) if x.get("kind") == "DeclRefExpr"}
        if bound_names & set(steps):
            raise csymx.CUnsupported("the loop bound moves with the loop (line %s)" % st.get("line"))
        # nothing in the body may change a stepped variable or the bound, or leave the loop
        for x in cfront.walk(body):
            if x.get("kind") in ("BreakStmt", "ContinueStmt", "ReturnStmt", "GotoStmt"):
                raise csymx.CUnsupported("the loop is left early (line %s)" % x.get("line"))
            if x.get("kind") == "CompoundAssignOperator" or (x.get("kind") in ("BinaryOperator", "UnaryOperator") and x.get("opcode") in ("=", "++", "--")):
                tgt = cfront.strip(x["inner"][0])
                if tgt.get("kind") == "DeclRefExpr" and tgt["referencedDecl"]["name"] in set(steps) | bound_names:
                    raise csymx.CUnsupported("the loop body changes %s (line %s)" % (tgt["referencedDecl"]["name"], x.get("line")))
            if x.get("kind") == "UnaryOperator" and x.get("opcode") == "&":
                tgt = cfront.strip(x["inner"][0])
                if tgt.get("kind") == "DeclRefExpr" and tgt["referencedDecl"]["name"] in set(steps) | bound_names:
                    raise csymx.CUnsupported("the loop body takes the address of %s (line %s)" % (tgt["referencedDecl"]["name"], x.get("line")))
        entry = {v: self.env.get(v, sp.Symbol(v)) for v in steps}
        count = self.expr(bound) - entry[pvar] + (1 if op in ("<=", ">=") else 0)
        iv = "i$"
        if any(str(x) == iv for e_ in list(entry.values()) + [count] for x in getattr(e_, "free_symbols", ())):
            raise csymx.CUnsupported("nested stepping loops (line %s)" % st.get("line"))
        ref = self._ref(iv)

        # a stepped pointer starts at an array (a symbol or an opaque call such as PyArray_DATA(obj)) plus a constant offset
        base = {}
        for v in steps:
            off, rest = sp.sympify(entry[v]).as_coeff_Add()
            base[v] = (rest, off)

        def ptr_parts(v, n):
            rest, off = base[v]
            if not (isinstance(rest, (sp.Symbol, sp.core.function.AppliedUndef)) and off.is_Integer):
                raise csymx.CUnsupported("the stepped pointer %s does not start at an array the lowering can name (line %s)" % (v, n.get("line")))
            return {"kind": "$Term", "term": rest}, {"kind": "$Term", "term": off}

        def term(v):
            return {"kind": "$Term", "term": entry[v]}

        def is_ptr(n):
            return (n.get("type") or {}).get("qualType", "").rstrip().endswith("*") or ((n.get("referencedDecl") or {}).get("type") or {}).get("qualType", "").rstrip().endswith("*")

        def rw(n):
            if not isinstance(n, dict):
                return n
            k = n.get("kind")
            inner = n.get("inner", []) or []
            if k == "UnaryOperator" and n.get("opcode") == "*" and cfront.strip(inner[0]).get("kind") == "DeclRefExpr" and cfront.strip(inner[0])["referencedDecl"]["name"] in steps:
                b_, off = ptr_parts(cfront.strip(inner[0])["referencedDecl"]["name"], n)
                return {"kind": "ArraySubscriptExpr", "line": n.get("line"), "inner": [b_, {"kind": "BinaryOperator", "opcode": "+", "inner": [ref, off]}]}
            if k == "ArraySubscriptExpr" and cfront.strip(inner[0]).get("kind") == "DeclRefExpr" and cfront.strip(inner[0])["referencedDecl"]["name"] in steps:
                b_, off = ptr_parts(cfront.strip(inner[0])["referencedDecl"]["name"], n)
                return {"kind": "ArraySubscriptExpr", "line": n.get("line"), "inner": [
                    b_, {"kind": "BinaryOperator", "opcode": "+", "inner": [{"kind": "BinaryOperator", "opcode": "+", "inner": [ref, off]}, rw(inner[1])]}]}
            if k == "DeclRefExpr" and n["referencedDecl"]["name"] in steps:
                if is_ptr(n):
                    raise csymx.CUnsupported("the stepped pointer %s is used other than through * or [] (line %s)" % (n["referencedDecl"]["name"], n.get("line")))
                return {"kind": "BinaryOperator", "opcode": "+", "inner": [term(n["referencedDecl"]["name"]), ref]}
            if inner:
                n = dict(n)
                n["inner"] = [rw(x) for x in inner]
            return n

        return {"kind": "ForStmt", "line": st.get("line"), "$after": {v: entry[v] + count for v in steps}, "inner": [
            {"kind": "BinaryOperator", "opcode": "=", "inner": [ref, {"kind": "IntegerLiteral", "value": "0"}]}, {},
            {"kind": "BinaryOperator", "opcode": "<", "inner": [ref, {"kind": "$Term", "term": count}]},
            {"kind": "UnaryOperator", "opcode": "++", "isPostfix": True, "inner": [ref]},
            rw(body)]}

    def _store_stmt(self, st):
        """`*p = v` with p the address of a local (an out-parameter of an inlined helper) and `P[idx] = v`"""
        if not (st.get("kind") == "BinaryOperator" and st.get("opcode") == "="):
            return False
        lhs = cfront.strip(st["inner"][0])
        if lhs.get("kind") == "UnaryOperator" and lhs.get("opcode") == "*":
            p_ = self.expr(lhs["inner"][0])
            if getattr(getattr(p_, "func", None), "__name__", "") == "addr":
                self.env[str(p_.args[0])] = self.expr(st["inner"][1])
                return True
            return False
        if lhs.get("kind") == "ArraySubscriptExpr":
            self.stores.append({"base": self.expr(lhs["inner"][0]), "index": self.expr(lhs["inner"][1]), "value": self.expr(st["inner"][1]), "loop": self._loop,
                                "cond": self._cond, "guard": self._guard})
            return True
        return False

    def _map_loop(self, st, cond):
        """`for (i = lo; i < hi; i++) { t = ...; P[i] = f(t, i); }`: the element stores are recorded with the loop range; locals
        assigned in the body are temporaries of one iteration"""
        if st.get("kind") != "ForStmt":
            return False
        init, _cv, test, inc, body = (st.get("inner", []) + [{}] * 5)[:5]
        bs = _branch_stmts(body) if body.get("kind") else []
        def is_store(b):
            return b.get("kind") == "BinaryOperator" and b.get("opcode") == "=" and cfront.strip(b["inner"][0]).get("kind") == "ArraySubscriptExpr"
        if not any(is_store(b) for b in bs):
            return False
        i0, t = cfront.strip(init), cfront.strip(test)
        if not (i0.get("kind") == "BinaryOperator" and i0.get("opcode") == "=" and t.get("kind") == "BinaryOperator" and t.get("opcode") in ("<", "<=")):
            raise csymx.CUnsupported("loop header form (line %s)" % st.get("line"))
        iv = cfront.render(i0["inner"][0])
        if cfront.render(t["inner"][0]) != iv or cfront.render(inc).replace(" ", "") not in (iv + "++", "++" + iv, "(%s+=1)" % iv):
            raise csymx.CUnsupported("loop header form (line %s)" % st.get("line"))
        lo = self.expr(i0["inner"][1])
        hi = self.expr(t["inner"][1]) - (1 if t["opcode"] == "<" else 0)
        save, outer = dict(self.env), self._loop
        self.env[iv] = IDX
        self._loop = (lo, hi)

        def changes_index(b):
            return any(x.get("kind") in ("UnaryOperator", "CompoundAssignOperator", "BinaryOperator") and x.get("opcode") in ("++", "--", "+=", "-=", "=") and cfront.render(x["inner"][0]) == iv for x in cfront.walk(b))

        def guarded(stmts, guard, stored):
            """an if-statement of the loop body whose arms only store elements (and may end the iteration with `continue`): every
            store is recorded with the guard it is reached under.  Returns (guard under which control falls out of the statements,
            whether an element was stored on every way through them, whether every iteration ended by `continue` had stored one)."""
            ended_ok = True
            for b in stmts:
                k = b.get("kind")
                if k == "NullStmt":
                    continue
                if k == "ContinueStmt":
                    return sp.false, stored, ended_ok and stored
                if is_store(b):
                    if changes_index(b):
                        raise csymx.CUnsupported("the loop body changes its index (line %s)" % b.get("line"))
                    self._guard = guard
                    try:
                        self._store_stmt(b)
                    finally:
                        self._guard = sp.true
                    stored = True
                    continue
                if k == "IfStmt":
                    parts = [x for x in (b.get("inner", []) or []) if isinstance(x, dict) and x.get("kind")]
                    if len(parts) < 2 or any(x.get("kind") in ("CallExpr", "CompoundAssignOperator") or (x.get("kind") in ("BinaryOperator", "UnaryOperator") and x.get("opcode") in ("=", "++", "--"))
                                             for x in cfront.walk(parts[0])):
                        raise csymx.CUnsupported("loop body statement %s (line %s)" % (k, b.get("line")))
                    c = self.truth(self.expr(parts[0]))
                    g1, s1, e1 = guarded(_branch_stmts(parts[1]), sp.And(guard, c), stored)
                    g2, s2, e2 = guarded(_branch_stmts(parts[2]) if len(parts) > 2 else [], sp.And(guard, sp.Not(c)), stored)
                    ended_ok = ended_ok and e1 and e2
                    if g1 == sp.false and g2 == sp.false:
                        return sp.false, stored, ended_ok
                    guard, stored = (g2, s2) if g1 == sp.false else (g1, s1) if g2 == sp.false else (guard, s1 and s2)
                    continue
                raise csymx.CUnsupported("loop body statement %s (line %s)" % (k, b.get("line")))
            return guard, stored, ended_ok

        guard, stored, ended_ok = sp.true, False, True
        for b in bs:
            k = b.get("kind")
            if guard == sp.true and (is_store(b) or (k == "BinaryOperator" and b.get("opcode") == "=" and cfront.strip(b["inner"][0]).get("kind") == "DeclRefExpr") or k in ("DeclStmt", "NullStmt")):
                if changes_index(b):
                    raise csymx.CUnsupported("the loop body changes its index (line %s)" % b.get("line"))
                if not self._store_stmt(b):
                    csymx.Lower.run(self, [b], cond)
                else:
                    stored = True
            elif k in ("IfStmt", "ContinueStmt") or (guard != sp.true and (is_store(b) or k == "NullStmt")):
                guard, stored, e_ = guarded([b], guard, stored)
                ended_ok = ended_ok and e_
                if guard == sp.false:
                    break
            else:
                raise csymx.CUnsupported("loop body statement %s (line %s)" % (k, b.get("line")))
        if not (ended_ok and (stored or guard == sp.false)):
            # some way through the body stores no element
            self.partial_loops.append(st.get("line"))
        self.env, self._loop = save, outer
        return True

    @staticmethod
    def _ref(name):
        return {"kind": "DeclRefExpr", "referencedDecl": {"kind": "VarDecl", "name": name}}

    def _canon_loop(self, st):
        k = st.get("kind")
        inner = st.get("inner", []) or []
        if k == "ForStmt" and inner and inner[0].get("kind") == "DeclStmt":
            vs = [v for v in inner[0].get("inner", []) if v.get("kind") == "VarDecl"]
            init = [c for c in (vs[0].get("inner", []) if len(vs) == 1 else []) if isinstance(c, dict) and c.get("kind")]
            if len(vs) == 1 and init:
                st = dict(st)
                st["inner"] = [{"kind": "BinaryOperator", "opcode": "=", "inner": [self._ref(vs[0]["name"]), init[-1]]}] + inner[1:]
            return st
        if k != "WhileStmt":
            return st
        test = cfront.strip(inner[0])
        body = inner[-1]
        bs = list(body.get("inner", []) or []) if body.get("kind") == "CompoundStmt" else [body]
        if not (test.get("kind") == "BinaryOperator" and test.get("opcode") in ("<", "<=") and cfront.strip(test["inner"][0]).get("kind") == "DeclRefExpr" and bs):
            raise csymx.CUnsupported("while loop is not a counted loop (line %s)" % st.get("line"))
        iv = cfront.render(test["inner"][0])
        last = cfront.render(bs[-1]).replace(" ", "")
        if last not in (iv + "++", "++" + iv, "(%s+=1)" % iv, "(%s=(%s+1))" % (iv, iv), "(%s=(1+%s))" % (iv, iv)):
            raise csymx.CUnsupported("while loop does not end by incrementing %s (line %s)" % (iv, st.get("line")))
        for b in bs[:-1]:
            for x in cfront.walk(b):
                if x.get("kind") in ("ContinueStmt", "BreakStmt", "ReturnStmt") or (
                        x.get("kind") in ("BinaryOperator", "CompoundAssignOperator", "UnaryOperator") and x.get("opcode") in ("=", "+=", "-=", "*=", "/=", "++", "--")
                        and cfront.render(x["inner"][0]) == iv):
                    raise csymx.CUnsupported("while loop changes %s or leaves early (line %s)" % (iv, st.get("line")))
        return {"kind": "ForStmt", "line": st.get("line"), "inner": [
            {"kind": "BinaryOperator", "opcode": "=", "inner": [self._ref(iv), self._ref(iv)]}, {}, inner[0],
            {"kind": "UnaryOperator", "opcode": "++", "isPostfix": True, "inner": [self._ref(iv)]},
            {"kind": "CompoundStmt", "inner": bs[:-1]}]}


def lowered(lib, name, symbols=None):
    if name not in lib:
        raise AnalysisError("C anchor %s not found in cosmolib.c" % name)
    L = _Lower(lib[name], symbols, lib)
    r = L.run(cfront.body_of(lib[name]).get("inner", []) or [])
    return csymx.merged_return(r), L


def _eq(a, b):
    if a is None or b is None:
        return False
    return symx.equal(a, b)[0]


IDX = sp.Symbol("i", integer=True)
_ENUMS = {}


def _load_enums(decls):
    """enumerator name -> value, from the enum declarations of a translation unit"""
    for d in decls:
        for e in cfront.walk(d):
            if e.get("kind") != "EnumDecl":
                continue
            nxt = 0
            for c in e.get("inner", []) or []:
                if c.get("kind") != "EnumConstantDecl":
                    continue
                val = [x.get("value") for x in cfront.walk(c) if x.get("kind") in ("ConstantExpr", "IntegerLiteral") and x.get("value") is not None]
                try:
                    nxt = int(val[0]) if val else nxt
                except ValueError:
                    continue
                _ENUMS[c["name"]] = nxt
                nxt += 1


_CONSTS = {}


def _load_consts(decls):
    """name -> value of the file-scope objects declared `const` with an initialiser that is a constant expression of literals"""
    for d in decls:
        if d.get("kind") != "VarDecl" or not d.get("name") or not re.search(r"\bconst\b", (d.get("type") or {}).get("qualType", "")) \
                or "*" in (d.get("type") or {}).get("qualType", ""):
            continue
        ini = [c for c in d.get("inner", []) or [] if isinstance(c, dict) and c.get("kind")]
        if not ini or any(x.get("kind") in ("DeclRefExpr", "CallExpr", "MemberExpr") and (x.get("referencedDecl") or {}).get("kind") != "EnumConstantDecl" for x in cfront.walk(ini[-1])):
            continue
        try:
            v = csymx.Lower({"inner": []}).expr(ini[-1])
        except (csymx.CUnsupported, KeyError, TypeError, ValueError):
            continue
        if isinstance(v, sp.Basic) and v.is_number:
            _CONSTS[d["name"]] = v


POS = sp.Symbol("K_pos", positive=True)
NEG = sp.Symbol("K_neg", negative=True)


def _case(t, case):
    """the term in one case of the state space (symbol -> representative value: 0/1 for the flat flag, a positive or negative
    symbol for the curvature ...): guards are decided by substitution; None when a guard stays undecided"""
    if t is None:
        return None
    try:
        r = t.subs(case, simultaneous=True)
        if r.has(sp.Piecewise):
            r = sp.piecewise_fold(r)
    except Exception:
        return None
    if r.has(sp.Piecewise) or any(isinstance(x, sp.core.relational.Relational) for x in sp.preorder_traversal(r)):
        return None
    return r


def _same_in(t, ref, case, why=None):
    """True / False / None (a guard of the code is undecided in that case): t equals ref in the given case.  why: a list that
    receives a description of the part of the case in which t is something else."""
    a = _case(t, case)
    if a is None:
        # a guard on the sign of the curvature (directly or through a cached geometry flag) that the case leaves open: decided
        # for positive, negative and zero curvature separately, which together are every real value
        ok_ = sp.Symbol("c.omega_k")
        if t is not None and ok_ not in case and ok_ in t.free_symbols:
            return _all3(_same_in(t, ref, dict(list(case.items()) + [(ok_, v)]), why) for v in (POS, NEG, sp.Integer(0)))
        return _same_on_every_region(t, ref, case, why)
    return bool(_eq(a, ref.subs(case, simultaneous=True)))


_POSITIVE_MEMBERS = ("c.DH",)


def _eq_also_exp(a, b):
    """term equality, also through the exponential forms of the hyperbolic and circular functions (a branch of the code that spells
    sinh with exp is the same value)"""
    if _eq(a, b):
        return True
    try:
        d = sp.simplify((a - b).rewrite(sp.exp))
        return d == 0 or sp.expand(d) == 0
    except Exception:
        return False


def _strict(rel, truth):
    """the interior of the set on which the relational has the given truth value, as a list of strict relationals ([] = no
    constraint: the set is all but a thin part of the space); None when that set is thin itself (an equality that holds)"""
    l, r = rel.lhs, rel.rhs
    if isinstance(rel, sp.Eq):
        return None if truth else [sp.Ne(l, r)]
    if isinstance(rel, sp.Ne):
        return [sp.Ne(l, r)] if truth else None
    less = isinstance(rel, (sp.StrictLessThan, sp.LessThan))
    if not less and not isinstance(rel, (sp.StrictGreaterThan, sp.GreaterThan)):
        return None
    return [sp.StrictLessThan(l, r) if less == truth else sp.StrictGreaterThan(l, r)]


def _open_witness(conds, syms):
    """a point (exact rationals) at which every one of the strict relationals holds, or None when none was found.  The two sides of
    the relationals are continuous in the symbols, so the relationals then hold on a whole neighbourhood of the point: the
    region they describe has a non-empty interior.  This is a satisfiability witness for the guards of the code, nothing is
    concluded from the value the code computes there; not finding one proves nothing."""
    import itertools
    ks = sorted({abs(sp.Rational(str(n))) for c in conds for n in c.atoms(sp.Number) if n != 0 and n.is_finite})
    mags = set(ks) | {k / 2 for k in ks} | {2 * k for k in ks} | {(a + b) / 2 for a, b in zip(ks, ks[1:])} | {sp.Integer(1)}
    syms = sorted(syms, key=lambda x: x.name)
    cands = []
    for v in syms:
        m = sorted(mags)
        cands.append(m if v.is_positive else ([sp.Integer(0)] + m + [-x for x in m]))
    n = 0
    for pt in itertools.product(*cands):
        n += 1
        if n > 4000:
            return None
        sub = dict(zip(syms, pt))
        try:
            if all(c.subs(sub) == sp.true for c in conds):
                return sub
        except (TypeError, ValueError, ZeroDivisionError):
            continue
    return None


def _same_on_every_region(t, ref, case, why=None):
    """t equals ref in the given case on every region into which the guards the case leaves open divide the inputs.  Such a guard
    tests a quantity the definitions quantify over (a distance, a redshift): the definition is the same on both sides of it, so
    the value of the code must be the reference on each side.  True / False / None: False only when on a region with non-empty
    interior (a witness point satisfies its guards strictly) the value is not the reference term; a region that is thin (an
    equality holds on it) is compared after solving the equality; None when guards stay undecided, a region cannot be shown to
    be inhabited, or there are too many of them."""
    import itertools
    if t is None:
        return None
    try:
        r = t.subs(case, simultaneous=True)
        want = ref.subs(case, simultaneous=True)
        # values of callees are any real number (their definitions are other rules' business); D_H and, in a curved model,
        # sqrt|Omega_k|/D_H are positive (cosmo_new::tcfac, object_state)
        names = {}
        apps = sorted((r.atoms(sp.core.function.AppliedUndef) | want.atoms(sp.core.function.AppliedUndef)), key=lambda x: -len(str(x)))
        for k, f in enumerate(a_ for a_ in apps if not any(a_ is not b_ and b_.has(a_) for b_ in apps)):
            names[f] = sp.Symbol("v%d_%s" % (k, f.func.__name__), real=True)
        flat = sp.Symbol("c.flat")
        for m in _POSITIVE_MEMBERS + (("c.tcfac",) if case.get(flat) == 0 else ()):
            names[sp.Symbol(m)] = sp.Symbol(m + "_pos", positive=True)
        back = {v: k for k, v in names.items()}
        r, want = r.subs(names, simultaneous=True), want.subs(names, simultaneous=True)
        for s_ in sorted((r.free_symbols | want.free_symbols) - set(back), key=lambda x: x.name):
            if s_.is_real is None:
                rs = sp.Symbol(s_.name, real=True)
                names[s_], back[rs] = rs, s_
        r, want = r.subs(names, simultaneous=True), want.subs(names, simultaneous=True)
        if r.has(sp.Piecewise):
            r = sp.piecewise_fold(r)
    except Exception:
        return None
    atoms = sorted(r.atoms(sp.core.relational.Relational), key=str)
    if not atoms or len(atoms) > 4:
        return None
    verdicts = []
    for truth in itertools.product((True, False), repeat=len(atoms)):
        try:
            v = r.xreplace({a_: (sp.true if b_ else sp.false) for a_, b_ in zip(atoms, truth)})
            if v.has(sp.Piecewise):
                v = sp.piecewise_fold(v)
        except Exception:
            verdicts.append(None)
            continue
        if v.has(sp.Piecewise) or v.atoms(sp.core.relational.Relational) or v is sp.nan:
            verdicts.append(None)
            continue
        if _eq_also_exp(v, want):
            verdicts.append(True)
            continue
        # the value differs from the reference term: does the region exist, and is it more than a thin set?
        region = [(_strict(a_, b_), a_, b_) for a_, b_ in zip(atoms, truth)]
        thin = [a_ for st_, a_, b_ in region if st_ is None]
        if thin:
            # on an equality: compared after solving it for a callee value or a symbol (never a contradiction: whether the rest
            # of the region is inhabited is not looked at)
            okthin = None
            e_ = thin[0]
            for var in sorted((e_.lhs - e_.rhs).free_symbols, key=lambda x: (not x.name.startswith("v"), x.name)):
                try:
                    sol = sp.solve(e_.lhs - e_.rhs, var, dict=True)
                except Exception:
                    continue
                if len(sol) == 1 and _eq_also_exp(v.subs(sol[0]), want.subs(sol[0])):
                    okthin = True
                    break
            verdicts.append(okthin)
            continue
        conds = [c for st_, _, _ in region for c in st_]
        try:
            if sp.simplify_logic(sp.And(*conds)) == sp.false:
                continue            # no such region
        except Exception:
            pass
        syms = set().union(*[c.free_symbols for c in conds]) if conds else set()
        try:
            if len(syms) == 1 and not any(isinstance(c, sp.Ne) for c in conds) and sp.reduce_inequalities(conds, list(syms)) == sp.false:
                continue            # the guards exclude each other: no such region (dead code)
        except Exception:
            pass
        pt = _open_witness(conds, syms) if len(syms) <= 3 else None
        if pt is None:
            verdicts.append(None)
            continue
        verdicts.append(False)
        if why is not None:
            why.append("where %s it is %s, not %s" % (" and ".join(str(c.subs(back, simultaneous=True)) for c in conds), v.subs(back, simultaneous=True), want.subs(back, simultaneous=True)))
    return _all3(verdicts)


_MONOTONE = ("Dc",)


def _by_redshift_order(t, ref, case, why=None):
    """t equals ref in a case that fixes the order of two redshifts, when guards of t compare distances instead of redshifts.
    What such a test says about the redshifts follows from the distance as a function of redshift: the line-of-sight comoving
    distance D_C(a, .) is the integral of a positive integrand, strictly increasing in its upper limit (and D_C(a, b) has the sign
    of b - a), so a comparison of two of its values with a common lower limit is the comparison of the upper limits.  The
    angular diameter distance D_A(0, z) = D_M/(1+z) is NOT monotonic in z (it rises to a maximum and falls again, Hogg 1999
    fig. 2): the order of two of its values at different redshifts is not fixed by the order of the redshifts, both orders occur,
    so such a test is an input of its own and the value must be ref on both of its sides (_same_on_every_region).  Tests on other
    quantities are not decided (None)."""
    if t is None:
        return None
    try:
        r = t.subs(case, simultaneous=True)
        if r.has(sp.Piecewise):
            r = sp.piecewise_fold(r)
    except Exception:
        return None
    App = sp.core.function.AppliedUndef
    rewrite, free = {}, False
    for rel in r.atoms(sp.core.relational.Relational):
        apps = rel.atoms(App)
        if not apps:
            return None
        l, rr = rel.lhs, rel.rhs
        if isinstance(l, App) and isinstance(rr, App) and l.func == rr.func and len(l.args) == len(rr.args) == 3 and l.args[:2] == rr.args[:2]:
            name = l.func.__name__
            if name in _MONOTONE:
                rewrite[rel] = rel.func(l.args[2], rr.args[2])
                continue
            if name == "Da" and sp.simplify(l.args[2] - rr.args[2]) != 0:
                free = True
                continue
        if isinstance(l, App) and l.func.__name__ in _MONOTONE and len(l.args) == 3 and rr == 0:
            rewrite[rel] = rel.func(l.args[2] - l.args[1], 0)
            continue
        if isinstance(rr, App) and rr.func.__name__ in _MONOTONE and len(rr.args) == 3 and l == 0:
            rewrite[rel] = rel.func(0, rr.args[2] - rr.args[1])
            continue
        return None
    try:
        r = r.xreplace(rewrite)
        if r.has(sp.Piecewise):
            r = sp.piecewise_fold(r)
    except Exception:
        return None
    want = ref.subs(case, simultaneous=True)
    if not r.has(sp.Piecewise) and not r.atoms(sp.core.relational.Relational):
        return bool(_eq(r, want))
    if not free:
        return None
    return _same_on_every_region(r, want, {}, why)


def _all3(vals):
    """conjunction over True / False / None: a recognised contradiction wins over `not recognised`"""
    vals = list(vals)
    if any(v is False for v in vals):
        return False
    if any(v is None for v in vals):
        return None
    return True


def _sum_form(t):
    """(total summand over the canonical index, lo, hi) of  k * Sum(f, (j, lo, hi))  with k free of j, else None"""
    if t is None:
        return None
    k = sp.Integer(1)
    if isinstance(t, sp.Mul):
        sums = [a for a in t.args if isinstance(a, sp.Sum)]
        if len(sums) != 1:
            return None
        k = sp.Mul(*[a for a in t.args if a is not sums[0]])
        t = sums[0]
    if not isinstance(t, sp.Sum) or len(t.limits) != 1:
        return None
    j, lo, hi = t.limits[0]
    if k.has(j):
        return None
    return (k * t.function).subs(j, IDX), lo, hi


def _sum_ok(t, summand, n):
    """True / False / None: t is sum_{i=0}^{n-1} summand(i)"""
    sf = _sum_form(t)
    if sf is None:
        return None
    f, lo, hi = sf
    return bool(lo == 0 and hi == n - 1 and _eq(f, summand))


def _order_cases(lo, hi, reversed_too=True):
    """the orderings of a redshift pair, each as (label, substitution, back-substitution): lo < hi, lo == hi and (for the quantities
    whose definition extends to reversed pairs through the antisymmetry identity) lo > hi.  Together they are every real pair, so a
    guard of the code on the order of its two arguments is decided in each of them, whatever its spelling."""
    r, d = sp.Symbol(lo.name, real=True), sp.Symbol("d_pos", positive=True)
    cases = [("%s < %s" % (lo, hi), {lo: r, hi: r + d}, {d: hi - lo, r: lo}), ("%s == %s" % (lo, hi), {lo: r, hi: r}, {r: lo})]
    if reversed_too:
        cases.append(("%s > %s" % (lo, hi), {lo: r, hi: r - d}, {d: lo - hi, r: lo}))
    return cases


def _sum_ok_every_order(t, summand, n, lo, hi, reversed_too=True):
    """(True / False / None, description of the first ordering that contradicts): t is sum_{i<n} summand(i) for every ordering of
    the pair (lo, hi).  A term without guards is compared as it stands; a guarded term (an early return, a clamp, a swap of the
    bounds) is compared in each ordering after its guards have been decided there.  Where the reference itself is identically zero
    (an empty interval) the literal 0 is the same value."""
    if t is None:
        return None, None
    if not t.has(sp.Piecewise) and not any(isinstance(x, sp.core.relational.Relational) for x in sp.preorder_traversal(t)):
        return _sum_ok(t, summand, n), None
    verdicts, why = [], None
    for label, case, back in _order_cases(lo, hi, reversed_too):
        a = _case(t, case)
        if a is None:
            verdicts.append(None)
            continue
        want = sp.expand(summand.subs(case, simultaneous=True))
        if want == 0:
            v = True if a == 0 else _sum_ok(a, want, n)
        elif a == 0:
            v = False
        else:
            v = _sum_ok(a, summand.subs(case, simultaneous=True), n)
        if v is False and why is None:
            why = "for %s it is %s" % (label, a.subs(back, simultaneous=True) if back else a)
        verdicts.append(v)
    return _all3(verdicts), why


STRUCT_PARAMS = ("DH", "flat", "omega_m", "omega_l", "omega_k")
STRUCT_KNOWN = STRUCT_PARAMS + ("tcfac", "x", "w", "vx", "vw")


def _cached_members(chk, lib, st, W):
    """members of struct cosmo, other than those the reference formulas are written in, that the constructor sets to a function of
    its parameters (a cached geometry flag, say): {Symbol('c.<member>'): that function over the c.<parameter> symbols}.  Reading
    such a member anywhere is reading that function, provided the parameters are stored as given (cosmo_new::parameters-stored)
    and no other function of the library writes the member (one rule instance per cached member)."""
    if not st:
        return {}
    out = {}
    to_member = {S(m): S("c." + m) for m in STRUCT_PARAMS}
    for key, val in st.items():
        if not (isinstance(key, str) and key.startswith("c->")) or "[" in key or key[3:] in STRUCT_KNOWN or not isinstance(val, sp.Basic):
            continue
        name = key[3:]
        if not name.isidentifier() or not val.free_symbols <= set(to_member):
            continue
        writers = set()
        for fname, fn in lib.items():
            if fname == "cosmo_new":
                continue
            for x in cfront.walk(cfront.body_of(fn)):
                k, op = x.get("kind"), x.get("opcode")
                if k == "CompoundAssignOperator" or (k in ("BinaryOperator", "UnaryOperator") and op in ("=", "++", "--", "&")):
                    if k == "BinaryOperator" and op == "&":
                        continue
                    tgt = cfront.strip(x["inner"][0])
                    if tgt.get("kind") == "MemberExpr" and tgt.get("name") == name:
                        writers.add(fname)
        chk.ob("R11.1", "struct-cosmo::cached-member-%s-set-only-by-constructor" % name, True if not writers else None, W,
               "the member %s caches %s of the constructor's parameters; no other function of the library writes it or takes its address (%s)" % (name, val, sorted(writers)))
        if not writers:
            out[S("c." + name)] = val.subs(to_member, simultaneous=True)
    return out


def formulas(chk, lib):
    W = "esutil/cosmology/cosmolib.c"
    z, zmin, zmax, zl, zs = S("z"), S("zmin"), S("zmax"), S("zl"), S("zs")
    om, ol, ok_, DH, tc, flat = S("c.omega_m"), S("c.omega_l"), S("c.omega_k"), S("c.DH"), S("c.tcfac"), S("c.flat")
    c = S("c")
    Fn = {n: sp.Function(n) for n in ("ez_inverse", "ez_inverse_integral", "Dc", "Dm", "Da", "Dl", "dV")}

    # cosmo_new: the state of the struct when it is returned (stores to members are followed, helpers inlined)
    if "cosmo_new" not in lib:
        raise AnalysisError("cosmo_new not found")
    try:
        _, L = lowered(lib, "cosmo_new")
        st = L.env
    except csymx.CUnsupported as e:
        chk.ob("R11.1", "cosmo_new::lowered", None, W, "cosmo_new is outside the C subset that is lowered (%s)" % e)
        st = None
    cached = _cached_members(chk, lib, st, W)

    def low(name):
        try:
            t = lowered(lib, name)[0]
        except csymx.CUnsupported as e:
            chk.ob("R11.1", name + "::lowered", None, W, "the body of %s is outside the C subset that is lowered to a term (%s)" % (name, e))
            return None
        if t is not None and cached and t.free_symbols & set(cached):
            # a member that caches a function of the constructor's parameters is read as that function
            t = t.subs(cached, simultaneous=True)
        mem = _unresolved_reads(t, lib[name])
        if mem:
            chk.ob("R11.1", name + "::lowered", None, W, "the value %s returns is read from local memory (%s) whose contents the lowering could not resolve to a term (found %s)" % (name, ", ".join(mem), t))
            return None
        return t

    i = IDX
    # 1/E(z): decided per case of the flat flag (the guards are evaluated, their spelling and nesting do not matter)
    t = low("ez_inverse")
    chk.ob("R11.1", "ez_inverse::flat", _same_in(t, 1 / sp.sqrt(om * (1 + z) ** 3 + ol), {flat: 1}), W, "flat: 1/E = 1/sqrt(Om (1+z)^3 + OL) (found %s)" % _case(t, {flat: 1}))
    chk.ob("R11.1", "ez_inverse::curved", _same_in(t, 1 / sp.sqrt(om * (1 + z) ** 3 + ok_ * (1 + z) ** 2 + ol), {flat: 0}), W,
           "curved: 1/E = 1/sqrt(Om (1+z)^3 + Ok (1+z)^2 + OL) (found %s)" % _case(t, {flat: 0}))
    # integral
    t = low("ez_inverse_integral")
    f1, f2 = (zmax - zmin) / 2, (zmax + zmin) / 2
    # for every ordering of the pair: the same expression for a > b is what makes Dc(a,b) = -Dc(b,a) and every distance built on it
    ok, why = _sum_ok_every_order(t, f1 * sp.Function("c.w")(i) * Fn["ez_inverse"](c, sp.Function("c.x")(i) * f1 + f2), 5, zmin, zmax)
    chk.ob("R11.1", "ez_inverse_integral::gauss-legendre-sum", ok, W,
           "(b-a)/2 * sum_{i<5} w_i / E((b-a)/2 x_i + (a+b)/2) for every ordering of a and b, reversed pairs included (found %s%s)" % (t, "; " + why if why else ""))
    t = low("Dc")
    chk.ob("R11.1", "Dc", _eq(t, DH * Fn["ez_inverse_integral"](c, zmin, zmax)) if t is not None else None, W, "D_C = D_H * integral of 1/E (found %s)" % t)
    t = low("Dm")
    dc = Fn["Dc"](c, zmin, zmax)
    why = []
    ok = _all3([_same_in(t, sp.sinh(dc * tc) / tc, {flat: 0, ok_: POS}, why), _same_in(t, sp.sin(dc * tc) / tc, {flat: 0, ok_: NEG}, why), _same_in(t, dc, {flat: 1}, why)])
    chk.ob("R11.1", "Dm::three-arms", ok, W, "D_M = sinh(D_C t)/t (Ok>0), sin(D_C t)/t (Ok<0), D_C (flat), t = sqrt|Ok|/D_H, for every value of D_C%s (found %s)" % (
        ": " + "; ".join(sorted(set(why))) if why else "", t))
    why = []
    okc = _all3([_same_in(t, dc, {flat: 1, ok_: POS}, why), _same_in(t, dc, {flat: 1, ok_: NEG}, why), _same_in(t, sp.sinh(dc * tc) / tc, {flat: 0, ok_: POS}, why)])
    chk.ob("R11.1", "Dm::arm-conditions", okc, W, "sinh arm for Omega_k > 0, curved arms only when not flat%s (found %s)" % (": " + "; ".join(sorted(set(why))) if why else "", t))
    t = low("Da")
    chk.ob("R11.1", "Da", _eq(t, Fn["Dm"](c, zmin, zmax) / (1 + zmax)) if t is not None else None, W, "D_A = D_M/(1+z) (found %s)" % t)
    t = low("Dl")
    chk.ob("R11.1", "Dl", _eq(t, Fn["Dm"](c, zmin, zmax) * (1 + zmax)) if t is not None else None, W, "D_L = (1+z) D_M (found %s)" % t)
    t = low("dV")
    chk.ob("R11.1", "dV", _eq(t, DH * (1 + z) ** 2 * Fn["Da"](c, 0, z) ** 2 * Fn["ez_inverse"](c, z)) if t is not None else None, W, "dV = D_H (1+z)^2 D_A(0,z)^2 / E(z) (found %s)" % t)
    t = low("V")
    # the property quantifies the volume over ordered pairs only: a guard on the order is decided for a < b and a == b
    ok, why = _sum_ok_every_order(t, 4 * sp.pi * f1 * sp.Function("c.vw")(i) * Fn["dV"](c, sp.Function("c.vx")(i) * f1 + f2), 10, zmin, zmax, reversed_too=False)
    chk.ob("R11.1", "V::ten-point-sum-times-4pi", ok, W, "V = 4 pi * (b-a)/2 * sum_{i<10} vw_i dV((b-a)/2 vx_i + (a+b)/2) (found %s%s)" % (t, "; " + why if why else ""))
    t = low("scinv")
    dpos, zlr = sp.Symbol("d_pos", positive=True), sp.Symbol("zl", real=True)
    front_cases = [{zl: zlr, zs: zlr}, {zl: zlr, zs: zlr - dpos}]
    front = [_case(t, c_) for c_ in front_cases]
    why = []
    if any(f is None for f in front):
        # a guard of scinv that the order of the two redshifts does not decide by substitution (it tests distances): decided with
        # what is known of the distances as functions of redshift (_by_redshift_order)
        okf = _all3([(f == 0) if f is not None else _by_redshift_order(t, sp.Integer(0), c_, why) for f, c_ in zip(front, front_cases)])
    else:
        okf = all(f == 0 for f in front)
    chk.ob("R11.1", "scinv::zero-for-source-at-or-in-front-of-lens", okf, W,
           "Sigma_crit^-1 = 0 for z_s = z_l and for z_s < z_l (found %s%s)" % (front, ": " + "; ".join(sorted(set(why))) if why else ""))
    DaF = sp.Function("Da")
    behind = _case(t, {zl: zlr, zs: zlr + dpos})
    live = [p_ for p_ in _pieces(t) if p_ != 0] if t is not None else []
    if behind is None and len(live) == 1:
        # the one non-zero value scinv can return must be what it returns for every source behind the lens
        why = []
        okb = _by_redshift_order(t, live[0], {zl: zlr, zs: zlr + dpos}, why)
        return_early = okb is False
        if okb is True:
            behind = live[0].subs({zl: zlr, zs: zlr + dpos}, simultaneous=True)
        if return_early:
            chk.ob("R11.1", "scinv::distance-ratio", False, W, "Sigma_crit^-1 is the distance ratio for every z_s > z_l (%s)" % "; ".join(sorted(set(why))))
    else:
        return_early = False
    if behind is not None:
        v = behind.subs(dpos, zs - zl).subs(zlr, zl)
        k, rest = v.as_independent(DaF, as_Add=False)
        okm = _eq(rest, DaF(c, zl, zs) * DaF(c, 0, zl) / DaF(c, 0, zs))
        chk.ob("R11.1", "scinv::distance-ratio", okm, W, "Sigma_crit^-1 proportional to D_ls D_l / D_s (found %s)" % rest)
        # 4 pi G / c^2 in pc^2/Msun per Mpc: 4 pi (GM_sun)/c^2 / pc * 1e6
        GM = sp.Rational("1.32712440018e20")
        cl = sp.Rational("2.99792458e8")
        pc = sp.Rational("3.0856775814913673e16")
        want = 4 * sp.pi * GM / cl ** 2 / pc * 10 ** 6
        try:
            rel = abs(float(k / want) - 1)
        except TypeError:
            rel = None
        chk.ob("R11.1", "scinv::four-pi-G-over-c-squared", None if rel is None else rel < 1e-3, W,
               "the constant %s agrees with 4 pi G M_sun/c^2 per pc (x 1e6 pc/Mpc) = %.9g within 1e-3 (relative difference %s)" % (k, float(want), rel))
    elif not return_early:
        chk.ob("R11.1", "scinv::distance-ratio", None, W, "the value of scinv for z_s > z_l could not be isolated (found %s)" % t)
    if st is not None:
        pk, pDH, pflat = S("omega_k"), S("DH"), S("flat")
        tcv = st.get("c->tcfac")
        okt = _all3([_same_in(tcv, sp.sqrt(pk) / pDH, {pflat: 0, pk: POS}), _same_in(tcv, sp.sqrt(-pk) / pDH, {pflat: 0, pk: NEG})]) if tcv is not None else None
        chk.ob("R11.1", "cosmo_new::tcfac", okt, W, "tcfac = sqrt(|Omega_k|)/D_H (sqrt(Ok) for Ok>0, sqrt(-Ok) otherwise): %s" % tcv)
        cp = {m: st.get("c->" + m) for m in ("DH", "flat", "omega_m", "omega_l", "omega_k")}
        chk.ob("R11.1", "cosmo_new::parameters-stored", all(v == S(m) for m, v in cp.items()), W, "the five parameters are stored unmodified (%s)" % cp)


_UNKNOWN_CONTENT = ("unknown",)
_UNSET = ("never written",)


def _type_bytes(q):
    """size in bytes of a C object type of the kinds that occur here (arrays of double / float / int), else None"""
    q = re.sub(r"\b(const|volatile|restrict)\b", "", q or "").strip()
    m = re.match(r"^(.*?)((?:\s*\[\d+\])*)$", q)
    base, dims = m.group(1).strip(), re.findall(r"\[(\d+)\]", m.group(2))
    unit = {"double": 8, "float": 4, "int": 4, "unsigned int": 4, "char": 1, "unsigned char": 1, "long": 8, "unsigned long": 8}.get(base)
    if unit is None:
        return None
    for d in dims:
        unit *= int(d)
    return unit


def _c_int(n):
    """the value of an integer constant expression (literals, enumerators, sizeof of the simple types above, + - *), else None"""
    n = cfront.strip(n)
    k = n.get("kind")
    inner = n.get("inner", []) or []
    if k == "IntegerLiteral":
        try:
            return int(n["value"])
        except (KeyError, ValueError):
            return None
    if k == "DeclRefExpr" and (n.get("referencedDecl") or {}).get("kind") == "EnumConstantDecl":
        return _ENUMS.get(n["referencedDecl"].get("name"))
    if k == "UnaryExprOrTypeTraitExpr" and n.get("name") == "sizeof":
        q = (n.get("argType") or {}).get("qualType") or ((cfront.strip(inner[0]).get("type") or {}).get("qualType") if inner else None)
        return _type_bytes(q) if q else None
    if k == "BinaryOperator" and n.get("opcode") in ("*", "+", "-"):
        a, b = _c_int(inner[0]), _c_int(inner[1])
        if a is None or b is None:
            return None
        return {"*": a * b, "+": a + b, "-": a - b}[n["opcode"]]
    return None


def _node_tables(lib):
    """What the constructor leaves in the array members of the struct it returns, by an effect walk over cosmo_new with the helpers
    of the library folded in: the rule generator gauleg(a, b, n, X, W) fills X with the nodes and W with the weights of the n-point
    rule on [a, b]; memcpy / memmove of a whole array hands the contents on; a block guarded by a function-local static flag that
    the block itself sets (compute once, keep for the life of the process) leaves its static tables filled whenever control is
    past it; anything written under a condition, or that an unrecognised callee could reach, is unknown.
    Returns (list of {member: content} -- one per return of a non-null object --, reasons why contents are unknown)."""
    def resolve(name):
        if name in ("cosmo_new", "gauleg") or name in QUANT or name in csymx.MATH:
            return None
        return lib.get(name)

    fn = _inline_helpers(lib["cosmo_new"], resolve)
    body = cfront.body_of(fn)
    statics, declared, init0 = set(), set(), {}
    for x in cfront.walk(body):
        if x.get("kind") == "VarDecl" and x.get("name"):
            declared.add(x["name"])
            if x.get("storageClass") == "static":
                statics.add(x["name"])
                ini = [c for c in x.get("inner", []) or [] if isinstance(c, dict) and c.get("kind")]
                init0[x["name"]] = (not ini) or _c_int(ini[-1]) == 0
    ptr, content, why, snaps = {}, {}, [], []
    lw = _Lower(fn, None, {})

    def num(n):
        try:
            v = lw.expr(n)
        except (csymx.CUnsupported, KeyError, TypeError):
            return None
        return v if isinstance(v, sp.Basic) and v.is_number else None

    def key(n):
        n = cfront.strip(n)
        k = n.get("kind")
        if k == "MemberExpr" and n.get("inner"):
            b = cfront.strip(n["inner"][0])
            if b.get("kind") == "DeclRefExpr":
                v = b["referencedDecl"]["name"]
                return "%s.%s" % (ptr.get(v, v) if n.get("isArrow") else v, n.get("name"))
            return None
        if k == "DeclRefExpr":
            v = n["referencedDecl"]["name"]
            return ptr.get(v, v)
        if k == "UnaryOperator" and n.get("opcode") == "&":
            t = cfront.strip(n["inner"][0])
            if t.get("kind") == "ArraySubscriptExpr" and _c_int(t["inner"][1]) == 0:
                return key(t["inner"][0])
        return None

    def arr_bytes(n):
        n = cfront.strip(n)
        return _type_bytes((n.get("type") or {}).get("qualType")) if n.get("kind") in ("MemberExpr", "DeclRefExpr") and "[" in (n.get("type") or {}).get("qualType", "") else None

    def base_of(k_):
        return k_.split(".")[0]

    def put(k_, v, conditional, once):
        if k_ is None:
            why.append("a write to something that is not a named array")
            return
        if conditional or (once and base_of(k_) not in statics):
            v = _UNKNOWN_CONTENT
            why.append("%s is written under a condition" % k_)
        content[k_] = v

    def get(k_):
        if k_ is None:
            return _UNKNOWN_CONTENT
        if k_ in content:
            return content[k_]
        # nothing in the function wrote it: definite for storage the function itself declares, unknown for anything else
        return _UNSET if base_of(k_) in declared and not base_of(k_).startswith("<") else _UNKNOWN_CONTENT

    def flag_writes(f):
        out = []
        for x in cfront.walk(body):
            k = x.get("kind")
            if k == "CompoundAssignOperator" or (k == "BinaryOperator" and x.get("opcode") == "=") or (k == "UnaryOperator" and x.get("opcode") in ("++", "--", "&")):
                t = cfront.strip(x["inner"][0])
                if t.get("kind") == "DeclRefExpr" and t["referencedDecl"]["name"] == f:
                    out.append(x)
        return out

    def once_flag(st):
        """the flag of `if (!flag) { ...; flag = <non-zero>; }` with flag a zero-initialised static written nowhere else"""
        inner = [x for x in st.get("inner", []) or [] if isinstance(x, dict) and x.get("kind")]
        if len(inner) != 2:
            return None
        c = cfront.strip(inner[0])
        f = None
        if c.get("kind") == "UnaryOperator" and c.get("opcode") == "!":
            t = cfront.strip(c["inner"][0])
            f = t["referencedDecl"]["name"] if t.get("kind") == "DeclRefExpr" else None
        elif c.get("kind") == "BinaryOperator" and c.get("opcode") == "==":
            for a, b in ((c["inner"][0], c["inner"][1]), (c["inner"][1], c["inner"][0])):
                t = cfront.strip(a)
                if t.get("kind") == "DeclRefExpr" and _c_int(b) == 0:
                    f = t["referencedDecl"]["name"]
        if f is None or f not in statics or not init0.get(f):
            return None
        top = _branch_stmts(inner[1])
        sets = [x for x in top if x.get("kind") == "BinaryOperator" and x.get("opcode") == "=" and cfront.strip(x["inner"][0]).get("kind") == "DeclRefExpr"
                and cfront.strip(x["inner"][0])["referencedDecl"]["name"] == f and (_c_int(x["inner"][1]) or 0) != 0]
        ws = flag_writes(f)
        if not sets or len(ws) != len(sets) or any(w not in sets for w in ws):
            return None
        if any(x.get("kind") in ("ReturnStmt", "GotoStmt", "BreakStmt", "ContinueStmt") for t_ in top for x in cfront.walk(t_)):
            return None
        return f

    SAFE = ("calloc", "malloc", "free", "gauleg", "memcpy", "memmove", "__builtin_memcpy", "__builtin_memmove", "__builtin___memcpy_chk", "__builtin___memmove_chk")

    def other_calls(st, skip=None):
        for x in cfront.walk(st):
            if x.get("kind") != "CallExpr" or x is skip:
                continue
            nm = cfront.callee_name(x)
            if nm in SAFE or nm in csymx.MATH:
                continue
            for a in x["inner"][1:]:
                if (cfront.strip(a).get("type") or {}).get("qualType", "").rstrip().endswith("*") or any(
                        (y.get("type") or {}).get("qualType", "").rstrip().endswith(("*", "]")) for y in cfront.walk(a) if y.get("kind") in ("DeclRefExpr", "MemberExpr")):
                    why.append("the callee %s receives a pointer (line %s)" % (nm or cfront.render(x["inner"][0]), x.get("line")))
                    for k_ in list(content):
                        content[k_] = _UNKNOWN_CONTENT
                    content["<all>"] = _UNKNOWN_CONTENT
                    break

    def assign_ptr(v, rhs):
        r = cfront.strip(rhs)
        if r.get("kind") == "UnaryOperator" and r.get("opcode") == "&" and cfront.strip(r["inner"][0]).get("kind") == "DeclRefExpr":
            ptr[v] = cfront.strip(r["inner"][0])["referencedDecl"]["name"]
        elif r.get("kind") == "DeclRefExpr":
            u = r["referencedDecl"]["name"]
            ptr[v] = ptr.get(u, u)
        elif r.get("kind") == "CallExpr" and cfront.callee_name(r) in ("calloc", "malloc"):
            ptr.pop(v, None)
            declared.add(v)
            if cfront.callee_name(r) == "malloc":
                ptr[v] = "<malloc %s>" % v
        else:
            ptr[v] = "<unknown %s>" % v

    def walk(stmts, conditional, once):
        for st in stmts:
            k = st.get("kind")
            inner = [x for x in st.get("inner", []) or [] if isinstance(x, dict)]
            if k == "DeclStmt":
                for v in inner:
                    ini = [c for c in v.get("inner", []) or [] if isinstance(c, dict) and c.get("kind")]
                    if v.get("kind") == "VarDecl" and ini:
                        other_calls(ini[-1])
                        if (v.get("type") or {}).get("qualType", "").rstrip().endswith("*"):
                            assign_ptr(v["name"], ini[-1])
                continue
            if k == "BinaryOperator" and st.get("opcode") == "=":
                lhs = cfront.strip(inner[0])
                other_calls(inner[1])
                if lhs.get("kind") == "DeclRefExpr" and (lhs.get("type") or {}).get("qualType", "").rstrip().endswith("*"):
                    if conditional:
                        ptr[lhs["referencedDecl"]["name"]] = "<unknown %s>" % lhs["referencedDecl"]["name"]
                    else:
                        assign_ptr(lhs["referencedDecl"]["name"], inner[1])
                elif lhs.get("kind") == "ArraySubscriptExpr":
                    put(key(lhs["inner"][0]), _UNKNOWN_CONTENT, conditional, once)
                elif lhs.get("kind") == "UnaryOperator" and lhs.get("opcode") == "*":
                    put(key(lhs["inner"][0]), _UNKNOWN_CONTENT, conditional, once)
                continue
            if k == "CallExpr" and cfront.callee_name(st) == "gauleg" and len(inner) == 6:
                a, b, n = num(inner[1]), num(inner[2]), num(inner[3])
                for which, tgt in ((0, inner[4]), (1, inner[5])):
                    put(key(tgt), ("gauleg", a, b, n, which) if None not in (a, b, n) else _UNKNOWN_CONTENT, conditional, once)
                continue
            if k == "CallExpr" and cfront.callee_name(st) in SAFE[4:] and len(inner) >= 4:
                d, s_, nbytes = key(inner[1]), key(inner[2]), _c_int(inner[3])
                db, sb = arr_bytes(inner[1]), arr_bytes(inner[2])
                if d is not None and nbytes is not None and db is not None and db == sb == nbytes:
                    put(d, get(s_), conditional, once)
                else:
                    why.append("%s at line %s does not copy one whole array onto another of the same size" % (cfront.callee_name(st), st.get("line")))
                    put(d, _UNKNOWN_CONTENT, conditional, once)
                continue
            if k == "IfStmt":
                kids = [x for x in inner if x.get("kind")]
                other_calls(kids[0])
                if once_flag(st) is not None:
                    walk(_branch_stmts(kids[1]), conditional, True)
                else:
                    for arm in kids[1:]:
                        walk(_branch_stmts(arm), True, once)
                continue
            if k in ("ForStmt", "WhileStmt", "DoStmt"):
                kids = [x for x in inner if x.get("kind")]
                for part in kids:
                    if part.get("kind") == "CompoundStmt" or part is kids[-1 if k != "DoStmt" else 0]:
                        walk(_branch_stmts(part), True, once)
                    else:
                        other_calls(part)
                continue
            if k == "CompoundStmt":
                walk(inner, conditional, once)
                continue
            if k == "ReturnStmt":
                v = cfront.strip(inner[0]) if inner else None
                if v is not None and v.get("kind") == "DeclRefExpr":
                    o = ptr.get(v["referencedDecl"]["name"], v["referencedDecl"]["name"])
                    snaps.append({m: (get("%s.%s" % (o, m)) if "<all>" not in content else _UNKNOWN_CONTENT) for m in ("x", "w", "vx", "vw")})
                elif v is not None and not (v.get("kind") == "IntegerLiteral" and v.get("value") == "0") and cfront.render(v) not in ("NULL", "0", "(void *)0"):
                    snaps.append({m: _UNKNOWN_CONTENT for m in ("x", "w", "vx", "vw")})
                    why.append("cosmo_new returns %s" % cfront.render(v))
                continue
            other_calls(st)

    walk(body.get("inner", []) or [], False, False)
    return snaps, why


def _const_in_header(hdr, name, decls=None):
    """the value a header gives the named constant: `#define NAME v`, `[static] const T NAME = v;` or an enumerator; None when the
    header does not define it in one of these forms"""
    m = re.search(r"^[ \t]*#[ \t]*define[ \t]+%s[ \t]+\(?([-+0-9.eE]+)[uUlLfF]*\)?[ \t]*(?:/[/*].*)?$" % re.escape(name), hdr, re.M) or \
        re.search(r"\bconst\s+(?:unsigned\s+|long\s+)*(?:int|long|double|float|size_t)\s+%s\s*=\s*([-+0-9.eE]+)[uUlLfF]*\s*;" % re.escape(name), hdr)
    if m:
        try:
            return float(m.group(1))
        except ValueError:
            return None
    if name in _ENUMS:
        return float(_ENUMS[name])
    return None


def quadrature(chk, lib, decls=()):
    W = "esutil/cosmology/cosmolib.c"
    H = "esutil/cosmology/cosmolib.h"
    # the node / weight members of the struct every distance function integrates with hold the 5- and the 10-point rule on [-1, 1]:
    # decided on what the constructor leaves in them (see _node_tables), not on how the call that fills them is spelled
    try:
        snaps, why = _node_tables(lib)
    except (csymx.CUnsupported, AnalysisError, KeyError, IndexError, TypeError) as e:
        snaps, why = [], ["cosmo_new is outside the subset the effect walk follows (%s)" % e]
    want = {"x": ("gauleg", -1, 1, 5, 0), "w": ("gauleg", -1, 1, 5, 1), "vx": ("gauleg", -1, 1, 10, 0), "vw": ("gauleg", -1, 1, 10, 1)}

    def verdict(got, ref):
        if got == _UNKNOWN_CONTENT:
            return None
        if got == _UNSET or got[0] != "gauleg":
            return False
        return bool(all(sp.sympify(a) == sp.sympify(b) for a, b in zip(got[1:], ref[1:])))

    ok = _all3([verdict(sn[m], want[m]) for sn in snaps for m in want]) if snaps else None
    chk.ob("R11.2", "cosmo_new::rules-on-unit-interval", ok, W,
           "x, w hold the nodes and weights of gauleg(-1, 1, 5) and vx, vw those of gauleg(-1, 1, 10) in every object cosmo_new returns (found %s%s)" % (
               snaps, "; " + "; ".join(dict.fromkeys(why)) if why else ""))
    # who may write the node/weight arrays
    writers = set()
    for name, fn in lib.items():
        for x in cfront.walk(cfront.body_of(fn)):
            if x.get("kind") in ("BinaryOperator", "CompoundAssignOperator") and (x.get("opcode") == "=" or x.get("kind") == "CompoundAssignOperator"):
                l = cfront.render(x["inner"][0])
                if l.startswith(("c->x[", "c->w[", "c->vx[", "c->vw[")):
                    writers.add(name)
    chk.ob("R11.2", "node-weight-arrays::no-other-writer", not writers, W, "no function other than the rule generator stores into the node/weight arrays (%s)" % sorted(writers))
    # the documented orders: the lengths of the node / weight members of struct cosmo and the constants that name them
    lens = {}
    for d in decls:
        for r in cfront.walk(d):
            if r.get("kind") == "RecordDecl" and r.get("name") == "cosmo" and r.get("inner"):
                for f in r["inner"]:
                    if f.get("kind") == "FieldDecl" and f.get("name") in ("x", "w", "vx", "vw"):
                        m = re.match(r"^\s*double\s*\[(\d+)\]\s*$", (f.get("type") or {}).get("qualType", ""))
                        lens[f["name"]] = int(m.group(1)) if m else None
    try:
        hdr = open(os.path.join(__import__("vcheck.core", fromlist=["REPO"]).REPO, H)).read()
    except OSError:
        hdr = ""
    consts = {n: _const_in_header(hdr, n) for n in ("NPTS", "VNPTS")}
    wantl = {"x": 5, "w": 5, "vx": 10, "vw": 10}
    vals = [None if lens.get(m) is None else lens[m] == n for m, n in wantl.items()]
    vals += [c == n for c, n in ((consts["NPTS"], 5), (consts["VNPTS"], 10)) if c is not None]
    chk.ob("R11.2", "constants::documented-orders", _all3(vals), H,
           "the node/weight members of struct cosmo have 5 (x, w) and 10 (vx, vw) elements and NPTS = 5, VNPTS = 10 where the header names them (members %s, constants %s)" % (lens, consts))


# --------------------------------------------------------------------------
# wrappers: helpers of the wrapper translation unit are inlined into the wrapper (on the clang tree), then the whole wrapper is
# lowered, so that the rules see the same terms whether the 26 bodies are written out or share generic helpers
# --------------------------------------------------------------------------
_EXTERNAL_PREFIX = ("Py", "_Py", "npy_", "NPY_", "__builtin")
_tu_fn_cache = {}


def _tu_function(name, tu="cosmolib_pywrap"):
    """a function of the wrapper translation unit that the name-filtered dump of the unit does not contain (a helper whose name
    lacks the PyCosmo prefix): dumped on demand with its own name filter.  None when the unit does not define it."""
    if name in _tu_fn_cache:
        return _tu_fn_cache[name]
    key = "%s@%s" % (tu, name)
    cfront.TUS.setdefault(key, dict(cfront.TUS[tu], filt=name))
    try:
        fn = cfront.functions(cfront.load_tu(key, _raw=True)).get(name)
    except AnalysisError:
        fn = None
    _tu_fn_cache[name] = fn
    return fn


class _NoInline(Exception):
    pass


def _compound(stmts):
    return {"kind": "CompoundStmt", "inner": list(stmts)}


def _branch_stmts(n):
    if n is None:
        return []
    return list(n.get("inner", []) or []) if n.get("kind") == "CompoundStmt" else [n]


def _inline_helpers(fn, resolve, rounds=3):
    """copy of a function declaration in which calls to helpers of the same translation unit that stand in statement position
    (`return h(..);`  `x = h(..);`  `T x = h(..);`  `h(..);`) are replaced by the helper's body: parameters are copied in as
    fresh locals, the helper's locals get a unique prefix, `return e` of the helper becomes the assignment (or stays a return for
    a tail call) with the statements after an early return moved into the other arm"""
    import copy
    import itertools
    counter = itertools.count(1)
    fn = copy.deepcopy(fn)

    def helper_of(call):
        call = cfront.strip(call)
        if call.get("kind") != "CallExpr":
            return None, None
        callee = cfront.strip(call["inner"][0])
        rd = callee.get("referencedDecl") or {}
        if callee.get("kind") != "DeclRefExpr" or rd.get("kind") != "FunctionDecl":
            return None, None
        decl = resolve(rd.get("name", ""))
        return (decl, call) if decl is not None else (None, None)

    def assign(target, value):
        return {"kind": "BinaryOperator", "opcode": "=", "inner": [copy.deepcopy(target), value]}

    def conv(stmts, target):
        out = []
        for idx, st in enumerate(stmts):
            k = st.get("kind")
            if k == "ReturnStmt":
                v = (st.get("inner") or [None])[0]
                if v is not None:
                    out.append(assign(target, v) if target is not None else v)
                return out, True
            if k == "IfStmt":
                inner = st["inner"]
                has_else = len(inner) > 2 and st.get("hasElse", True)
                a, ta = conv(_branch_stmts(inner[1]), target)
                b, tb = conv(_branch_stmts(inner[2]) if has_else else [], target)
                tr = False
                if ta or tb:
                    rest, tr = conv(stmts[idx + 1:], target)
                    if not ta:
                        a = a + rest
                    if not tb:
                        b = b + rest
                out.append({"kind": "IfStmt", "line": st.get("line"), "hasElse": bool(b), "inner": [inner[0], _compound(a)] + ([_compound(b)] if b else [])})
                if ta or tb:
                    return out, (ta or tr) and (tb or tr)
                continue
            if any(x.get("kind") == "ReturnStmt" for x in cfront.walk(st)):
                raise _NoInline("return inside %s of a helper" % k)
            out.append(st)
        return out, False

    def expand(decl, call, mode, target):
        body = copy.deepcopy(cfront.body_of(decl))
        parms = [c for c in decl.get("inner", []) if c.get("kind") == "ParmVarDecl"]
        args = call["inner"][1:]
        if len(parms) != len(args) or any(not p.get("name") for p in parms):
            raise _NoInline("argument count")
        prefix = "h%d$" % next(counter)
        local = {p["name"] for p in parms} | {x["name"] for x in cfront.walk(body) if x.get("kind") == "VarDecl" and x.get("name")}
        for x in cfront.walk(body):
            if x.get("kind") == "VarDecl" and x.get("name") in local:
                x["name"] = prefix + x["name"]
            elif x.get("kind") == "DeclRefExpr":
                rd = x.get("referencedDecl") or {}
                if rd.get("kind") in ("VarDecl", "ParmVarDecl") and rd.get("name") in local:
                    rd["name"] = prefix + rd["name"]
        copy_in = [{"kind": "DeclStmt", "line": call.get("line"), "inner": [
            {"kind": "VarDecl", "name": prefix + p_["name"], "type": p_.get("type", {}), "inner": [copy.deepcopy(a)]}]} for p_, a in zip(parms, args)]
        stmts = body.get("inner", []) or []
        if mode != "return":
            stmts, _ = conv(stmts, target)
        return copy_in + stmts

    def ref(name):
        return {"kind": "DeclRefExpr", "type": {"qualType": "int"}, "referencedDecl": {"kind": "VarDecl", "name": name, "type": {"qualType": "int"}}}

    def declare(name, init=None):
        return {"kind": "DeclStmt", "inner": [{"kind": "VarDecl", "name": name, "type": {"qualType": "int"}, "inner": [init] if init is not None else []}]}

    def hoist(e):
        """(statements to run first, the condition with each helper call replaced by the local that holds its result)"""
        n = e
        while isinstance(n, dict) and n.get("kind") in ("ImplicitCastExpr", "ParenExpr") and n.get("inner"):
            n = n["inner"][0]
        k = n.get("kind")
        if k == "CallExpr":
            decl, call = helper_of(n)
            if decl is None:
                return [], e
            t = "c%d$" % next(counter)
            return [declare(t)] + expand(decl, call, "assign", ref(t)), ref(t)
        if k == "UnaryOperator" and n.get("opcode") == "!":
            pre, c2 = hoist(n["inner"][0])
            return (pre, dict(n, inner=[c2])) if pre else ([], e)
        if k == "BinaryOperator" and n.get("opcode") in ("==", "!=", "<", ">", "<=", ">="):
            pa, ca = hoist(n["inner"][0])
            pb, cb = hoist(n["inner"][1])
            return (pa + pb, dict(n, inner=[ca, cb])) if (pa or pb) else ([], e)
        if k == "BinaryOperator" and n.get("opcode") in ("&&", "||"):
            pa, ca = hoist(n["inner"][0])
            pb, cb = hoist(n["inner"][1])
            if not pb:
                return (pa, dict(n, inner=[ca, cb])) if pa else ([], e)
            t = "c%d$" % next(counter)
            again = ref(t) if n["opcode"] == "&&" else {"kind": "UnaryOperator", "opcode": "!", "isPostfix": False, "inner": [ref(t)]}
            return pa + [declare(t, ca), {"kind": "IfStmt", "line": n.get("line"), "hasElse": False, "inner": [again, _compound(pb + [assign(ref(t), cb)])]}], ref(t)
        return [], e

    def rewrite(stmts):
        out = []
        changed = False
        for st in stmts:
            k = st.get("kind")
            inner = st.get("inner", []) or []
            rep = None
            try:
                if k == "ReturnStmt" and inner:
                    decl, call = helper_of(inner[0])
                    if decl is not None:
                        rep = expand(decl, call, "return", None)
                elif k == "BinaryOperator" and st.get("opcode") == "=":
                    decl, call = helper_of(inner[1])
                    if decl is not None:
                        rep = expand(decl, call, "assign", inner[0])
                elif k == "CallExpr":
                    decl, call = helper_of(st)
                    if decl is not None:
                        rep = expand(decl, call, "stmt", None)
                elif k == "DeclStmt" and len(inner) == 1 and inner[0].get("kind") == "VarDecl":
                    init = [c for c in inner[0].get("inner", []) if isinstance(c, dict) and c.get("kind")]
                    decl, call = helper_of(init[-1]) if init else (None, None)
                    if decl is not None:
                        bare = dict(inner[0])
                        bare["inner"] = []
                        ref = {"kind": "DeclRefExpr", "referencedDecl": {"kind": "VarDecl", "name": inner[0]["name"]}}
                        rep = [{"kind": "DeclStmt", "inner": [bare]}] + expand(decl, call, "assign", ref)
            except _NoInline:
                rep = None
            if rep is not None:
                out.extend(rep)
                changed = True
                continue
            if k == "IfStmt" and inner:
                # `if (h(..) != 0) ...`, `if (!h(..) || g(..)) ...`: the helper calls of the condition are evaluated into fresh
                # locals by statements placed before the if (in evaluation order, the right operand of && / || only when the
                # left one does not decide), so that they are in statement position and are folded in like any other
                try:
                    pre, cond2 = hoist(inner[0])
                except _NoInline:
                    pre = []
                if pre:
                    out.extend(pre)
                    st = dict(st)
                    st["inner"] = [cond2] + list(inner[1:])
                    inner = st["inner"]
                    changed = True
            if k == "IfStmt":
                st = dict(st)
                ni = [inner[0]]
                for b in inner[1:]:
                    bs, ch = rewrite(_branch_stmts(b))
                    changed = changed or ch
                    ni.append(_compound(bs))
                st["inner"] = ni
            elif k in ("ForStmt", "WhileStmt", "DoStmt") and inner:
                pos = 0 if k == "DoStmt" else len(inner) - 1
                bs, ch = rewrite(_branch_stmts(inner[pos]))
                if ch:
                    changed = True
                    st = dict(st)
                    st["inner"] = inner[:pos] + [_compound(bs)] + inner[pos + 1:]
            elif k == "CompoundStmt":
                bs, ch = rewrite(inner)
                changed = changed or ch
                st = _compound(bs)
            out.append(st)
        return out, changed

    for _ in range(rounds):
        body = cfront.body_of(fn)
        stmts, changed = rewrite(body.get("inner", []) or [])
        if not changed:
            break
        fn["inner"] = [c for c in fn["inner"] if c.get("kind") != "CompoundStmt"] + [_compound(stmts)]
    return fn


def _pieces(t):
    """the values a (possibly nested) Piecewise term can take"""
    if isinstance(t, sp.Piecewise):
        out = []
        for v, _ in t.args:
            out += _pieces(v)
        return out
    return [t]


def _fname(t):
    return t.func.__name__ if isinstance(t, sp.core.function.AppliedUndef) else None


def _new_array(t):
    """(number of dimensions, dimensions argument, element type argument) of a call that allocates a new array owning its data, whichever allocator of
    the numpy C API it is spelled with (zero-filled or uninitialised, type number or descriptor); None when t is not such a call
    (not an allocator, or one that is handed existing memory / explicit strides)"""
    name = _fname(t)
    a = getattr(t, "args", ())
    if name in ("PyArray_Zeros", "PyArray_ZEROS", "PyArray_Empty", "PyArray_EMPTY") and len(a) == 4:
        return a[0], a[1], a[2]
    if name in ("PyArray_SimpleNew", "PyArray_SimpleNewFromDescr") and len(a) == 3:
        return a[0], a[1], a[2]
    if name == "PyArray_New" and len(a) == 9 and a[4] == 0 and a[5] == 0:
        # (subtype, nd, dims, type_num, strides=NULL, data=NULL, itemsize, flags, obj)
        return a[1], a[2], a[3]
    if name == "PyArray_NewFromDescr" and len(a) == 8 and a[4] == 0 and a[5] == 0:
        # (subtype, descr, nd, dims, strides=NULL, data=NULL, flags, obj)
        return a[2], a[3], a[1]
    return None


def wrappers(chk, lib, wrap, decls):
    W = "esutil/cosmology/cosmolib_pywrap.c"
    # method table
    mt = [x for x in decls if x.get("name") == "PyCosmoObject_methods"]
    if not mt:
        raise AnalysisError("PyCosmoObject_methods table not found")
    il = [y for y in cfront.walk(mt[0]) if y.get("kind") == "InitListExpr"][0]
    table = {}
    for e in il["inner"]:
        if e.get("kind") == "InitListExpr":
            parts = e.get("inner", [])
            nm = cfront.render(parts[0]).strip('"')
            fn = cfront.render(parts[1]) if len(parts) > 1 else None
            if nm and fn and fn not in ("NULL", "0") and nm not in ("NULL", "0") and not nm.startswith("<"):
                table[nm] = fn
    expected = ["DH", "flat", "omega_m", "omega_l", "omega_k", "ez_inverse", "ez_inverse_vec", "ez_inverse_integral", "dV", "dV_vec", "V"]
    for q in TWO:
        expected += [q, q + "_vec1", q + "_vec2", q + "_2vec"]
    miss = [m for m in expected if table.get(m) != "PyCosmoObject_" + m]
    chk.ob("R11.3", "method-table::complete-and-consistent", not miss and len(table) == len(expected), W, "all %d methods map to their own wrapper (missing/mismatched: %s; extra: %s)" % (len(expected), miss, sorted(set(table) - set(expected))))
    c = S("self.cosmo")

    def resolve(name):
        if not name or name in lib or name in csymx.MATH or name.startswith(_EXTERNAL_PREFIX):
            return None
        return wrap.get(name) or _tu_function(name)

    def check(wname, q, argspec):
        fn = wrap.get("PyCosmoObject_" + wname)
        if fn is None:
            chk.ob("R11.3", wname + "::present", False, W, "wrapper missing")
            return
        chk.analysed_unit("PyCosmoObject_" + wname)
        fn = _inline_helpers(fn, resolve)
        fmt, names = parse_tuple_binding(fn)
        want_fmt = ["O" if v else "d" for _, v in argspec]
        spec_txt = ", ".join("%s:%s" % (n, "array" if v else "scalar") for n, v in argspec)
        if fmt is None:
            chk.ob("R11.3", wname + "::parse-format", None, W, "no PyArg_ParseTuple call found in the wrapper or the helpers it delegates to (%s)" % spec_txt)
        else:
            chk.ob("R11.3", wname + "::parse-format", parse_tuple_format(fmt) == want_fmt and len(names) == len(argspec), W, "format %r matches (%s)" % (fmt, spec_txt))
        vec = any(v for _, v in argspec)
        # the k-th parsed variable is the k-th argument; an array argument is read through its data pointer at the loop index
        args = []
        for k, (n, v) in enumerate(argspec):
            pn = names[k] if k < len(names) else n
            args.append(sp.Function("PyArray_DATA(%s)" % pn)(IDX) if v else S(pn))
        ref_call = sp.Function(q)(c, *args)
        try:
            body, _ = lowered(lib, q, dict([(cfront.params_of(lib[q])[0], c)] + list(zip(cfront.params_of(lib[q])[1:], args))))
        except csymx.CUnsupported:
            body = None
        key_c = wname + "::computes-%s-of-its-arguments" % q
        params = cfront.params_of(fn)
        L = _Lower(fn, {params[0]: S("self")} if params else None, {}, keep=())
        L.fork = True
        try:
            rets = L.run(cfront.body_of(fn).get("inner", []) or [])
        except csymx.CUnsupported as e:
            chk.ob("R11.3", key_c, None, W, "the wrapper body is outside the C subset that is lowered to terms (%s)" % e)
            return
        live = [v for _, v in rets if v is not None for v in _pieces(v) if v != 0]

        def same(got):
            return got is not None and bool(_eq(got, ref_call) or (body is not None and _eq(got, body)))

        if not vec:
            vals = [v.args[0] for v in live if _fname(v) == "PyFloat_FromDouble" and len(v.args) == 1]
            if not live or len(vals) != len(live):
                chk.ob("R11.3", key_c, None, W, "the wrapper does not return PyFloat_FromDouble(value) on every path (returns %s)" % live)
            else:
                chk.ob("R11.3", key_c, all(same(v) for v in vals), W, "returns %s as a Python float (found %s)" % (ref_call, vals))
            return
        st = []
        for s_ in L.stores:
            # the same store reached along several paths is one store
            if not any(all(s_[f] == o[f] for f in ("base", "index", "value", "loop", "guard")) for o in st):
                st.append(s_)
        places = {(s_["base"], s_["index"], s_["loop"]) for s_ in st}
        if len(places) != 1 or st[0]["loop"] is None or L.partial_loops:
            for suffix in ("::computes-%s-of-its-arguments" % q, "::output-sized-from-array-argument", "::loop-over-all-elements", "::returns-new-array"):
                chk.ob("R11.3", wname + suffix, None, W, "expected exactly one loop storing every element of one output array, found stores %s%s" % (
                    [(s_["base"], s_["index"]) for s_ in st], "; some way through the loop body (line %s) stores nothing" % L.partial_loops if L.partial_loops else ""))
            return
        s0 = st[0]
        lo, hi = s0["loop"]
        if len(st) == 1 and s0["guard"] == sp.true:
            okv = bool(s0["index"] == IDX) and same(s0["value"])
            unres = _unresolved_reads(s0["value"], fn)
            if not okv and unres:
                # the stored value reads an element through a local pointer the lowering has no value for (set through a channel it does
                # not follow): nothing identified contradicts the rule
                okv = None
            chk.ob("R11.3", key_c, okv, W, "stores %s (found [%s] = %s%s)" % (ref_call, s0["index"], s0["value"], "; unresolved reads through %s" % unres if unres else ""))
        else:
            # the element is stored under tests of the loop body (every way through the body stores it: partial_loops).  Each store
            # is either the quantity of this element's arguments, or the element stored one iteration earlier -- which is that
            # quantity (induction over the index) exactly when the test it is reached under makes every argument that varies with
            # the index equal to its predecessor, and excludes the first iteration
            verdicts, notes = [], []
            varying = [a for a in args if IDX in getattr(a, "free_symbols", ())]
            for s_ in st:
                if s_["index"] != IDX:
                    verdicts.append(None)
                    notes.append("a store to element %s" % s_["index"])
                    continue
                if same(s_["value"]):
                    verdicts.append(True)
                    continue
                prev = sp.Function(str(s_["base"]))(IDX - 1)
                if s_["value"] != prev:
                    # some other value under a test: whether it is the quantity where the test holds is not decided here
                    verdicts.append(None)
                    notes.append("where %s the element is %s" % (s_["guard"], s_["value"]))
                    continue
                g = s_["guard"]
                conj = list(g.args) if isinstance(g, sp.And) else [g]
                if any(isinstance(c_, (sp.Or, sp.Not)) and c_.has(sp.core.function.AppliedUndef) for c_ in conj):
                    verdicts.append(None)
                    notes.append("element i-1 is reused under the test %s, which is not a conjunction" % g)
                    continue
                first_out = False
                for c_ in conj:
                    try:
                        if c_.free_symbols == {IDX} and c_.subs(IDX, lo) == sp.false:
                            first_out = True
                    except Exception:
                        pass
                equal = {frozenset((c_.lhs, c_.rhs)) for c_ in conj if isinstance(c_, sp.Eq)}
                loose = [a for a in varying if frozenset((a, a.subs(IDX, IDX - 1))) not in equal]
                if loose:
                    verdicts.append(False)
                    notes.append("element i is copied from element i-1 where %s, a test that does not make %s equal to %s: the reused value is %s of other arguments" % (
                        g, ", ".join(str(a) for a in loose), ", ".join(str(a.subs(IDX, IDX - 1)) for a in loose), q))
                elif not first_out:
                    verdicts.append(False)
                    notes.append("element i is copied from element i-1 where %s, which does not exclude the first element (i = %s)" % (g, lo))
                else:
                    verdicts.append(True)
            chk.ob("R11.3", key_c, _all3(verdicts), W, "every element stored is %s, directly or as the previous element where the test makes the arguments equal to the previous ones (%s)" % (
                ref_call, "; ".join(notes) if notes else "stores %s" % [(str(s_["guard"]), str(s_["value"])) for s_ in st]))
        arr = [names[k] for k, (n, v) in enumerate(argspec) if v and k < len(names)]

        def is_size(t):
            return bool(arr) and isinstance(t, sp.core.function.AppliedUndef) and (
                any(a == sp.Function("PyArray_DIMS")(S(arr[0])) for a in t.args) or (_fname(t) in ("PyArray_SIZE", "PyArray_Size") and t.args[:1] == (S(arr[0]),)))

        alloc = s0["base"].args[0] if _fname(s0["base"]) == "PyArray_DATA" and len(s0["base"].args) == 1 else None
        shape = _new_array(alloc)
        is_alloc = shape is not None
        a_nd, a_dims, a_type = shape if is_alloc else (None, None, None)
        asize = a_dims.args[1] if is_alloc and _fname(a_dims) == "addr" else None
        unset_locals = {x["name"] for x in cfront.walk(cfront.body_of(fn)) if x.get("kind") == "VarDecl" and x.get("name")} - set(names)

        def unknown_in(t):
            """local variables the term still names: read before any assignment the lowering has seen (set through an out-parameter
            of a callee it did not follow, say) -- their value is not known, so nothing about the term contradicts a rule"""
            return sorted(str(x) for x in getattr(t, "free_symbols", ()) if str(x) in unset_locals)

        if not is_alloc:
            chk.ob("R11.3", wname + "::output-sized-from-array-argument", None, W, "the output array allocation was not recognised (stores go to %s)" % s0["base"])
        else:
            oks = bool(a_nd == 1 and asize is not None and is_size(asize))
            if not oks and asize is not None and unknown_in(asize):
                oks = None
            chk.ob("R11.3", wname + "::output-sized-from-array-argument", oks, W,
                   "the 1-d output is allocated with the size of %s (allocation %s)" % (arr[:1], alloc))
        okl = bool(lo == 0 and is_size(hi + 1) and (asize is None or asize == hi + 1) and s0["index"] == IDX)
        if not okl and lo == 0 and s0["index"] == IDX and unknown_in(hi):
            okl = None
        chk.ob("R11.3", wname + "::loop-over-all-elements", okl, W,
               "for i in [0, size of %s) (found [%s, %s), index %s)" % (arr[:1], lo, hi + 1, s0["index"]))
        if alloc is not None and alloc in [S(nm) for nm in names]:
            # the elements are stored through the data pointer of one of the wrapper's own arguments
            chk.ob("R11.3", wname + "::returns-new-array", False, W, "the results are stored into a newly allocated array (stores go to the data of the argument %s)" % alloc)
        elif alloc is None or not is_alloc or not live:
            chk.ob("R11.3", wname + "::returns-new-array", None, W, "the returned object / its allocation was not recognised (returns %s)" % live)
        else:
            f64 = a_type in (S("NPY_DOUBLE"), S("NPY_FLOAT64"), sp.Function("PyArray_DescrFromType")(S("NPY_DOUBLE")), sp.Function("PyArray_DescrFromType")(S("NPY_FLOAT64")))
            chk.ob("R11.3", wname + "::returns-new-array", bool(all(v == alloc for v in live) and f64), W, "the newly allocated float64 array whose elements were stored is returned (returns %s)" % live)

    for q, (a1, a2) in TWO.items():
        check(q, q, [(a1, False), (a2, False)])
        check(q + "_vec1", q, [(a1, True), (a2, False)])
        check(q + "_vec2", q, [(a1, False), (a2, True)])
        check(q + "_2vec", q, [(a1, True), (a2, True)])
    for q, a in ONE.items():
        check(q, q, [(a, False)])
        check(q + "_vec", q, [(a, True)])
    check("V", "V", [("zmin", False), ("zmax", False)])
    check("ez_inverse_integral", "ez_inverse_integral", [("zmin", False), ("zmax", False)])
    # accessors return the stored parameter
    for m in ("DH", "flat", "omega_m", "omega_l", "omega_k"):
        fn = wrap.get("PyCosmoObject_" + m)
        rets = [cfront.render(x) for x in cfront.walk(cfront.body_of(fn)) if x.get("kind") == "ReturnStmt"] if fn else []
        chk.ob("R11.3", m + "::accessor", any("self->cosmo->%s" % m in r for r in rets), W, "accessor %s() returns the stored value (%s)" % (m, rets))


# --------------------------------------------------------------------------
# Python side: a small path-enumerating abstract interpreter.  The dispatchers, their private helpers, the array conversion and
# the parameter normaliser are *executed* on abstract argument values (scalar / array with conversion attributes, None / zero /
# non-zero curvature ...), calls to private methods and module functions are followed, and the rules are stated on the outcome
# of each path (which entry point of the extension object got which arguments, what is returned or raised).
# --------------------------------------------------------------------------
class _Unsup(Exception):
    """a construct outside the interpreted subset: no verdict"""


class _Need(Exception):
    def __init__(self, key):
        self.key = key


class _Raised(Exception):
    def __init__(self, what, line=None):
        self.what = what
        self.line = line


class _Arg:
    """an argument of the public method: a scalar or an array-like, with what is known after conversions"""

    def __init__(self, name, scalar, f8=False, contig=False, nd1=False, like=None, lossy=None):
        self.name, self.scalar, self.f8, self.contig, self.nd1 = name, scalar, f8, contig, nd1
        # like: the argument is a scalar argument spread over a new array with one element per element of the array argument `like`
        # lossy: how its values were (for some admissible input) changed on the way: stored in an element type that is not
        # float64 (an integer type truncates, float32 rounds); a later conversion to float64 does not bring the value back
        self.like, self.lossy = like, lossy

    def derive(self, f8=None, contig=None, nd1=None, lossy=None):
        """the same argument after a conversion: facts replaced where given, what happened to its values is kept"""
        return _Arg(self.name, self.scalar, self.f8 if f8 is None else f8, self.contig if contig is None else contig,
                    self.nd1 if nd1 is None else nd1, like=self.like, lossy=self.lossy or lossy)

    def converted(self):
        return bool(self.f8 and self.contig and self.nd1 and not self.lossy)

    def untouched(self):
        return not (self.f8 or self.contig or self.nd1 or self.lossy or self.like)

    def length_of(self):
        """the argument whose length this value has"""
        return self.like or self.name

    def __repr__(self):
        return "%s<%s%s%s%s>" % (self.name, "scalar" if self.scalar else "array", "".join(t for t, on in ((",f8", self.f8), (",C", self.contig), (",1d", self.nd1)) if on),
                                 ",spread over the length of %s" % self.like if self.like else "", ",VALUES CHANGED: %s" % self.lossy if self.lossy else "")


class _Tag:
    def __init__(self, kind, **kw):
        self.kind = kind
        self.__dict__.update(kw)

    def __repr__(self):
        return "<%s %s>" % (self.kind, {k: v for k, v in self.__dict__.items() if k != "kind"})


_F8 = ("f8", "float64", "d", "double", "float", "=f8", "np.float64", "numpy.float64", "np.double", "np.float_", "np.float", "float")
_UNKNOWN = _Tag("unknown")


class _NT:
    """an instance of a named tuple class: an immutable record, field -> value"""

    def __init__(self, cls, fields, values):
        self.cls, self.fields, self.values = cls, tuple(fields), tuple(values)

    def get(self, name):
        return self.values[self.fields.index(name)]

    def __repr__(self):
        return "%s(%s)" % (self.cls, ", ".join("%s=%r" % fv for fv in zip(self.fields, self.values)))


def _namedtuple_fields(repo, mod, e):
    """the field names when the module-level expression e is collections.namedtuple(name, fields) with literal fields, else None"""
    if not (isinstance(e, ast.Call) and not e.keywords and len(e.args) == 2):
        return None
    dn = dotted_name(e.func)
    if not dn or repo.resolve_name(mod, dn) not in ("collections.namedtuple", "namedtuple"):
        return None
    f = e.args[1]
    if isinstance(f, ast.Constant) and isinstance(f.value, str):
        names = f.value.replace(",", " ").split()
    elif isinstance(f, (ast.List, ast.Tuple)) and all(isinstance(x, ast.Constant) and isinstance(x.value, str) for x in f.elts):
        names = [x.value for x in f.elts]
    else:
        return None
    return names if names and len(set(names)) == len(names) and all(n.isidentifier() and not n.startswith("_") for n in names) else None


def _namedtuple_class_fields(cdef):
    """the field names of `class X(NamedTuple): a: T; b: T` (no defaults, no methods that could shadow a field), else None"""
    if not any((dotted_name(b) or "").split(".")[-1] == "NamedTuple" for b in cdef.bases):
        return None
    names = []
    for st in cdef.body:
        if isinstance(st, ast.AnnAssign) and isinstance(st.target, ast.Name) and st.value is None:
            names.append(st.target.id)
        elif isinstance(st, ast.Expr) and isinstance(st.value, ast.Constant):
            continue
        else:
            return None
    return names or None


class _Interp:
    def __init__(self, repo, max_forks=12):
        self.repo = repo
        self.max_forks = max_forks

    # -- driver ------------------------------------------------------------
    def paths(self, fi, argvals):
        """all paths of fi(*argvals) (self excluded): list of dict(kind 'return'|'raise', value, calls, dec)"""
        out, todo = [], [{}]
        while todo:
            self.dec = todo.pop()
            self.calls = []
            self.opaque = []
            try:
                v = self.invoke(fi, list(argvals), {}, 0)
                out.append({"kind": "return", "value": v, "calls": self.calls, "dec": dict(self.dec), "opaque": self.opaque})
            except _Raised as r:
                out.append({"kind": "raise", "value": r.what, "at": r.line, "calls": self.calls, "dec": dict(self.dec), "opaque": self.opaque})
            except _Need as n:
                if len(self.dec) >= self.max_forks:
                    raise _Unsup("too many undecided tests")
                todo.append(dict(list(self.dec.items()) + [(n.key, True)]))
                todo.append(dict(list(self.dec.items()) + [(n.key, False)]))
        return out

    def invoke(self, fi, pos, kw, depth):
        if depth > 4:
            raise _Unsup("call nesting too deep")
        params = list(fi.params)
        if any(p_.startswith("*") for p_ in params):
            raise _Unsup("variadic callee %s" % fi.name)
        env = {}
        if fi.cls and params and params[0] == "self":
            env["self"] = _Tag("self", cls=fi.cls)
            params = params[1:]
        if len(pos) > len(params):
            raise _Unsup("too many arguments for %s" % fi.name)
        for p_, v in zip(params, pos):
            env[p_] = v
        for k, v in kw.items():
            if k not in params or k in env:
                raise _Unsup("keyword %s of %s" % (k, fi.name))
            env[k] = v
        for p_ in params:
            if p_ not in env:
                if p_ not in fi.defaults:
                    raise _Unsup("missing argument %s of %s" % (p_, fi.name))
                env[p_] = self.ev(fi.defaults[p_], {}, fi, depth)
        try:
            self.block(fi.node.body, env, fi, depth)
        except _Return as r:
            return r.value
        return None

    # -- statements --------------------------------------------------------
    def block(self, stmts, env, fi, depth):
        for st in stmts:
            if isinstance(st, ast.Expr):
                if not isinstance(st.value, ast.Constant):
                    self.ev(st.value, env, fi, depth)
            elif isinstance(st, ast.Pass):
                pass
            elif isinstance(st, ast.Assign):
                v = self.ev(st.value, env, fi, depth)
                for t in st.targets:
                    self.bind(t, v, env)
            elif isinstance(st, ast.AnnAssign) and st.value is not None:
                self.bind(st.target, self.ev(st.value, env, fi, depth), env)
            elif isinstance(st, ast.AugAssign) and isinstance(st.target, ast.Name):
                load = ast.copy_location(ast.Name(id=st.target.id, ctx=ast.Load()), st.target)
                self.bind(st.target, self.ev(ast.copy_location(ast.BinOp(left=load, op=st.op, right=st.value), st), env, fi, depth), env)
            elif isinstance(st, ast.If):
                self.block(st.body if self.truth(st.test, env, fi, depth) else st.orelse, env, fi, depth)
            elif isinstance(st, ast.Return):
                raise _Return(self.ev(st.value, env, fi, depth) if st.value is not None else None)
            elif isinstance(st, ast.Raise):
                raise _Raised(norm(st.exc) if st.exc is not None else "re-raise", getattr(st, "lineno", None))
            elif isinstance(st, ast.Assert):
                if not self.truth(st.test, env, fi, depth):
                    raise _Raised("AssertionError")
            else:
                raise _Unsup("statement %s at line %s" % (type(st).__name__, getattr(st, "lineno", "?")))

    def bind(self, t, v, env):
        if isinstance(t, ast.Name):
            env[t.id] = v
        elif isinstance(t, (ast.Tuple, ast.List)) and isinstance(v, tuple) and len(v) == len(t.elts):
            for tt, vv in zip(t.elts, v):
                self.bind(tt, vv, env)
        else:
            raise _Unsup("assignment target %s" % norm(t))

    # -- tests -------------------------------------------------------------
    def truth(self, e, env, fi, depth):
        if isinstance(e, ast.BoolOp):
            is_and = isinstance(e.op, ast.And)
            for v in e.values:
                t = self.truth(v, env, fi, depth)
                if t != is_and:
                    return t
            return is_and
        if isinstance(e, ast.UnaryOp) and isinstance(e.op, ast.Not):
            return not self.truth(e.operand, env, fi, depth)
        r = self.fact_test(e, env, fi, depth)
        if r is not None:
            return r
        v = self.ev(e, env, fi, depth)
        return self.as_bool(v, e, env)

    # -- tests that establish what a conversion would establish ----------------
    _CONTIG_FLAGS = ("c_contiguous", "contiguous", "carray", "C_CONTIGUOUS", "CONTIGUOUS", "C", "CARRAY", "CA")

    def _arg_var(self, e, env):
        if isinstance(e, ast.Name) and isinstance(env.get(e.id), _Arg):
            return e.id
        return None

    def _fact_of(self, e, env, fi, depth):
        """(variable, fact, polarity) when the test e is true (polarity True) / false (polarity False) exactly when the array-like
        bound to the variable has the fact: 'nd1' at least one dimension, 'f8' native float64 elements, 'contig' C-contiguous"""
        if isinstance(e, ast.Compare) and len(e.ops) == 1:
            op, a, b = e.ops[0], e.left, e.comparators[0]

            def ndim_of(x):
                if isinstance(x, ast.Attribute) and x.attr == "ndim":
                    return self._arg_var(x.value, env)
                if isinstance(x, ast.Call) and len(x.args) == 1 and not x.keywords and self._arg_var(x.args[0], env):
                    f = self.ev(x.func, env, fi, depth)
                    if isinstance(f, _Tag) and f.kind == "global" and f.name == "numpy.ndim":
                        return x.args[0].id
                return None

            def const(x):
                return x.value if isinstance(x, ast.Constant) and isinstance(x.value, int) and not isinstance(x.value, bool) else None

            for x, y, flip in ((a, b, False), (b, a, True)):
                v, c = ndim_of(x), const(y)
                if v is None or c is None:
                    continue
                t = type(op)
                if flip:
                    t = {ast.Lt: ast.Gt, ast.Gt: ast.Lt, ast.LtE: ast.GtE, ast.GtE: ast.LtE}.get(t, t)
                # the number of dimensions is a non-negative integer
                if (t, c) in ((ast.Gt, 0), (ast.GtE, 1), (ast.NotEq, 0)):
                    return v, "nd1", True
                if (t, c) in ((ast.Eq, 0), (ast.Lt, 1), (ast.LtE, 0)):
                    return v, "nd1", False
            if isinstance(op, (ast.Eq, ast.NotEq)):
                for x, y in ((a, b), (b, a)):
                    if isinstance(x, ast.Attribute) and x.attr == "dtype" and self._arg_var(x.value, env):
                        d = self.ev(y, env, fi, depth)
                        if isinstance(y, ast.Call) and isinstance(d, _Tag) and d.kind == "unknown" and len(y.args) == 1 and not y.keywords:
                            f = self.ev(y.func, env, fi, depth)
                            if isinstance(f, _Tag) and f.kind == "global" and f.name == "numpy.dtype":
                                d = self.ev(y.args[0], env, fi, depth)
                        # equal to the native float64 type object / type string: a byte-swapped or narrower type is not equal
                        if self.is_f8(d) and not (isinstance(d, str) and d in ("float", "np.float", "np.float_", "numpy.float64", "np.float64", "np.double")):
                            return x.value.id, "f8", isinstance(op, ast.Eq)
            return None
        if isinstance(e, ast.Attribute) and isinstance(e.value, ast.Attribute) and e.value.attr == "flags" and e.attr in self._CONTIG_FLAGS:
            v = self._arg_var(e.value.value, env)
            return (v, "contig", True) if v else None
        if isinstance(e, ast.Subscript) and isinstance(e.value, ast.Attribute) and e.value.attr == "flags" and isinstance(e.slice, ast.Constant) \
                and e.slice.value in self._CONTIG_FLAGS:
            v = self._arg_var(e.value.value, env)
            return (v, "contig", True) if v else None
        return None

    def fact_test(self, e, env, fi, depth):
        """True / False for a recognised test on an argument, None when e is not one.  On the paths on which the test establishes
        the fact, the variable is re-bound to the argument with that fact: a guarded fast path that skips a conversion then hands
        on what the conversion would have produced."""
        # is this a plain (base-class) array?  never true for a scalar; says nothing about layout
        if isinstance(e, ast.Call) and not e.keywords:
            f = self.ev(e.func, env, fi, depth) if not (isinstance(e.func, ast.Name) and e.func.id in env) else None
            nm = f.name if isinstance(f, _Tag) and f.kind == "global" else None
            if nm in ("isinstance", "builtins.isinstance") and len(e.args) == 2 and self._arg_var(e.args[0], env):
                cls = self.ev(e.args[1], env, fi, depth)
                if isinstance(cls, _Tag) and cls.kind == "global" and cls.name == "numpy.ndarray" and env[e.args[0].id].scalar:
                    return False
        if isinstance(e, ast.Compare) and len(e.ops) == 1 and isinstance(e.ops[0], (ast.Is, ast.IsNot, ast.Eq, ast.NotEq)):
            for x, y in ((e.left, e.comparators[0]), (e.comparators[0], e.left)):
                if isinstance(x, ast.Call) and isinstance(x.func, ast.Name) and x.func.id == "type" and "type" not in env and len(x.args) == 1 \
                        and not x.keywords and self._arg_var(x.args[0], env) and env[x.args[0].id].scalar:
                    cls = self.ev(y, env, fi, depth)
                    if isinstance(cls, _Tag) and cls.kind == "global" and cls.name == "numpy.ndarray":
                        return isinstance(e.ops[0], (ast.IsNot, ast.NotEq))
        fact = self._fact_of(e, env, fi, depth)
        if fact is None:
            return None
        var, what, pol = fact
        a = env[var]
        if a.scalar:
            # attributes of a Python scalar: not modelled
            return None
        if getattr(a, what):
            return pol
        key = "fact:%s:%s:%r" % (what, var, a)
        if key not in self.dec:
            raise _Need(key)
        if self.dec[key]:
            b = a.derive()
            setattr(b, what, True)
            env[var] = b
            return pol
        return not pol

    def as_bool(self, v, e, env=None):
        if isinstance(v, _Tag) and v.kind == "cond":
            if v.key not in self.dec:
                raise _Need(v.key)
            return self.dec[v.key] == v.pol
        if isinstance(v, _Tag) and v.kind == "len":
            # `if z.size:` / `if not len(z):`
            if "empty:" + v.of not in self.dec:
                raise _Need("empty:" + v.of)
            return not self.dec["empty:" + v.of]
        if isinstance(v, _Tag) and v.kind == "lencmp":
            if "lengths-differ" not in self.dec:
                raise _Need("lengths-differ")
            if not self.dec["lengths-differ"]:
                return v.when_equal
            if "lengths-first-shorter" not in self.dec:
                raise _Need("lengths-first-shorter")
            return v.when_first_shorter if self.dec["lengths-first-shorter"] else not v.when_first_shorter
        if v is None or isinstance(v, (bool, int, float, str, tuple)):
            return bool(v)
        if isinstance(v, sp.Basic):
            if v.is_zero is True:
                return False
            if v.is_nonzero is True or v.is_zero is False:
                return True
        # a test the interpreter cannot decide: both outcomes are explored.  The same text applied to different arguments (a
        # helper called once per argument) is a different test.
        about = sorted({repr(env[n.id]) for n in ast.walk(e) if isinstance(n, ast.Name) and isinstance(env.get(n.id), _Arg)}) if env else []
        key = "test:" + norm(e) + ("".join(" @" + a for a in about))
        if key not in self.dec:
            raise _Need(key)
        return self.dec[key]

    # -- expressions ---------------------------------------------------------
    def ev(self, e, env, fi, depth):
        if isinstance(e, ast.Constant):
            return e.value
        if isinstance(e, ast.Name):
            if e.id in env:
                return env[e.id]
            if e.id in ("True", "False", "None"):
                return {"True": True, "False": False, "None": None}[e.id]
            full = self.repo.resolve_name(fi.module, e.id)
            if full in self.repo.funcs:
                return _Tag("func", fi=self.repo.funcs[full])
            if e.id in fi.module.consts and isinstance(fi.module.consts[e.id], ast.Constant):
                return fi.module.consts[e.id].value
            if e.id in fi.module.consts:
                nt = _namedtuple_fields(self.repo, fi.module, fi.module.consts[e.id])
                if nt is not None:
                    return _Tag("ntclass", name=e.id, fields=tuple(nt))
            if e.id in fi.module.classes and e.id not in fi.module.imports:
                nt = _namedtuple_class_fields(fi.module.classes[e.id])
                if nt is not None:
                    return _Tag("ntclass", name=e.id, fields=tuple(nt))
            return _Tag("global", name=full)
        if isinstance(e, ast.Tuple):
            return tuple(self.ev(x, env, fi, depth) for x in e.elts)
        if isinstance(e, ast.Attribute):
            b = self.ev(e.value, env, fi, depth)
            if isinstance(b, _Tag) and b.kind == "self":
                if e.attr == "_cosmo":
                    return _Tag("ext")
                q = "%s.%s.%s" % (fi.module.name, b.cls, e.attr)
                if q in self.repo.funcs:
                    return _Tag("method", fi=self.repo.funcs[q])
                return _Tag("selfattr", name=e.attr)
            if isinstance(b, _Tag) and b.kind == "ext":
                return _Tag("extmethod", name=e.attr)
            if isinstance(b, _Tag) and b.kind == "global":
                return _Tag("global", name=b.name + "." + e.attr)
            if isinstance(b, dict):
                if e.attr == "copy":
                    return _Tag("dictcopy", of=b)
                if e.attr == "get":
                    return _Tag("dictget", of=b)
                # the interpreter does not model updates of a mapping: anything that could be one is out of the subset
                raise _Unsup("method %s of a mapping (line %s)" % (e.attr, getattr(e, "lineno", "?")))
            if isinstance(b, _NT):
                if e.attr in b.fields:
                    return b.get(e.attr)
                raise _Unsup("attribute %s of a named tuple (line %s)" % (e.attr, getattr(e, "lineno", "?")))
            if isinstance(b, _Arg) and e.attr == "size":
                return _Tag("len", of=b.length_of())
            if isinstance(b, _Arg) and e.attr == "shape":
                return _Tag("shape", of=b.length_of())
            if isinstance(b, _Arg):
                return _Tag("argattr", arg=b, name=e.attr)
            return _UNKNOWN
        if isinstance(e, ast.BinOp):
            a, b = self.ev(e.left, env, fi, depth), self.ev(e.right, env, fi, depth)
            if isinstance(e.op, ast.Add) and isinstance(a, str) and isinstance(b, str):
                return a + b
            if isinstance(e.op, ast.Mod) and isinstance(a, str):
                try:
                    return a % b if all(isinstance(x, (str, int, float)) for x in (b if isinstance(b, tuple) else (b,))) else _UNKNOWN
                except (TypeError, ValueError):
                    return _UNKNOWN
            num = (int, float, sp.Basic)
            if isinstance(a, num) and isinstance(b, num) and not isinstance(a, bool) and not isinstance(b, bool):
                try:
                    if isinstance(e.op, ast.Add):
                        return a + b
                    if isinstance(e.op, ast.Sub):
                        return a - b
                    if isinstance(e.op, ast.Mult):
                        return a * b
                    if isinstance(e.op, ast.Div):
                        return a / b
                except (TypeError, ZeroDivisionError):
                    return _UNKNOWN
            return _UNKNOWN
        if isinstance(e, ast.UnaryOp):
            if isinstance(e.op, ast.Not):
                return not self.truth(e.operand, env, fi, depth)
            v = self.ev(e.operand, env, fi, depth)
            if isinstance(e.op, ast.USub) and isinstance(v, (int, float, sp.Basic)) and not isinstance(v, bool):
                return -v
            return _UNKNOWN
        if isinstance(e, ast.BoolOp):
            return self.truth(e, env, fi, depth)
        if isinstance(e, ast.Compare) and len(e.ops) == 1:
            return self.compare(e.ops[0], self.ev(e.left, env, fi, depth), self.ev(e.comparators[0], env, fi, depth))
        if isinstance(e, ast.IfExp):
            return self.ev(e.body if self.truth(e.test, env, fi, depth) else e.orelse, env, fi, depth)
        if isinstance(e, ast.List):
            return tuple(self.ev(x, env, fi, depth) for x in e.elts)
        if isinstance(e, ast.Dict):
            # a table: values are looked up by key, so that a dispatch table is followed to the entry it selects
            out = {}
            for k, v in zip(e.keys, e.values):
                if k is None:
                    m = self.ev(v, env, fi, depth)
                    if not isinstance(m, dict):
                        raise _Unsup("** of something that is not a known mapping (line %s)" % getattr(e, "lineno", "?"))
                    out.update(m)
                    continue
                kk = self.ev(k, env, fi, depth)
                if not self.plain_key(kk):
                    raise _Unsup("mapping with a key the interpreter cannot compute (line %s)" % getattr(e, "lineno", "?"))
                out[kk] = self.ev(v, env, fi, depth)
            return out
        if isinstance(e, ast.Subscript):
            b = self.ev(e.value, env, fi, depth)
            if isinstance(b, _Tag) and b.kind == "shape" and isinstance(e.slice, ast.Constant) and e.slice.value == 0:
                # the first dimension is what len() reports
                return _Tag("len", of=b.of)
            if isinstance(b, dict):
                kk = self.ev(e.slice, env, fi, depth)
                if self.plain_key(kk) and kk in b:
                    return b[kk]
                raise _Unsup("mapping subscript %s" % norm(e))
            if isinstance(b, _NT):
                b = b.values
            if isinstance(b, tuple):
                kk = self.ev(e.slice, env, fi, depth)
                if isinstance(kk, int) and not isinstance(kk, bool) and -len(b) <= kk < len(b):
                    return b[kk]
                if isinstance(kk, bool):
                    return b[int(kk)]
            return _UNKNOWN
        if isinstance(e, ast.JoinedStr):
            return _UNKNOWN
        if isinstance(e, (ast.DictComp, ast.ListComp, ast.GeneratorExp)) and len(e.generators) == 1:
            # a table built by a comprehension over a literal sequence: one entry per element, in order
            g = e.generators[0]
            seq = self.ev(g.iter, env, fi, depth)
            if g.is_async or not isinstance(seq, tuple) or not all(self.plain_key(x) for x in seq):
                raise _Unsup("comprehension over something that is not a literal sequence (line %s)" % getattr(e, "lineno", "?"))
            items = []
            for x in seq:
                sub = dict(env)
                self.bind(g.target, x, sub)
                if not all(self.truth(c, sub, fi, depth) for c in g.ifs):
                    continue
                if isinstance(e, ast.DictComp):
                    kk = self.ev(e.key, sub, fi, depth)
                    if not self.plain_key(kk):
                        raise _Unsup("mapping with a key the interpreter cannot compute (line %s)" % getattr(e, "lineno", "?"))
                    items.append((kk, self.ev(e.value, sub, fi, depth)))
                else:
                    items.append(self.ev(e.elt, sub, fi, depth))
            return dict(items) if isinstance(e, ast.DictComp) else tuple(items)
        if isinstance(e, ast.Call):
            return self.call(e, env, fi, depth)
        return _UNKNOWN

    @staticmethod
    def plain_key(k):
        if isinstance(k, tuple):
            return all(_Interp.plain_key(x) for x in k)
        return k is None or isinstance(k, (bool, int, float, str))

    def compare(self, op, a, b):
        if isinstance(op, (ast.Is, ast.IsNot)):
            if a is None or b is None:
                other = b if a is None else a
                if other is _UNKNOWN:
                    return _UNKNOWN
                r = other is None
                return r if isinstance(op, ast.Is) else not r
            if isinstance(a, bool) and isinstance(b, bool):
                return (a is b) if isinstance(op, ast.Is) else (a is not b)
            return _UNKNOWN
        if isinstance(a, _Tag) and isinstance(b, _Tag) and a.kind == b.kind and a.kind in ("len", "shape") and a.of == b.of \
                and isinstance(op, (ast.Eq, ast.NotEq, ast.Lt, ast.LtE, ast.Gt, ast.GtE)):
            # the length (shape) of an array compared with the length (shape) of the same array: the two operands are the same
            # value for every input, so the test is decided -- it does not relate the two arguments to each other
            _SELF_COMPARED.append("the %s of %s is compared with itself" % ("length" if a.kind == "len" else "shape", a.of))
            return isinstance(op, (ast.Eq, ast.LtE, ast.GtE))
        if isinstance(a, _Tag) and isinstance(b, _Tag) and a.kind == b.kind == "len" and a.of != b.of and isinstance(op, (ast.Lt, ast.LtE, ast.Gt, ast.GtE)):
            # an ordering test on the two lengths: decided in each of the three cases equal / first shorter / first longer, which
            # together are every pair of lengths (a one-sided test rejects only one of the two ways the lengths can differ)
            first_is_a = a.of < b.of
            t = type(op) if first_is_a else {ast.Lt: ast.Gt, ast.Gt: ast.Lt, ast.LtE: ast.GtE, ast.GtE: ast.LtE}[type(op)]
            return _Tag("lencmp", when_equal=t in (ast.LtE, ast.GtE), when_first_shorter=t in (ast.Lt, ast.LtE))
        for x, y, flip in ((a, b, False), (b, a, True)):
            # the number of elements (a non-negative integer) of an argument tested against zero: decided by whether the argument is
            # empty.  len() / shape[0] equal to zero imply no elements; their being non-zero is used for nothing.
            if isinstance(x, _Tag) and x.kind == "len" and isinstance(y, int) and not isinstance(y, bool):
                t = type(op)
                if flip:
                    t = {ast.Lt: ast.Gt, ast.Gt: ast.Lt, ast.LtE: ast.GtE, ast.GtE: ast.LtE}.get(t, t)
                if (t, y) in ((ast.Eq, 0), (ast.LtE, 0), (ast.Lt, 1)):
                    return _Tag("cond", key="empty:" + x.of, pol=True)
                if (t, y) in ((ast.NotEq, 0), (ast.Gt, 0), (ast.GtE, 1)):
                    return _Tag("cond", key="empty:" + x.of, pol=False)
            if isinstance(x, _Tag) and x.kind == "shape" and y == (0,) and isinstance(op, (ast.Eq, ast.NotEq)):
                return _Tag("cond", key="empty:" + x.of, pol=isinstance(op, ast.Eq))
        if isinstance(op, (ast.Eq, ast.NotEq)):
            if isinstance(a, _Tag) and isinstance(b, _Tag) and a.kind == b.kind and a.kind in ("len", "shape") and a.of != b.of:
                # arrays of different lengths have different shapes: a test on the shapes rejects at least what a test on the
                # lengths rejects
                return _Tag("cond", key="lengths-differ", pol=isinstance(op, ast.NotEq))
            r = None
            simple = (type(None), bool, int, float, str)
            if isinstance(a, simple) and isinstance(b, simple):
                r = a == b
            elif isinstance(a, sp.Basic) or isinstance(b, sp.Basic):
                if a is None or b is None or isinstance(a, (str, _Tag, _Arg)) or isinstance(b, (str, _Tag, _Arg)):
                    r = False if (a is None or b is None) else None
                else:
                    d = sp.simplify(sp.sympify(a) - sp.sympify(b))
                    r = True if d.is_zero is True else (False if (d.is_nonzero is True or d.is_zero is False) else None)
            if r is None:
                return _UNKNOWN
            return r if isinstance(op, ast.Eq) else not r
        if isinstance(a, (int, float)) and isinstance(b, (int, float)):
            return {ast.Lt: a < b, ast.LtE: a <= b, ast.Gt: a > b, ast.GtE: a >= b}.get(type(op), _UNKNOWN)
        return _UNKNOWN

    def call(self, c, env, fi, depth):
        f = self.ev(c.func, env, fi, depth)
        if any(isinstance(a, ast.Starred) for a in c.args) or any(k.arg is None for k in c.keywords):
            raise _Unsup("star arguments in %s" % norm(c))
        pos = [self.ev(a, env, fi, depth) for a in c.args]
        kw = {k.arg: self.ev(k.value, env, fi, depth) for k in c.keywords}
        if isinstance(f, _Tag) and f.kind == "extmethod":
            self.calls.append((f.name, pos, kw))
            return _Tag("extresult", idx=len(self.calls) - 1)
        if isinstance(f, _Tag) and f.kind == "ntclass":
            if len(pos) > len(f.fields) or any(k not in f.fields[len(pos):] for k in kw) or len(pos) + len(kw) != len(f.fields):
                raise _Unsup("named tuple %s constructed as %s" % (f.name, norm(c)))
            return _NT(f.name, f.fields, list(pos) + [kw[k] for k in f.fields[len(pos):]])
        if isinstance(f, _Tag) and f.kind == "dictcopy" and not pos and not kw:
            return dict(f.of)
        if isinstance(f, _Tag) and f.kind == "dictget" and 1 <= len(pos) <= 2 and not kw and self.plain_key(pos[0]):
            return f.of.get(pos[0], pos[1] if len(pos) > 1 else None)
        if isinstance(f, _Tag) and f.kind in ("unknown", "selfattr", "extresult", "argattr") and not (f.kind == "argattr" and f.name in ("astype", "ravel", "flatten", "copy", "reshape")):
            # a callee the interpreter could not identify: whatever it does is not seen
            self.opaque.append(norm(c))
        if isinstance(f, _Tag) and f.kind in ("func", "method"):
            return self.invoke(f.fi, pos, kw, depth + 1)
        name = None
        if isinstance(f, _Tag) and f.kind == "global":
            name = f.name
        elif isinstance(c.func, ast.Name) and c.func.id not in env:
            name = c.func.id
        if name in ("numpy.isscalar", "isscalar", "numpy.ndim") and len(pos) == 1 and isinstance(pos[0], _Arg):
            if name.endswith("ndim"):
                return 0 if pos[0].scalar else (_UNKNOWN if not pos[0].nd1 else 1)
            # a converted value (at least 1-d array) is not a scalar any more
            return pos[0].scalar and not pos[0].nd1
        if name in ("len", "numpy.size") and len(pos) == 1 and not kw and isinstance(pos[0], _Arg):
            return _Tag("len", of=pos[0].length_of())
        if name == "numpy.shape" and len(pos) == 1 and not kw and isinstance(pos[0], _Arg):
            return _Tag("shape", of=pos[0].length_of())
        if name == "getattr" and len(pos) >= 2 and isinstance(pos[0], _Tag) and pos[0].kind == "ext" and isinstance(pos[1], str):
            return _Tag("extmethod", name=pos[1])
        if name == "getattr" and len(pos) >= 2 and isinstance(pos[0], _Tag) and pos[0].kind == "extobj" and isinstance(pos[1], str):
            return _Tag("extacc", obj=pos[0], name=pos[1])
        if name in ("bool", "float", "int", "str") and len(pos) == 1 and isinstance(pos[0], (bool, int, float, str)):
            return {"bool": bool, "float": float, "int": int, "str": str}[name](pos[0])
        if name in ("numpy.zeros", "numpy.empty", "numpy.ones", "numpy.array", "numpy.asarray") and 1 <= len(pos) <= 2 and set(kw) <= {"dtype"} | ({"ndmin"} if name == "numpy.array" else set()) \
                and kw.get("ndmin", 1) in (0, 1):
            # a new array without elements: np.zeros(0) / np.empty((0,)) / np.ones(0) / np.array([]) / np.zeros(z.size) on the path
            # on which z is empty; one-dimensional float64 (given, or numpy's default for these constructors)
            d = pos[1] if len(pos) > 1 else kw.get("dtype")
            n0 = pos[0]
            if name in ("numpy.array", "numpy.asarray"):
                none = n0 == ()
            else:
                n0 = n0[0] if isinstance(n0, tuple) and len(n0) == 1 else n0
                none = (isinstance(n0, int) and not isinstance(n0, bool) and n0 == 0) or (
                    isinstance(n0, _Tag) and n0.kind == "len" and self.dec.get("empty:" + n0.of) is True)
            if none and (d is None or self.is_f8(d)) and ("dtype" not in kw or len(pos) == 1):
                return _Tag("emptyf8")
        if name in self._NARROW_SCALAR and len(pos) == 1 and not kw and isinstance(pos[0], _Arg) and not (isinstance(c.func, ast.Name) and c.func.id in env):
            # int(z) / round(z) / np.float32(z) / np.int64(z): the value is truncated or rounded to fewer digits
            return pos[0].derive(lossy="%s stores it in a type narrower than float64" % norm(c))
        sp_ = self.spread(name, c, pos, kw) if name else None
        if sp_ is not None:
            return sp_
        if name and name.startswith("numpy.") and pos and isinstance(pos[0], _Arg):
            return self.numpy_conv(name[6:], pos, kw, norm(c))
        if isinstance(f, _Tag) and f.kind == "argattr" and f.name == "astype":
            a = f.arg
            d = pos[0] if pos else kw.get("dtype")
            return a.derive(f8=self.is_f8(d), lossy=self.narrowing(d, norm(c)))
        if isinstance(f, _Tag) and f.kind == "argattr" and not f.arg.scalar:
            a = f.arg
            if f.name in ("ravel", "flatten") and not pos and kw.get("order", "C") == "C":
                # a C-ordered 1-d array of the same elements
                return a.derive(contig=True, nd1=True)
            if f.name == "copy" and not pos and kw.get("order", "C") == "C":
                return a.derive(contig=True)
            if f.name == "reshape" and pos and not kw and all(isinstance(x, int) and not isinstance(x, bool) for x in (pos[0] if isinstance(pos[0], tuple) else pos)) \
                    and len(pos[0] if isinstance(pos[0], tuple) else pos) >= 1:
                # same elements and element type in at least one dimension; a contiguous array stays contiguous
                return a.derive(nd1=True)
        return _UNKNOWN

    # element / scalar types that cannot hold every float64 value: integers and bool truncate, narrower floats round
    _NARROW_STR = ("f4", "float32", "f", "single", "<f4", "=f4", "f2", "float16", "e", "half", "i8", "int64", "<i8", "=i8", "i4", "int32", "i2", "int16", "i1", "int8",
                   "int", "int_", "intp", "l", "q", "i", "h", "b", "u1", "u2", "u4", "u8", "uint8", "uint16", "uint32", "uint64", "uint", "L", "Q", "I", "H", "B", "bool", "?")
    _NARROW_GLOBAL = tuple("numpy." + n for n in ("float32", "single", "float16", "half", "int64", "int32", "int16", "int8", "int_", "intp", "intc", "longlong",
                                                   "uint64", "uint32", "uint16", "uint8", "uint", "bool_", "bool")) + ("int", "builtins.int", "bool", "builtins.bool")
    _NARROW_SCALAR = _NARROW_GLOBAL + ("round", "builtins.round", "math.floor", "math.ceil", "math.trunc")

    def narrowing(self, d, text):
        """why an explicit element type d loses part of a float64 value (None: it does not, or d is not one the checker knows)"""
        if (isinstance(d, str) and d in self._NARROW_STR) or (isinstance(d, _Tag) and d.kind == "global" and d.name in self._NARROW_GLOBAL):
            return "%s stores it in an element type narrower than float64" % text
        return None

    def spread(self, name, c, pos, kw):
        """a scalar argument spread over a new array with one element per element of an array argument: np.full_like(array, scalar),
        np.full(len(array) / array.shape / array.size, scalar), np.repeat(scalar, len(array)), np.broadcast_to(scalar, array.shape).
        None when the call is not one of these.  The element type decides whether the scalar's value survives: full_like
        without an element type takes the one of the array it is modelled on; the others take the scalar's own (exact)."""
        def length_source(v):
            v = v[0] if isinstance(v, tuple) and len(v) == 1 else v
            return v.of if isinstance(v, _Tag) and v.kind in ("len", "shape") else None

        text = norm(c)
        if name == "numpy.full_like" and set(kw) <= {"fill_value", "dtype"} and 1 <= len(pos) <= 3:
            like = pos[0]
            fill = pos[1] if len(pos) > 1 else kw.get("fill_value")
            if (len(pos) > 1 and "fill_value" in kw) or (len(pos) > 2 and "dtype" in kw):
                return None
            d = pos[2] if len(pos) > 2 else kw.get("dtype")
            if not (isinstance(like, _Arg) and not like.scalar and like.like is None and isinstance(fill, _Arg) and fill.scalar and fill.like is None and not fill.nd1):
                return None
            if d is None:
                f8 = like.f8
                lossy = None if like.f8 else "%s takes the element type of %s, which is an integer type or float32 for an integer / float32 array or a list of integers" % (text, like.name)
            else:
                f8, lossy = self.is_f8(d), self.narrowing(d, text)
                if not f8 and not lossy:
                    return None
            # a new array laid out like the model: C-contiguous when the model is
            return _Arg(fill.name, False, f8, like.contig, like.nd1, like=like.length_of(), lossy=fill.lossy or lossy)
        if name in ("numpy.full", "numpy.repeat", "numpy.broadcast_to", "numpy.tile"):
            if name == "numpy.full":
                shape, fill = (pos + [None, None])[0] if pos else kw.get("shape"), pos[1] if len(pos) > 1 else kw.get("fill_value")
                d = pos[2] if len(pos) > 2 else kw.get("dtype")
                if len(pos) > 3 or not set(kw) <= {"shape", "fill_value", "dtype"}:
                    return None
            else:
                if len(pos) != 2 or kw:
                    return None
                fill, shape, d = pos[0], pos[1], None
            src = length_source(shape)
            if src is None or not (isinstance(fill, _Arg) and fill.scalar and fill.like is None and not fill.nd1) or src == fill.name:
                return None
            f8, lossy = False, None
            if d is not None:
                f8, lossy = self.is_f8(d), self.narrowing(d, text)
                if not f8 and not lossy:
                    return None
            return _Arg(fill.name, False, f8, name != "numpy.broadcast_to", True, like=src, lossy=fill.lossy or lossy)
        return None

    @staticmethod
    def is_f8(d):
        if isinstance(d, str):
            return d in _F8
        if isinstance(d, _Tag) and d.kind == "global":
            return d.name in ("numpy.float64", "numpy.double", "numpy.float_", "float", "numpy.float")
        return False

    def numpy_conv(self, fn, pos, kw, text=""):
        a = pos[0]
        if fn in ("asarray", "array", "asanyarray", "ascontiguousarray", "require"):
            d = pos[1] if len(pos) > 1 else kw.get("dtype")
            f8 = self.is_f8(d) or (a.f8 and d is None)
            a = a.derive(lossy=self.narrowing(d, text or "numpy." + fn))
            if fn == "ascontiguousarray":
                return a.derive(f8=f8, contig=True, nd1=True)
            if fn == "require":
                req = pos[2] if len(pos) > 2 else kw.get("requirements")
                req = req if isinstance(req, (tuple, list)) else (req,)
                return a.derive(f8=f8, contig=a.contig or any(r in ("C", "C_CONTIGUOUS", "CONTIGUOUS") for r in req if isinstance(r, str)))
            order = kw.get("order", pos[2] if len(pos) > 2 and fn != "array" else None)
            ndmin = kw.get("ndmin", 0)
            return a.derive(f8=f8, contig=order == "C" or (a.contig and order in (None, "K", "A")), nd1=a.nd1 or (isinstance(ndmin, int) and ndmin >= 1))
        if fn == "atleast_1d" and len(pos) == 1:
            return a.derive(nd1=True)
        return _UNKNOWN


# what the interpreter noticed about tests that compare a property of an argument with the same property of the same argument
_SELF_COMPARED = []


class _Return(Exception):
    def __init__(self, value):
        self.value = value


def _run_paths(chk, repo, fi, argvals, rule, key, on_object=False):
    """paths of fi on the abstract arguments, or None after reporting `not recognised`.  on_object: when the method, run on an
    object of which nothing is known, makes a call the interpreter cannot follow (a bound method or table the constructor stored
    on the object), it is run again on objects built by abstract execution of the constructor, whose attributes are then known."""
    try:
        outs, err = _Interp(repo).paths(fi, argvals), None
    except _Unsup as e:
        outs, err = None, e
    if on_object and fi.cls and (outs is None or any(o.get("opaque") or (o["kind"] == "return" and not o["calls"] and not _empty_result(o)) for o in outs)):
        try:
            return _paths_on_object(repo, fi, argvals)
        except _Unsup as e:
            err = err or e
    if outs is None:
        chk.ob(rule, key, None, fi.where(), "the code reached from %s uses a construct outside the interpreted subset (%s)" % (fi.name, err))
    return outs


def _paths_on_object(repo, fi, argvals):
    """paths of the method fi called on every kind of object the constructor builds (flat / curved, curvature given or not):
    what the constructor stored on the object -- bound methods of the extension object, dispatch tables -- is followed"""
    cls = "%s.%s" % (fi.module.name, fi.cls)
    H0s = sp.Symbol("H0", positive=True)
    M, Lm = sp.Symbol("omega_m", real=True), sp.Symbol("omega_l", real=True)
    K = sp.Symbol("omega_k", real=True, nonzero=True)
    outs = []
    for flat_in, kval in ((True, None), (False, None), (True, K), (False, K), (False, 0.0)):
        it = _ObjInterp(repo)

        def thunk():
            o = it.construct(cls, [], dict(H0=H0s, flat=flat_in, omega_m=M, omega_l=Lm, omega_k=kval), 0)
            it.calls, it.opaque = [], []
            return it.method(o, fi.name, list(argvals))

        for o in it.explore(thunk):
            if not any(o["kind"] == p_["kind"] and o["dec"] == p_["dec"] and repr((o["value"], o["calls"])) == repr((p_["value"], p_["calls"])) for p_ in outs):
                outs.append(o)
    return outs


def _raise_hangs_on_unknown_test(o, outs):
    """the raising path o would not have raised (there) had one of the tests the interpreter could not decide gone the other way:
    some other path takes that test the other way, agrees with o on every other decision both of them took, and does not end in
    the same raise"""
    for k, v in o["dec"].items():
        if not k.startswith("test:"):
            continue
        for o2 in outs:
            d2 = o2["dec"]
            if d2.get(k) == (not v) and all(d2[x] == y for x, y in o["dec"].items() if x != k and x in d2) \
                    and not (o2["kind"] == "raise" and o2["value"] == o["value"] and o2.get("at") == o.get("at")):
                return True
    return False


def _blind(o):
    """a path on which the interpreter lost sight of the computation: it returns without having seen a call into the extension
    object but made a call through something it could not identify, or handed the extension a value it knows nothing about"""
    if o["kind"] != "return":
        return False
    if not o["calls"]:
        return bool(o.get("opaque"))
    return len(o["calls"]) == 1 and any(a is _UNKNOWN for a in o["calls"][0][1])


def _on_empty_input(o):
    """the path is taken only when an array argument has no elements.  The property quantifies over arrays of length 1..N, and
    for an array without elements every vector wrapper returns a new one-dimensional float64 array without elements (R11.3
    output-sized-from-array-argument, returns-new-array): such a path is judged by what it returns, not by the call it skips"""
    return any(k.startswith("empty:") and v is True for k, v in o["dec"].items())


def _empty_result(o):
    return o["kind"] == "return" and not o["calls"] and isinstance(o["value"], _Tag) and o["value"].kind == "emptyf8"


def _ext_call_ok(o, name, argnames):
    """the path makes exactly one call into the extension object, to `name`, with the method's own arguments in order"""
    if o["kind"] != "return" or len(o["calls"]) != 1:
        return False
    n, pos, kw = o["calls"][0]
    return n == name and not kw and len(pos) == len(argnames) and all(isinstance(a, _Arg) and a.name == an and a.like is None for a, an in zip(pos, argnames))


def _spread_call_ok(o, name, argnames, scalars):
    """the path makes exactly one call into the extension object, to the two-array entry `name`, with the method's own arguments
    in order, the scalar one spread over a new array with one element per element of the array one: element i of the result is
    then the quantity of (array[i], scalar), which is what the one-array entry computes (R11.3: every vector wrapper computes
    element by element; equal lengths by construction)"""
    if o["kind"] != "return" or len(o["calls"]) != 1 or len(argnames) != 2 or sorted(scalars) != [False, True]:
        return False
    n, pos, kw = o["calls"][0]
    if not (n == name and not kw and len(pos) == 2 and all(isinstance(a, _Arg) and a.name == an for a, an in zip(pos, argnames))):
        return False
    arr, sc = (pos[1], pos[0]) if scalars[0] else (pos[0], pos[1])
    return arr.like is None and not arr.scalar and sc.like == arr.name


def dispatch(chk, repo):
    for meth, cq, (a1, a2) in (("Dc", "Dc", ("zmin", "zmax")), ("Dm", "Dm", ("zmin", "zmax")), ("Da", "Da", ("zmin", "zmax")), ("Dl", "Dl", ("zmin", "zmax")), ("sigmacritinv", "scinv", ("zl", "zs"))):
        fi = repo.func(CQ + "Cosmo." + meth)
        chk.analysed_unit(fi.qualname)
        normal_all = []
        unknown_all = []
        for s1 in (True, False):
            for s2 in (True, False):
                suffix = {(True, True): "", (False, True): "_vec1", (True, False): "_vec2", (False, False): "_2vec"}[(s1, s2)]
                tag = "%s[%s %s,%s %s]" % (meth, a1, "scalar" if s1 else "array", a2, "scalar" if s2 else "array")
                del _SELF_COMPARED[:]
                outs = _run_paths(chk, repo, fi, [_Arg(a1, s1), _Arg(a2, s2)], "R11.4", tag + "::selects-" + cq + suffix, on_object=True)
                selfcmp = sorted(set(_SELF_COMPARED))
                if outs is None:
                    continue
                def call_ok(o, want=cq + suffix, both=cq + "_2vec", scalars=(s1, s2)):
                    # the entry for this combination of scalar / array arguments, or (one scalar, one array) the two-array entry
                    # with the scalar spread over the length of the array
                    return _ext_call_ok(o, want, (a1, a2)) or _spread_call_ok(o, both, (a1, a2), scalars)

                # paths on which two array arguments were found to differ in length are judged by the rejection rule below
                normal = [o for o in outs if not o["dec"].get("lengths-differ")]
                # paths taken only for an array argument without elements (outside the lengths 1..N the property is about): fine
                # when they hand back what the wrapper would (a new empty float64 array), otherwise not identified
                on_empty = [o for o in normal if _on_empty_input(o)]
                normal = [o for o in normal if o not in on_empty]
                odd_empty = [o for o in on_empty if not _empty_result(o) and not call_ok(o)]
                normal += [o for o in on_empty if call_ok(o)]
                # a path that raises, before any call into the extension, on a test the interpreter could not decide: a rejection
                # the checker has not identified (possibly the length check in a spelling it does not know) -- no verdict from it
                unknown_reject = [o for o in normal if o["kind"] == "raise" and not o["calls"] and _raise_hangs_on_unknown_test(o, outs)]
                normal = [o for o in normal if o not in unknown_reject]
                normal_all += normal
                found = [(o["kind"], [(n, pos) for n, pos, _ in o["calls"]]) for o in normal]
                ok = bool(normal) and all(call_ok(o) for o in normal)
                blind = [o for o in normal if not call_ok(o) and _blind(o)]
                if (ok and (unknown_reject or odd_empty)) or (not ok and blind and all(call_ok(o) for o in normal if o not in blind)):
                    # the extension call goes through a callee the interpreter could not follow (or some rejection was not
                    # identified): nothing contradicts the rule, nothing establishes it
                    ok = None
                    unknown_all.append(tag)
                chk.ob("R11.4", tag + "::selects-" + cq + suffix, ok, fi.where(), "dispatches to _cosmo.%s(%s, %s) (found %s%s)" % (
                    cq + suffix, a1, a2, found, "; and %d path(s) that raise on a test the interpreter cannot decide" % len(unknown_reject) if unknown_reject else "") + (
                        "; and path(s) for an argument without elements that do something not identified: %s" % [(o["kind"], o["value"]) for o in odd_empty] if odd_empty else ""))
                # array arguments reach the extension converted (float64, C-contiguous, at least 1-d), scalars untouched
                if ok:
                    good = all(all((a.untouched() if (s and a.like is None) else a.converted()) for a, s in zip(o["calls"][0][1], (s1, s2))) for o in normal)
                    changed = sorted({"%s: %s" % (a.name, a.lossy) for o in normal for a in o["calls"][0][1] if a.lossy})
                    chk.ob("R11.4", tag + "::converts-array-arguments", good, fi.where(), "array arguments are converted to float64 C-contiguous with their values kept, scalars passed as given (or spread over a float64 array with their value kept) (found %s)%s" % (
                        found, "; the value of an argument does not reach the extension as given -- " + "; ".join(changed) if changed else ""))
                else:
                    chk.ob("R11.4", tag + "::converts-array-arguments", None, fi.where(), "no single extension call to look at (found %s)" % found)
                if not s1 and not s2:
                    differ = [o for o in outs if o["dec"].get("lengths-differ") and not _on_empty_input(o)]
                    okg = bool(differ) and all(o["kind"] == "raise" and not o["calls"] for o in differ)
                    if not okg and unknown_reject:
                        # no comparison of the two lengths was recognised (or only one that rejects part of the unequal pairs), but
                        # some test the interpreter cannot decide rejects the arguments before the call: that may be the (rest of
                        # the) length check
                        okg = None
                    chk.ob("R11.4", tag + "::length-mismatch-rejected", okg, fi.where(), "different lengths of %s and %s (first shorter, first longer) raise before the two-array call (paths with differing lengths: %s%s)" % (
                        a1, a2, [(o["kind"], [n for n, _, _ in o["calls"]], "%s shorter" % min(a1, a2) if o["dec"].get("lengths-first-shorter") else "%s longer" % min(a1, a2) if "lengths-first-shorter" in o["dec"] else "") for o in differ],
                        "; no test relates the two lengths to each other" + (": " + ", ".join(selfcmp) if selfcmp else "") if not differ else ""))
        def returns_result(o):
            return o["kind"] == "return" and isinstance(o["value"], _Tag) and o["value"].kind == "extresult" and o["value"].idx == len(o["calls"]) - 1

        okr = bool(normal_all) and all(returns_result(o) for o in normal_all)
        if (not normal_all and unknown_all) or (not okr and normal_all and all(returns_result(o) or _blind(o) for o in normal_all)):
            # every path that does not visibly return the extension's result is one on which the interpreter lost sight of the call
            okr = None
        chk.ob("R11.4", meth + "::returns-result", okr, fi.where(), "the extension's result is returned unmodified")
    for meth, cq in (("dV", "dV"), ("Ez_inverse", "ez_inverse")):
        fi = repo.func(CQ + "Cosmo." + meth)
        chk.analysed_unit(fi.qualname)
        for s_ in (True, False):
            key = "%s[z %s]" % (meth, "scalar" if s_ else "array")
            outs = _run_paths(chk, repo, fi, [_Arg("z", s_)], "R11.4", key, on_object=True)
            if outs is None:
                continue
            want = cq + ("" if s_ else "_vec")
            def good(o):
                return _ext_call_ok(o, want, ("z",)) and (o["calls"][0][1][0].untouched() if s_ else o["calls"][0][1][0].converted()) \
                    and isinstance(o["value"], _Tag) and o["value"].kind == "extresult"
            # paths taken only for an array without elements: see _on_empty_input
            on_empty = [o for o in outs if _on_empty_input(o) and not good(o)]
            odd_empty = [o for o in on_empty if not _empty_result(o)]
            outs = [o for o in outs if o not in on_empty]
            ok = bool(outs) and all(good(o) for o in outs)
            if not ok and any(_blind(o) for o in outs) and all(good(o) or _blind(o) for o in outs):
                ok = None       # the call goes through something the interpreter could not follow: nothing contradicts the rule
            if ok and odd_empty:
                ok = None       # what happens for an array without elements was not identified
            chk.ob("R11.4", key, ok, fi.where(), "dispatches to _cosmo.%s(z)%s and returns its result (found %s)" % (want, "" if s_ else " with z converted", [(o["kind"], o["calls"]) for o in outs]) + (
                "; and path(s) for an array without elements that do something not identified: %s" % [(o["kind"], o["value"]) for o in odd_empty] if odd_empty else ""))
    for meth, cq in (("V", "V"), ("Ezinv_integral", "ez_inverse_integral")):
        fi = repo.func(CQ + "Cosmo." + meth)
        outs = _run_paths(chk, repo, fi, [_Arg("zmin", True), _Arg("zmax", True)], "R11.4", meth + "::delegates", on_object=True)
        if outs is None:
            continue
        def good2(o):
            return _ext_call_ok(o, cq, ("zmin", "zmax")) and all(a.untouched() for a in o["calls"][0][1]) and isinstance(o["value"], _Tag) and o["value"].kind == "extresult"
        ok = bool(outs) and all(good2(o) for o in outs)
        if not ok and any(_blind(o) for o in outs) and all(good2(o) or _blind(o) for o in outs):
            ok = None
        chk.ob("R11.4", meth + "::delegates", ok, fi.where(), "delegates to _cosmo.%s(zmin, zmax) (found %s)" % (cq, [(o["kind"], o["calls"]) for o in outs]))
    ac = repo.func(CQ + "_as_c_order")
    outs = _run_paths(chk, repo, ac, [_Arg("arr", False)], "R11.4", "_as_c_order::float64-contiguous")
    if outs is not None:
        vals = [o["value"] for o in outs if o["kind"] == "return"]
        if not vals or len(vals) != len(outs) or not all(isinstance(v, _Arg) and v.name == "arr" for v in vals):
            chk.ob("R11.4", "_as_c_order::float64-contiguous", None, ac.where(), "the conversion is not a composition of the numpy conversions known to the checker (returns %s)" % [o["value"] for o in outs])
        else:
            chk.ob("R11.4", "_as_c_order::float64-contiguous", all(v.converted() for v in vals), ac.where(),
                   "array arguments become float64, C-contiguous, at least 1-d (matches the double* reads of the wrappers): %s" % vals)


def normaliser(chk, repo):
    fi = repo.func(CQ + "Cosmo.extract_parms")
    chk.analysed_unit(fi.qualname)
    M, Lm = sp.Symbol("omega_m", real=True), sp.Symbol("omega_l", real=True)
    K = sp.Symbol("omega_k", real=True, nonzero=True)
    order = [p for p in fi.params if p != "self"]
    for kcase in ("None", "zero", "nonzero"):
        for flat_in in (True, False):
            key = "extract_parms[omega_k=%s,flat=%s]" % (kcase, flat_in)
            vals = {"omega_m": M, "omega_l": Lm, "omega_k": {"None": None, "zero": 0.0, "nonzero": K}[kcase], "flat": flat_in}
            if sorted(order) != sorted(vals):
                chk.ob("R11.5", key, None, fi.where(), "extract_parms no longer takes (omega_m, omega_l, omega_k, flat): %s" % order)
                continue
            outs = _run_paths(chk, repo, fi, [vals[p_] for p_ in order], "R11.5", key)
            if outs is None:
                continue
            want = (False, M, Lm, K) if kcase == "nonzero" else (True, M, 1 - M, 0.0)

            def same(a, b):
                if isinstance(a, bool) or isinstance(b, bool) or a is None or b is None:
                    return a is b
                try:
                    return sp.simplify(sp.sympify(a) - sp.sympify(b)) == 0
                except (sp.SympifyError, TypeError):
                    return False

            res = [o["value"] if o["kind"] == "return" else "raise" for o in outs]
            ok = bool(outs) and all(isinstance(r, tuple) and len(r) == 4 and all(same(a, b) for a, b in zip(r, want)) for r in res)
            chk.ob("R11.5", key, ok, fi.where(), "normalised (flat, omega_m, omega_l, omega_k) = %s (abstract evaluation gives %s)" % (want, res))
    chk.assume("parameter normalisation rule as implemented and documented: a non-zero omega_k decides the geometry; otherwise flat with omega_k=0 and omega_l=1-omega_m")


def constructor(chk, repo, wrap, sem=None):
    fi = repo.func(CQ + "Cosmo.__init__")
    chk.analysed_unit(fi.qualname)
    cfg = cfg_of(fi)
    view = cfg.view()
    env = {}
    for n in cfg.nodes:
        if n.kind == "stmt" and isinstance(n.ast, ast.Assign):
            env.setdefault(norm(n.ast.targets[0]), []).append((norm(n.ast.value), rules.controlling_tests(view, n)))
    # each of these holds when the statement the reviewed constructor has today is found; otherwise it is decided by what the
    # constructor, executed abstractly on symbolic arguments (object_state), hands to the extension object
    via = " [decided by abstract execution of the constructor: %s]"
    sv = _sem(sem, ["hubble-distance"], ("h", "H0+h"))
    chk.ob("R11.5", "Cosmo.__init__::h-overrides-H0", _or_sem(("100.0 * h", [("h is not None", "T")]) in env.get("H0", []), sv), fi.where(), "H0 = 100 h when h is given (%s)" % env.get("H0") + via % sv)
    sv = _sem(sem, ["hubble-distance"])
    chk.ob("R11.5", "Cosmo.__init__::hubble-distance", _or_sem([v for v, _ in env.get("DH", [])] == ["_CLIGHT / H0"], sv), fi.where(), "D_H = c / H0" + via % sv)
    h0n = [n for n in cfg.nodes if n.kind == "stmt" and isinstance(n.ast, ast.Assign) and norm(n.ast.targets[0]) == "H0"]
    dhn = [n for n in cfg.nodes if n.kind == "stmt" and isinstance(n.ast, ast.Assign) and norm(n.ast.targets[0]) == "DH"]
    sv = _sem(sem, ["hubble-distance"], ("H0+h",))
    chk.ob("R11.5", "Cosmo.__init__::override-before-DH", _or_sem(bool(h0n) and bool(dhn) and view.reaches(h0n[0], dhn[0]), sv), fi.where(), "the override happens before D_H is formed" + via % sv)
    c = [v for v, _ in env.get("self._cosmo", [])]
    sv = _sem(sem, ["hubble-distance", "extension-arguments"])
    chk.ob("R11.5", "Cosmo.__init__::extension-arguments", _or_sem(c == ["_cosmolib.cosmo(DH, flat, omega_m, omega_l, omega_k)"], sv), fi.where(), "the extension object gets (D_H, flat, omega_m, omega_l, omega_k) after normalisation (%s)" % c + via % sv)
    init = wrap.get("PyCosmoObject_init")
    fmt, names = parse_tuple_binding(init) if init else (None, [])
    chk.ob("R11.5", "PyCosmoObject_init::parse-format", parse_tuple_format(fmt or "") == ["d", "i", "d", "d", "d"] and names == ["DH", "flat", "omega_m", "omega_l", "omega_k"], "esutil/cosmology/cosmolib_pywrap.c", "format %r binds %s" % (fmt, names))
    calls = [cfront.render(x) for x in cfront.calls_in(init) if cfront.callee_name(x) == "cosmo_new"] if init else []
    chk.ob("R11.5", "PyCosmoObject_init::constructs-with-same-order", calls == ["cosmo_new(DH, flat, omega_m, omega_l, omega_k)"], "esutil/cosmology/cosmolib_pywrap.c", "cosmo_new receives the parsed values in order")
    ex = [(v, t) for v, t in env.get("(flat, omega_m, omega_l, omega_k)", [])]
    sv = _sem(sem, ["extension-arguments"])
    chk.ob("R11.5", "Cosmo.__init__::normaliser-roles", _or_sem([v for v, _ in ex] == ["self.extract_parms(omega_m, omega_l, omega_k, flat)"], sv), fi.where(),
           "extract_parms(omega_m, omega_l, omega_k, flat) -> (flat, omega_m, omega_l, omega_k)" + via % sv)
    # constants: speed of light in km/s in Python and in the C header
    mod = repo.module("esutil.cosmology.cosmology")
    cl = norm(mod.consts.get("_CLIGHT", ast.Constant(value=None)))
    chk.ob("R11.1", "constants::speed-of-light-python", abs(float(cl) - 299792.458) < 1e-9 if cl not in ("None",) else False, "esutil/cosmology/cosmology.py", "_CLIGHT = 299792.458 km/s (found %s)" % cl)
    try:
        hdr = open(os.path.join(__import__("vcheck.core", fromlist=["REPO"]).REPO, "esutil/cosmology/cosmolib.h")).read()
    except OSError:
        hdr = ""
    cc = _const_in_header(hdr, "CLIGHT")
    used = [f for f in ("cosmolib.c", "cosmolib.h", "cosmolib_pywrap.c") if re.search(r"\bCLIGHT\b", _read_repo("esutil/cosmology/" + f))]
    if cc is None and not used:
        # the C sources neither define nor use a speed of light: D_H reaches C already formed (R11.5 hubble-distance), there is
        # no second constant that could disagree with the Python one
        chk.ob("R11.1", "constants::speed-of-light-c-equals-python", True, "esutil/cosmology/cosmolib.h", "the C sources define and use no speed of light of their own; the only one is Python's _CLIGHT %s" % cl)
    else:
        chk.ob("R11.1", "constants::speed-of-light-c-equals-python", None if (cc is None or cl == "None") else abs(cc - float(cl)) < 1e-9, "esutil/cosmology/cosmolib.h",
               "C CLIGHT %s equals Python _CLIGHT %s%s" % (cc, cl, "" if cc is not None else " (CLIGHT occurs in %s in a form that is not a constant definition the checker reads)" % used))


def _read_repo(rel):
    try:
        return open(os.path.join(__import__("vcheck.core", fromlist=["REPO"]).REPO, rel), encoding="utf-8", errors="replace").read()
    except OSError:
        return ""


def copy_pickle(chk, repo, sem=None):
    """each rule holds when the spelling the reviewed code has today is found; otherwise it is decided by what it stands for:
    the object obtained through that route is built from the same extension arguments and reports the same H0() (object_state)"""
    via = " [decided by abstract execution of the route: %s]"
    fi = repo.func(CQ + "Cosmo.copy")
    chk.analysed_unit(fi.qualname)
    rets = [x for x in walk_no_nested(fi.node) if isinstance(x, ast.Return)]
    ok = len(rets) == 1 and isinstance(rets[0].value, ast.Call) and call_name(rets[0].value) == "Cosmo"
    kws = {k.arg: norm(k.value) for k in rets[0].value.keywords} if ok else {}
    want = {"H0": "self._H0", "flat": "self._flat", "omega_m": "self._omega_m", "omega_l": "self._omega_l", "omega_k": "self._omega_k"}
    sv = _sem(sem, ["copy()"])
    chk.ob("R11.6", "Cosmo.copy::forwards-stored-inputs-by-keyword", _or_sem(kws == want, sv), fi.where(), "copy() rebuilds from the stored inputs by keyword (%s)" % kws + via % sv)
    init = repo.func(CQ + "Cosmo.__init__")
    st = {norm(a.targets[0]): norm(a.value) for a in walk_no_nested(init.node) if isinstance(a, ast.Assign) and norm(a.targets[0]).startswith("self._")}
    okk = st.get("self._flat") == "flat" and st.get("self._omega_m") == "omega_m" and st.get("self._omega_l") == "omega_l" and st.get("self._omega_k") == "omega_k" and st.get("self._H0") == "H0"
    chk.ob("R11.6", "Cosmo.__init__::inputs-stored-as-given", _or_sem(okk, sv), init.where(), "the inputs are stored as given (before normalisation) and H0 after the h override (%s)" % {k: v for k, v in st.items() if k != "self._cosmo"} + via % sv)
    # the stored raw inputs are saved before the local names are re-bound by the normaliser
    cfg = cfg_of(init)
    view = cfg.view()
    stores = [n for n in cfg.nodes if n.kind == "stmt" and isinstance(n.ast, ast.Assign) and norm(n.ast.targets[0]) in ("self._flat", "self._omega_m", "self._omega_l", "self._omega_k")]
    ext = [n for n in cfg.nodes if n.kind == "stmt" and isinstance(n.ast, ast.Assign) and "extract_parms" in norm(n.ast.value)]
    chk.ob("R11.6", "Cosmo.__init__::raw-inputs-saved-before-normalisation", _or_sem(bool(ext) and len(stores) == 4 and all(view.dominates(s, ext[0]) for s in stores), sv), init.where(),
           "raw inputs are saved before extract_parms re-binds the local names" + via % sv)
    for m, route in (("__copy__", "copy.copy"), ("__deepcopy__", "copy.deepcopy")):
        f = repo.funcs.get(CQ + "Cosmo." + m)
        if f is None:
            chk.ob("R11.6", "Cosmo.%s::delegates-to-copy" % m, None, fi.where(), "the class no longer defines %s: what the copy module does with the object is not modelled" % m)
            continue
        r = [norm(x.value) for x in walk_no_nested(f.node) if isinstance(x, ast.Return)]
        sv = _sem(sem, [route])
        chk.ob("R11.6", "Cosmo.%s::delegates-to-copy" % m, _or_sem(r == ["self.copy()"], sv), f.where(), "%s is copy()" % m + via % sv)
    sv = _sem(sem, ["pickle"])
    red = repo.funcs.get(CQ + "Cosmo.__reduce__")
    if red is None:
        chk.ob("R11.6", "Cosmo.__reduce__::class-and-pars", None, fi.where(), "the class no longer defines __reduce__: default pickling is not modelled")
    else:
        r = [norm(x.value) for x in walk_no_nested(red.node) if isinstance(x, ast.Return)]
        chk.ob("R11.6", "Cosmo.__reduce__::class-and-pars", _or_sem(r == ["(self.__class__, self._pars)"], sv), red.where(), "pickling re-creates the class from _pars" + via % sv)
    pars = repo.funcs.get(CQ + "Cosmo._pars")
    pr = [x for x in walk_no_nested(pars.node) if isinstance(x, ast.Return)] if pars is not None else []
    elts = [norm(e) for e in pr[0].value.elts] if pr and isinstance(pr[0].value, ast.Tuple) else []
    pos = [p for p in init.params if p != "self"]
    want = {"H0": "self.H0()", "h": "None", "flat": "bool(self.flat())", "omega_m": "self.omega_m()", "omega_l": "self.omega_l()", "omega_k": "self.omega_k()"}
    chk.ob("R11.6", "Cosmo._pars::constructor-positional-order", _or_sem(bool(elts) and elts == [want.get(p) for p in pos], sv), (pars or red or fi).where(),
           "the pickling tuple follows the constructor's positional order %s (found %s)" % (pos, elts) + via % sv)

# --------------------------------------------------------------------------
# object state: the constructor, the parameter accessors and the four ways of duplicating an object (copy(), __copy__,
# __deepcopy__, __reduce__) are executed by the abstract interpreter on SYMBOLIC constructor arguments (H0, h, omega_m, omega_l
# symbols; omega_k None / zero / a non-zero symbol; flat True / False) with the attributes of `self` tracked, so the rules are
# stated on what the object ends up holding -- the arguments the extension object was built with and what H0() reports --
# however the statements of the constructor are ordered or split into helpers.
# --------------------------------------------------------------------------
EXT_PARAMS = ("DH", "flat", "omega_m", "omega_l", "omega_k")


def _is_property(fi):
    return any(norm(d) in ("property", "builtins.property", "functools.cached_property", "cached_property") for d in fi.node.decorator_list)


class _ObjInterp(_Interp):
    """_Interp with objects: `self.x = v` is recorded on the object, `self.x` reads it back, methods and properties run on the
    object they were looked up on, calling the class constructs a new object through __init__, the extension constructor
    yields an object that remembers its arguments and whose parameter accessors return them (that the accessors and the C
    constructor do so is what R11.3 ::accessor, R11.5 PyCosmoObject_init and R11.1 cosmo_new::parameters-stored establish)."""

    def new_object(self, clsname):
        mod, cls = clsname.rsplit(".", 1)
        return _Tag("self", cls=cls, mod=mod, attrs={})

    def construct(self, clsname, pos, kw, depth):
        init = self.repo.funcs.get(clsname + ".__init__")
        if init is None:
            raise _Unsup("class %s has no __init__ of its own" % clsname)
        o = self.new_object(clsname)
        self.invoke(init, pos, kw, depth + 1, this=o)
        return o

    def method(self, o, name, pos=(), depth=0):
        m = self.repo.funcs.get("%s.%s.%s" % (o.mod, o.cls, name))
        if m is None:
            raise _Unsup("the class has no method %s" % name)
        if _is_property(m):
            return self.invoke(m, [], {}, depth + 1, this=o)
        return self.invoke(m, list(pos), {}, depth + 1, this=o)

    def explore(self, thunk):
        out, todo = [], [{}]
        while todo:
            self.dec = todo.pop()
            self.calls = []
            self.opaque = []
            try:
                v = thunk()
                out.append({"kind": "return", "value": v, "dec": dict(self.dec), "calls": self.calls, "opaque": self.opaque})
            except _Raised as r:
                out.append({"kind": "raise", "value": r.what, "at": r.line, "dec": dict(self.dec), "calls": self.calls, "opaque": self.opaque})
            except _Need as n:
                if len(self.dec) >= self.max_forks:
                    raise _Unsup("too many undecided tests")
                todo.append(dict(list(self.dec.items()) + [(n.key, True)]))
                todo.append(dict(list(self.dec.items()) + [(n.key, False)]))
        return out

    def invoke(self, fi, pos, kw, depth, this=None):
        if depth > 6:
            raise _Unsup("call nesting too deep")
        params = list(fi.params)
        if any(p_.startswith("*") for p_ in params):
            raise _Unsup("variadic callee %s" % fi.name)
        env = {}
        if fi.cls and params and not any(norm(d) in ("staticmethod", "classmethod") for d in fi.node.decorator_list):
            if this is None:
                raise _Unsup("method %s called without an object" % fi.name)
            env[params[0]] = this
            params = params[1:]
        if len(pos) > len(params):
            raise _Unsup("too many arguments for %s" % fi.name)
        for p_, v in zip(params, pos):
            env[p_] = v
        for k, v in kw.items():
            if k not in params or k in env:
                raise _Unsup("keyword %s of %s" % (k, fi.name))
            env[k] = v
        for p_ in params:
            if p_ not in env:
                if p_ not in fi.defaults:
                    raise _Unsup("missing argument %s of %s" % (p_, fi.name))
                env[p_] = self.ev(fi.defaults[p_], {}, fi, depth)
        try:
            self.block(fi.node.body, env, fi, depth)
        except _Return as r:
            return r.value
        return None

    def bind(self, t, v, env):
        if isinstance(t, ast.Attribute):
            o = env.get(t.value.id) if isinstance(t.value, ast.Name) else None
            if isinstance(o, _Tag) and o.kind == "self" and hasattr(o, "attrs"):
                o.attrs[t.attr] = v
                return
        _Interp.bind(self, t, v, env)

    # floating-point-faithful terms: with fp set, an arithmetic operation on a value that is not a constant is kept as an
    # application of fl_add / fl_sub / fl_mul / fl_div (one rounding each) instead of a term of real algebra, so that two terms
    # are identical exactly when they are the same sequence of roundings on the same inputs.  Kept exact: both operands
    # constants (Python computes the very double), multiplication / division by 1, and by a power of two (exact scaling).
    fp = False

    @staticmethod
    def _fl(op, a, b):
        def const(x):
            return isinstance(x, (int, float)) and not isinstance(x, bool)

        def pow2(x):
            if not const(x) or x == 0:
                return False
            import math
            m, _ = math.frexp(abs(float(x)))
            return m == 0.5

        if op in ("mul", "div") and const(b) and b == 1:
            return a
        if op == "mul" and const(a) and a == 1:
            return b
        if op == "mul" and (pow2(a) or pow2(b)):
            return sp.sympify(a) * sp.sympify(b) if not (isinstance(a, sp.Basic) and isinstance(b, sp.Basic)) else a * b
        if op == "div" and pow2(b):
            return a / sp.Rational(b)
        a_, b_ = sp.sympify(a), sp.sympify(b)
        if op in ("add", "mul"):
            a_, b_ = sorted((a_, b_), key=sp.default_sort_key)
        return sp.Function("fl_" + op)(a_, b_)

    def ev(self, e, env, fi, depth):
        if self.fp and isinstance(e, ast.BinOp) and isinstance(e.op, (ast.Add, ast.Sub, ast.Mult, ast.Div)):
            a, b = self.ev(e.left, env, fi, depth), self.ev(e.right, env, fi, depth)
            num = (int, float, sp.Basic)
            if isinstance(a, num) and isinstance(b, num) and not isinstance(a, bool) and not isinstance(b, bool) and (isinstance(a, sp.Basic) or isinstance(b, sp.Basic)):
                return self._fl({ast.Add: "add", ast.Sub: "sub", ast.Mult: "mul", ast.Div: "div"}[type(e.op)], a, b)
            if isinstance(a, (int, float)) and isinstance(b, (int, float)) and not isinstance(a, bool) and not isinstance(b, bool):
                try:
                    return {ast.Add: lambda: a + b, ast.Sub: lambda: a - b, ast.Mult: lambda: a * b, ast.Div: lambda: a / b}[type(e.op)]()
                except (ZeroDivisionError, OverflowError):
                    return _UNKNOWN
            if isinstance(a, str):
                return _Interp.ev(self, e, env, fi, depth)
            return _UNKNOWN
        if isinstance(e, ast.Attribute):
            b = self.ev(e.value, env, fi, depth)
            if isinstance(b, _Tag) and b.kind == "self" and hasattr(b, "attrs"):
                if e.attr == "__class__":
                    return _Tag("global", name="%s.%s" % (b.mod, b.cls))
                if e.attr in b.attrs:
                    return b.attrs[e.attr]
                m = self.repo.funcs.get("%s.%s.%s" % (b.mod, b.cls, e.attr))
                if m is None:
                    raise _Unsup("attribute %s is read before it is set (line %s)" % (e.attr, getattr(e, "lineno", "?")))
                if _is_property(m):
                    return self.invoke(m, [], {}, depth + 1, this=b)
                return _Tag("method", fi=m, obj=b)
            if isinstance(b, _Tag) and b.kind == "extobj":
                return _Tag("extacc", obj=b, name=e.attr)
        return _Interp.ev(self, e, env, fi, depth)

    # a test of a floating-point-faithful term against zero: rounding keeps zero-ness (a product or quotient of doubles is zero
    # only when a factor / the numerator is, a sum or difference only when the exact one is -- short of underflow, which the
    # parameter ranges of the property exclude), so the test is decided as on the term of real algebra the roundings stand for
    @staticmethod
    def _unfl(t):
        ops = {"fl_add": lambda a, b: a + b, "fl_sub": lambda a, b: a - b, "fl_mul": lambda a, b: a * b, "fl_div": lambda a, b: a / b}
        return t.replace(lambda x: isinstance(x, sp.Function) and type(x).__name__ in ops and len(x.args) == 2, lambda x: ops[type(x).__name__](*x.args))

    @staticmethod
    def _has_fl(t):
        return isinstance(t, sp.Basic) and any(type(x).__name__.startswith("fl_") for x in t.atoms(sp.Function))

    def compare(self, op, a, b):
        if self.fp and isinstance(op, (ast.Eq, ast.NotEq)):
            def zero(x):
                return isinstance(x, (int, float)) and not isinstance(x, bool) and x == 0
            if self._has_fl(a) and zero(b):
                return _Interp.compare(self, op, self._unfl(a), b)
            if self._has_fl(b) and zero(a):
                return _Interp.compare(self, op, a, self._unfl(b))
        return _Interp.compare(self, op, a, b)

    def as_bool(self, v, e, env=None):
        if self.fp and self._has_fl(v):
            u = self._unfl(v)
            if u.is_zero is True:
                return False
            if u.is_nonzero is True or u.is_zero is False:
                return True
        return _Interp.as_bool(self, v, e, env)

    def call(self, c, env, fi, depth):
        f = self.ev(c.func, env, fi, depth)
        starred = any(isinstance(a, ast.Starred) for a in c.args) or any(k.arg is None for k in c.keywords)
        if starred and not (isinstance(f, _Tag) and f.kind in ("method", "global")):
            raise _Unsup("star arguments in %s" % norm(c))
        if isinstance(f, _Tag) and f.kind in ("method", "global", "extacc"):
            # f(*t, **m) with t a known tuple and m a known mapping is f called with those positional and keyword arguments
            pos, kw = [], {}
            for a in c.args:
                if isinstance(a, ast.Starred):
                    v = self.ev(a.value, env, fi, depth)
                    if not isinstance(v, tuple):
                        raise _Unsup("* of something that is not a known tuple in %s" % norm(c))
                    pos += list(v)
                else:
                    pos.append(self.ev(a, env, fi, depth))
            for k in c.keywords:
                v = self.ev(k.value, env, fi, depth)
                if k.arg is None:
                    if not isinstance(v, dict):
                        raise _Unsup("** of something that is not a known mapping in %s" % norm(c))
                    items = list(v.items())
                else:
                    items = [(k.arg, v)]
                for kk, vv in items:
                    if kk in kw:
                        raise _Unsup("keyword %s given twice in %s" % (kk, norm(c)))
                    kw[kk] = vv
            if f.kind == "global" and f.name in ("dict", "builtins.dict") and "dict" not in env:
                if len(pos) > 1 or (pos and not isinstance(pos[0], dict)):
                    raise _Unsup("dict() of something that is not a known mapping in %s" % norm(c))
                return dict(list(pos[0].items()) if pos else [], **kw)
            if f.kind == "method" and hasattr(f, "obj"):
                return self.invoke(f.fi, pos, kw, depth + 1, this=f.obj)
            if f.kind == "extacc":
                if f.name in EXT_PARAMS and not pos and not kw:
                    return f.obj.args[EXT_PARAMS.index(f.name)]
                self.calls.append((f.name, pos, kw))
                return _Tag("extresult", idx=len(self.calls) - 1)
            if f.kind == "global":
                if self.repo.class_of(f.name) is not None:
                    return self.construct(f.name, pos, kw, depth)
                if f.name.split(".")[-2:] == ["_cosmolib", "cosmo"]:
                    if kw or len(pos) != len(EXT_PARAMS):
                        raise _Unsup("extension constructor called as %s" % norm(c))
                    return _Tag("extobj", args=tuple(pos))
                if f.name in ("copy.deepcopy", "copy.copy") and pos and (pos[0] is None or isinstance(pos[0], (bool, int, float, str, sp.Basic))):
                    return pos[0]
                if f.name in ("float", "numpy.float64", "numpy.double") and len(pos) == 1 and not kw and isinstance(pos[0], sp.Basic):
                    return pos[0]
        elif isinstance(c.func, ast.Name) and c.func.id == "float" and "float" not in env and len(c.args) == 1 and not c.keywords:
            v = self.ev(c.args[0], env, fi, depth)
            if isinstance(v, sp.Basic):
                return v
        return _Interp.call(self, c, env, fi, depth)


def _same3(a, b):
    """True / False / None (one side is not a value the interpreter knows): equal as values"""
    if isinstance(a, (_Tag, _Arg)) or isinstance(b, (_Tag, _Arg)):
        return None
    if isinstance(a, bool) or isinstance(b, bool) or a is None or b is None:
        return a is b
    try:
        return bool(sp.simplify(sp.sympify(a) - sp.sympify(b)) == 0)
    except (sp.SympifyError, TypeError):
        return None


def object_state(chk, repo):
    CLS = CQ + "Cosmo"
    init = repo.func(CLS + ".__init__")
    W = init.where()
    mod = repo.module("esutil.cosmology.cosmology")
    try:
        clight = float(norm(mod.consts.get("_CLIGHT", ast.Constant(value=None))))
    except ValueError:
        clight = None
    H0s, hs = sp.Symbol("H0", positive=True), sp.Symbol("h", positive=True)
    M, Lm = sp.Symbol("omega_m", real=True), sp.Symbol("omega_l", real=True)
    K = sp.Symbol("omega_k", real=True, nonzero=True)

    def observe(it, o):
        ext = [v for v in o.attrs.values() if isinstance(v, _Tag) and v.kind == "extobj"]
        if len(ext) != 1:
            raise _Unsup("the constructed object holds %d extension objects" % len(ext))
        return {"ext": ext[0].args, "H0": it.method(o, "H0")}

    routes = {
        "copy()": lambda it, o: it.method(o, "copy"),
        "copy.copy": lambda it, o: it.method(o, "__copy__"),
        "copy.deepcopy": lambda it, o: it.method(o, "__deepcopy__", [_UNKNOWN]),
        "pickle": None,
    }

    def unpickle(it, o):
        red = it.method(o, "__reduce__")
        if not (isinstance(red, tuple) and len(red) >= 2 and isinstance(red[0], _Tag) and red[0].kind == "global" and isinstance(red[1], tuple)
                and repo.class_of(red[0].name) is not None):
            raise _Unsup("__reduce__ does not return (class, argument tuple): %s" % (red,))
        return it.construct(red[0].name, list(red[1]), {}, 0)

    routes["pickle"] = unpickle
    sem = {}       # (what, which of H0/h was given) -> [True / False / None per case]

    def rec(what, hname, v):
        sem.setdefault((what, hname), []).append(v)
        return v

    for hname, hkw in (("H0", {"H0": H0s}), ("h", {"h": hs}), ("H0+h", {"H0": H0s, "h": hs})):
        H0_want = 100 * hs if "h" in hkw else H0s
        for flat_in, kname, kval in ((True, "None", None), (False, "None", None), (True, "nonzero", K), (False, "nonzero", K), (False, "zero", 0.0)):
            case = "%s,flat=%s,omega_k=%s" % (hname, flat_in, kname)
            kwargs = dict(hkw, flat=flat_in, omega_m=M, omega_l=Lm, omega_k=kval)
            want = (False, M, Lm, K) if kname == "nonzero" else (True, M, 1 - M, 0.0)
            keys = ["state::hubble-distance[%s]" % case, "state::H0-accessor-reports-constant-in-use[%s]" % case, "state::normalised-parameters-reach-extension[%s]" % case]
            it = _ObjInterp(repo)
            try:
                outs = it.explore(lambda: observe(it, it.construct(CLS, [], dict(kwargs), 0)))
                if clight is None:
                    raise _Unsup("_CLIGHT is not a literal")
                if not outs or any(o["kind"] != "return" for o in outs):
                    raise _Unsup("the constructor raises for valid arguments on some path: %s" % [(o["kind"], o["value"]) for o in outs])
            except _Unsup as e:
                for k in keys:
                    chk.ob("R11.6", k, None, W, "the constructor / accessors use a construct outside the interpreted subset (%s)" % e)
                for what in ("hubble-distance", "H0-accessor", "extension-arguments"):
                    rec(what, hname, None)
                outs = None
            if outs is not None:
                obs = [o["value"] for o in outs]
                dh = [x["ext"][0] for x in obs]
                chk.ob("R11.6", keys[0], rec("hubble-distance", hname, _all3(_same3(d, clight / H0_want) for d in dh)), W,
                       "Cosmo(%s): the extension object is built with D_H = c/H0, H0 = %s (h overrides H0) (found D_H = %s)" % (case, H0_want, dh))
                chk.ob("R11.6", keys[1], rec("H0-accessor", hname, _all3(_same3(x["H0"] * x["ext"][0] if isinstance(x["H0"], (int, float, sp.Basic)) and isinstance(x["ext"][0], (int, float, sp.Basic)) else _UNKNOWN, clight) for x in obs)), W,
                       "Cosmo(%s): H0() reports the Hubble constant the distances are computed with, H0() * D_H = c (found H0() = %s while D_H = %s)" % (case, [x["H0"] for x in obs], dh))
                chk.ob("R11.6", keys[2], rec("extension-arguments", hname, _all3(_same3(a, b) for x in obs for a, b in zip(x["ext"][1:], want))), W,
                       "Cosmo(%s): the extension object gets the normalised (flat, omega_m, omega_l, omega_k) = %s (found %s)" % (case, want, [x["ext"][1:] for x in obs]))
            for rname, route in routes.items():
                key = "state::%s-rebuilds-same-cosmology[%s]" % (rname, case)
                it = _ObjInterp(repo)

                def both():
                    o = it.construct(CLS, [], dict(kwargs), 0)
                    n = route(it, o)
                    if not (isinstance(n, _Tag) and n.kind == "self" and hasattr(n, "attrs")) or n is o:
                        raise _Unsup("%s does not return a newly constructed object (%s)" % (rname, n))
                    return observe(it, o), observe(it, n)

                try:
                    outs = it.explore(both)
                except _Unsup as e:
                    chk.ob("R11.6", key, rec(rname, hname, None), W, "the code reached through %s uses a construct outside the interpreted subset (%s)" % (rname, e))
                    continue
                if not outs or any(o["kind"] != "return" for o in outs):
                    chk.ob("R11.6", key, rec(rname, hname, None), W, "construction or %s raises on some path: %s" % (rname, [(o["kind"], o["value"]) for o in outs]))
                    continue
                res = []
                for o in outs:
                    a, b = o["value"]
                    r_ = [_same3(x, y) for x, y in zip(a["ext"], b["ext"])] + [_same3(a["H0"], b["H0"])]
                    if any(k.startswith("test:") for k in o["dec"]):
                        # a path that exists only because the interpreter could not decide a test (on a value it knows nothing
                        # about) and tried both outcomes: it may be infeasible, so a difference found on it contradicts nothing
                        r_ = [None if v is False else v for v in r_]
                    res += r_
                chk.ob("R11.6", key, rec(rname, hname, _all3(res)), W,
                       "Cosmo(%s): the object obtained through %s has the same H0() and builds its extension object from the same (D_H, flat, omega_m, omega_l, omega_k) (original %s, duplicate %s)"
                       % (case, rname, [o["value"][0] for o in outs], [o["value"][1] for o in outs]))
                # bit-identical distances: the duplicate's extension object must be built from the very same doubles, i.e. from
                # arguments computed by the same roundings of the same inputs.  Arguments that are equal in real arithmetic but
                # reached through other rounding operations (H0 -> H0/100 -> 100*(H0/100), say) differ in the last place for
                # some inputs.  Decided on floating-point-faithful terms of the same abstract execution.
                if _all3(res) is not True:
                    continue
                key2 = "state::%s-arguments-bit-identical[%s]" % (rname, case)
                it = _ObjInterp(repo)
                it.fp = True
                try:
                    outs2 = it.explore(both)
                except _Unsup as e:
                    chk.ob("R11.6", key2, None, W, "the code reached through %s uses a construct outside the interpreted subset (%s)" % (rname, e))
                    continue
                if not outs2 or any(o["kind"] != "return" for o in outs2):
                    chk.ob("R11.6", key2, None, W, "construction or %s raises on some path" % rname)
                    continue
                res2, diff = [], []
                for o in outs2:
                    a, b = o["value"]
                    undecided = any(k.startswith("test:") for k in o["dec"])
                    for nm, x, y in list(zip(EXT_PARAMS, a["ext"], b["ext"])) + [("H0()", a["H0"], b["H0"])]:
                        if isinstance(x, (_Tag, _Arg)) or isinstance(y, (_Tag, _Arg)):
                            res2.append(None)
                        elif isinstance(x, sp.Basic) or isinstance(y, sp.Basic):
                            same_ = sp.sympify(x) == sp.sympify(y)
                            if not same_:
                                diff.append("%s: original %s, duplicate %s" % (nm, x, y))
                            res2.append(True if same_ else (None if undecided else False))
                        else:
                            res2.append(True if (x is y or (type(x) is type(y) and x == y) or (isinstance(x, (int, float)) and isinstance(y, (int, float)) and not isinstance(x, bool) and not isinstance(y, bool) and x == y)) else None)
                chk.ob("R11.6", key2, _all3(res2), W,
                       "Cosmo(%s): the object obtained through %s builds its extension object from the same floating-point values, computed by the same rounding operations on the same inputs, so that its distances are bit-identical (%s)"
                       % (case, rname, "; ".join(sorted(set(diff))) if diff else "identical terms"))
    return sem


def _sem(sem, whats, hnames=("H0", "h", "H0+h")):
    """the verdict of the abstract execution of the object (object_state) on the given aspects, over all cases"""
    vals = [v for w in whats for hn in hnames for v in (sem or {}).get((w, hn), [None])]
    return _all3(vals) if vals else None


def _or_sem(syntactic, sem_verdict):
    """a rule that recognises the spelling the reviewed code has today, restated on what that spelling achieves: it holds when
    the spelling is found; when it is not, the abstract execution of the constructor / copy routes decides (True / False / None)"""
    return True if syntactic else sem_verdict


def distmod(chk, repo):
    """mu = 5 log10(D_L(0, z)[pc] / 10 pc), decided on the term the method returns: every call of a distance method of the object
    on (0, z) is read as its value in terms of D_L(0, z) (D_M = D_L/(1+z), D_A = D_L/(1+z)^2: R11.1 Da, Dl with the dispatch of
    R11.4), the body is evaluated symbolically and the returned term compared -- however the statements are cut"""
    import copy as _copy
    fi = repo.func(CQ + "Cosmo.distmod")
    chk.analysed_unit(fi.qualname)
    params = [p_ for p_ in fi.params if p_ != "self"]
    z, DL = sp.Symbol("z"), sp.Symbol("DL", positive=True)
    values = {"Dl": DL, "Dm": DL / (1 + z), "Da": DL / (1 + z) ** 2}
    calls, odd = [], []
    zname = params[0] if len(params) == 1 else None
    rebound = zname is None or any(isinstance(n, ast.Name) and n.id == zname and isinstance(n.ctx, (ast.Store, ast.Del)) for n in ast.walk(fi.node))

    class Sub(ast.NodeTransformer):
        def visit_Call(self, c):
            f = c.func
            if isinstance(f, ast.Attribute) and isinstance(f.value, ast.Name) and f.value.id == "self" and f.attr in ("Dc", "Dm", "Da", "Dl"):
                a = list(c.args) + [None, None]
                kw = {k.arg: k.value for k in c.keywords}
                lo, hi = kw.get("zmin", a[0]), kw.get("zmax", a[1])
                zero = isinstance(lo, ast.Constant) and isinstance(lo.value, (int, float)) and not isinstance(lo.value, bool) and lo.value == 0
                if f.attr in values and zero and isinstance(hi, ast.Name) and hi.id == zname and len(c.args) + len(c.keywords) == 2:
                    calls.append(f.attr)
                    return ast.copy_location(ast.Name(id="__%s__" % f.attr, ctx=ast.Load()), c)
                odd.append(norm(c))
                return c
            return self.generic_visit(c)

    body = [Sub().visit(_copy.deepcopy(st)) for st in fi.node.body]
    if rebound or not (calls or odd):
        chk.ob("R11.7", "distmod::luminosity-distance-from-zero", None, fi.where(), "no call of a distance method of the object on (0, z) with z the method's own argument was found")
        chk.ob("R11.7", "distmod::formula", None, fi.where(), "the distance the modulus is formed from was not identified")
        return
    chk.ob("R11.7", "distmod::luminosity-distance-from-zero", not odd, fi.where(), "the distance is taken from 0 to z (distance calls on other arguments: %s)" % odd)
    if odd:
        chk.ob("R11.7", "distmod::formula", None, fi.where(), "the distance the modulus is formed from is not D(0, z)")
        return
    se = symx.SymEval(repo, opaque_tests=False)
    env = symx.Env(se, fi, fi.module, {zname: z}, {})
    env.vars["self"] = symx.Opaque("self")
    for m, v in values.items():
        env.vars["__%s__" % m] = v
    try:
        env.finish_returns(env.exec_body(body, sp.true))
        got = env.result
    except AnalysisError as e:
        chk.ob("R11.7", "distmod::formula", None, fi.where(), "the body of distmod is outside the subset that is evaluated symbolically (%s)" % e)
        return
    if not isinstance(got, sp.Basic):
        chk.ob("R11.7", "distmod::formula", None, fi.where(), "distmod does not return a term (%s)" % (got,))
        return
    ok = symx.equal(got, 5 * sp.log(DL * 10 ** 6 / 10, 10))[0]
    chk.ob("R11.7", "distmod::formula", bool(ok), fi.where(), "mu = 5 log10(D_L[pc]/10 pc) with D_L = D_L(0, z) in Mpc (found %s)" % got)
