"""C11 -- cosmological distances equal their Hogg (1999) definitions."""
import ast

import sympy as sp

from vcheck import cfront, csymx, rules, symx
from vcheck.cfg import eval_test
from vcheck.core import PyRepo, AnalysisError, call_name, dotted_name, kwarg, norm, walk_no_nested
from vcheck.cstr import parse_tuple_format
from vcheck.ceffects import parse_tuple_binding
from vcheck.rules import cfg_of

MANIFEST = dict(
    text="Formula conformance from the clang AST plus wrapper/dispatch cross-checks (not numerical testing): every distance function of "
         "the C library is lowered to a term (callee calls as function symbols, the quadrature loop as a finite sum) and compared with "
         "Hogg (1999): 1/E(z) for flat and curved models, the fixed-order Gauss-Legendre integral with the affine map (5 nodes; 10 for the "
         "volume), D_C = D_H*int, D_M with sinh/sin arms and sqrt|Omega_k|/D_H, D_A = D_M/(1+z), D_L = (1+z) D_M, dV, V with 4 pi, inverse "
         "critical density (zero for z_s <= z_l) and its constant 4 pi G/c^2 against CODATA-derived value, c in C and Python equal; node / "
         "weight arrays are written only by the rule generator on [-1,1]; 26 C wrappers (helpers of the translation unit inlined, then lowered "
         "as a whole): parse format, output sized from the array argument, stored term = Q(arg1[i]|arg1, arg2[i]|arg2) (after one level of "
         "inlining), complete method table; five Python dispatchers executed on abstract scalar/array arguments (private helpers followed): "
         "scalar pattern -> suffix -> converted argument, differing lengths raise before the two-array call; exhaustive abstract "
         "evaluation of the parameter normaliser over (omega_k in {None,0,nonzero}) x (flat in {T,F}); h overrides H0, D_H = c/H0; copy "
         "and pickle argument order; object state by abstract execution of the constructor, accessors, copy(), __copy__, __deepcopy__ and "
         "__reduce__ on symbolic arguments with the attributes of self tracked: D_H = c/(100 h | H0), H0() * D_H = c, normalised parameters "
         "reach the extension object, every duplicate is built from the same extension arguments and reports the same H0(); distance "
         "modulus formula.",
    note="Not decided: truncation-error bound of the fixed-order rule, bit-identical results of copies (follows from equal constructor "
         "arguments), libm. Trusted: clang AST, sympy normaliser, the method-table-to-Python naming of the extension type.",
    technique="static analysis: formula conformance by symbolic normal forms lowered from the clang AST, format/table agreement, sibling cross-check of wrappers and dispatchers, exhaustive abstract evaluation of the normaliser",
)

CQ = "esutil.cosmology.cosmology."
TWO = {"Dc": ("zmin", "zmax"), "Dm": ("zmin", "zmax"), "Da": ("zmin", "zmax"), "Dl": ("zmin", "zmax"), "scinv": ("zl", "zs")}
ONE = {"ez_inverse": "z", "dV": "z"}


# rules that keep their verdict however the code is laid out (decided by term equality, effect analysis or dominance over
# resolved calls); every other rule of this check is a template rule (vcheck.core.Check.obt)
SEMANTIC = ('R11.1', 'R11.3', 'R11.4', 'R11.5::extract_parms', 'R11.6::state')


def run(chk):
    repo = PyRepo()
    chk.set_templates(repo, semantic=SEMANTIC)
    chk.explanation = MANIFEST["text"]
    chk.trusted = ["clang 14 AST", "sympy normaliser", "PyMethodDef name -> Python attribute"]
    chk.floor = 150
    lib = cfront.functions(cfront.load_tu("cosmolib"))
    wrap_decls = cfront.load_tu("cosmolib_pywrap")
    wrap = cfront.functions(wrap_decls)
    formulas(chk, lib)
    quadrature(chk, lib)
    wrappers(chk, lib, wrap, wrap_decls)
    dispatch(chk, repo)
    normaliser(chk, repo)
    constructor(chk, repo, wrap)
    copy_pickle(chk, repo)
    object_state(chk, repo)
    distmod(chk, repo)


def S(n):
    return sp.Symbol(n)


# function symbols of the reference formulas: calls to these stay calls (one level of conformance per quantity); a call to
# any other function defined in the same translation unit is a private helper and is inlined
QUANT = ("ez_inverse", "ez_inverse_integral", "Dc", "Dm", "Da", "Dl", "dV", "V", "scinv")


class _Lower(csymx.Lower):
    """csymx.Lower, extended so that the term does not depend on how the code is cut into statements and helpers:
    * a call to a private helper of the translation unit is inlined (the callee is lowered with its parameters bound to the
      argument terms), a call through a function-pointer parameter becomes a call of the function bound to it;
    * a load of a member lvalue (c->x) sees the last store to it;
    * `i = lo; while (i < hi) { ...; i++; }` and `for (int i = lo; ...)` are lowered like `for (i = lo; i < hi; i++)`."""

    def __init__(self, fn, symbols=None, funcs=None, keep=QUANT, depth=0):
        csymx.Lower.__init__(self, fn, symbols)
        self.funcs = funcs or {}
        self.keep = keep
        self.depth = depth
        self.stores = []      # element stores P[idx] = value: dict(base, index, value, loop=(lo, hi) | None)
        self._loop = None

    def expr(self, n):
        k = n.get("kind")
        inner = n.get("inner", []) or []
        if k == "MemberExpr":
            key = cfront.render(n)
            if key in self.env:
                return self.env[key]
        if k == "UnaryExprOrTypeTraitExpr":
            return sp.Symbol(cfront.render(n))
        if k == "StringLiteral":
            return sp.Symbol(n.get("value", '""'))
        if k == "UnaryOperator" and n.get("opcode") == "&":
            # address of an lvalue: carries the name and the value the lvalue holds at this point
            nm = cfront.render(inner[0])
            try:
                cur = self.expr(inner[0])
            except csymx.CUnsupported:
                cur = sp.Symbol(nm)
            return sp.Function("addr")(sp.Symbol(nm), cur)
        if k == "UnaryOperator" and n.get("opcode") == "*":
            p_ = self.expr(inner[0])
            if getattr(p_, "func", None) is not None and getattr(p_.func, "__name__", "") == "addr":
                return self.env.get(str(p_.args[0]), sp.Symbol(str(p_.args[0])))
            return sp.Function("deref")(p_)
        if k == "CallExpr":
            callee = cfront.strip(inner[0])
            name = cfront.callee_name(n)
            if callee.get("kind") == "DeclRefExpr" and (callee.get("referencedDecl") or {}).get("kind") in ("ParmVarDecl", "VarDecl"):
                bound = self.env.get(name)
                if not isinstance(bound, sp.Symbol) or str(bound) == name:
                    raise csymx.CUnsupported("call through the unbound function pointer %s (line %s)" % (name, n.get("line")))
                name = str(bound)
            if not name:
                # call through a table of function pointers (the numpy C API): the callee text is the function symbol
                name = cfront.render(inner[0])
            args = [self.expr(a) for a in inner[1:]]
            if name.lstrip("_").startswith("PyArg_Parse"):
                # the parsed values are written through the pointer arguments: from here on each names "the k-th parsed argument"
                for a in args:
                    if getattr(getattr(a, "func", None), "__name__", "") == "addr":
                        self.env[str(a.args[0])] = sp.Symbol(str(a.args[0]))
            if name in csymx.MATH:
                return csymx.MATH[name](*args)
            if name in self.funcs and name not in self.keep:
                if self.depth >= 4:
                    raise csymx.CUnsupported("helper nesting too deep at %s" % name)
                decl = self.funcs[name]
                params = cfront.params_of(decl)
                if len(params) != len(args):
                    raise csymx.CUnsupported("helper %s called with %d arguments" % (name, len(args)))
                sub = _Lower(decl, dict(zip(params, args)), self.funcs, self.keep, self.depth + 1)
                t = csymx.merged_return(sub.run(cfront.body_of(decl).get("inner", []) or []))
                if t is None:
                    raise csymx.CUnsupported("helper %s returns no value" % name)
                return t
            return sp.Function(name)(*args)
        return csymx.Lower.expr(self, n)

    def run(self, stmts, cond=sp.true):
        res = []
        for st in stmts:
            st = self._canon_loop(st)
            if not self._store_stmt(st) and not self._map_loop(st, cond):
                res += csymx.Lower.run(self, [st], cond)
            if st.get("kind") == "ReturnStmt":
                break
        return res

    def _store_stmt(self, st):
        """`*p = v` with p the address of a local (an out-parameter of an inlined helper) and `P[idx] = v`"""
        if not (st.get("kind") == "BinaryOperator" and st.get("opcode") == "="):
            return False
        lhs = cfront.strip(st["inner"][0])
        if lhs.get("kind") == "UnaryOperator" and lhs.get("opcode") == "*":
            p_ = self.expr(lhs["inner"][0])
            if getattr(getattr(p_, "func", None), "__name__", "") == "addr":
                self.env[str(p_.args[0])] = self.expr(st["inner"][1])
                return True
            return False
        if lhs.get("kind") == "ArraySubscriptExpr":
            self.stores.append({"base": self.expr(lhs["inner"][0]), "index": self.expr(lhs["inner"][1]), "value": self.expr(st["inner"][1]), "loop": self._loop})
            return True
        return False

    def _map_loop(self, st, cond):
        """`for (i = lo; i < hi; i++) { t = ...; P[i] = f(t, i); }`: the element stores are recorded with the loop range; locals
        assigned in the body are temporaries of one iteration"""
        if st.get("kind") != "ForStmt":
            return False
        init, _cv, test, inc, body = (st.get("inner", []) + [{}] * 5)[:5]
        bs = _branch_stmts(body) if body.get("kind") else []
        def is_store(b):
            return b.get("kind") == "BinaryOperator" and b.get("opcode") == "=" and cfront.strip(b["inner"][0]).get("kind") == "ArraySubscriptExpr"
        if not any(is_store(b) for b in bs):
            return False
        i0, t = cfront.strip(init), cfront.strip(test)
        if not (i0.get("kind") == "BinaryOperator" and i0.get("opcode") == "=" and t.get("kind") == "BinaryOperator" and t.get("opcode") in ("<", "<=")):
            raise csymx.CUnsupported("loop header form (line %s)" % st.get("line"))
        iv = cfront.render(i0["inner"][0])
        if cfront.render(t["inner"][0]) != iv or cfront.render(inc).replace(" ", "") not in (iv + "++", "++" + iv, "(%s+=1)" % iv):
            raise csymx.CUnsupported("loop header form (line %s)" % st.get("line"))
        lo = self.expr(i0["inner"][1])
        hi = self.expr(t["inner"][1]) - (1 if t["opcode"] == "<" else 0)
        save, outer = dict(self.env), self._loop
        self.env[iv] = IDX
        self._loop = (lo, hi)
        for b in bs:
            k = b.get("kind")
            if is_store(b) or (k == "BinaryOperator" and b.get("opcode") == "=" and cfront.strip(b["inner"][0]).get("kind") == "DeclRefExpr") or k in ("DeclStmt", "NullStmt"):
                if any(x.get("kind") in ("UnaryOperator", "CompoundAssignOperator", "BinaryOperator") and x.get("opcode") in ("++", "--", "+=", "-=", "=") and cfront.render(x["inner"][0]) == iv for x in cfront.walk(b)):
                    raise csymx.CUnsupported("the loop body changes its index (line %s)" % b.get("line"))
                if not self._store_stmt(b):
                    csymx.Lower.run(self, [b], cond)
            else:
                raise csymx.CUnsupported("loop body statement %s (line %s)" % (k, b.get("line")))
        self.env, self._loop = save, outer
        return True

    @staticmethod
    def _ref(name):
        return {"kind": "DeclRefExpr", "referencedDecl": {"kind": "VarDecl", "name": name}}

    def _canon_loop(self, st):
        k = st.get("kind")
        inner = st.get("inner", []) or []
        if k == "ForStmt" and inner and inner[0].get("kind") == "DeclStmt":
            vs = [v for v in inner[0].get("inner", []) if v.get("kind") == "VarDecl"]
            init = [c for c in (vs[0].get("inner", []) if len(vs) == 1 else []) if isinstance(c, dict) and c.get("kind")]
            if len(vs) == 1 and init:
                st = dict(st)
                st["inner"] = [{"kind": "BinaryOperator", "opcode": "=", "inner": [self._ref(vs[0]["name"]), init[-1]]}] + inner[1:]
            return st
        if k != "WhileStmt":
            return st
        test = cfront.strip(inner[0])
        body = inner[-1]
        bs = list(body.get("inner", []) or []) if body.get("kind") == "CompoundStmt" else [body]
        if not (test.get("kind") == "BinaryOperator" and test.get("opcode") in ("<", "<=") and cfront.strip(test["inner"][0]).get("kind") == "DeclRefExpr" and bs):
            raise csymx.CUnsupported("while loop is not a counted loop (line %s)" % st.get("line"))
        iv = cfront.render(test["inner"][0])
        last = cfront.render(bs[-1]).replace(" ", "")
        if last not in (iv + "++", "++" + iv, "(%s+=1)" % iv, "(%s=(%s+1))" % (iv, iv), "(%s=(1+%s))" % (iv, iv)):
            raise csymx.CUnsupported("while loop does not end by incrementing %s (line %s)" % (iv, st.get("line")))
        for b in bs[:-1]:
            for x in cfront.walk(b):
                if x.get("kind") in ("ContinueStmt", "BreakStmt", "ReturnStmt") or (
                        x.get("kind") in ("BinaryOperator", "CompoundAssignOperator", "UnaryOperator") and x.get("opcode") in ("=", "+=", "-=", "*=", "/=", "++", "--")
                        and cfront.render(x["inner"][0]) == iv):
                    raise csymx.CUnsupported("while loop changes %s or leaves early (line %s)" % (iv, st.get("line")))
        return {"kind": "ForStmt", "line": st.get("line"), "inner": [
            {"kind": "BinaryOperator", "opcode": "=", "inner": [self._ref(iv), self._ref(iv)]}, {}, inner[0],
            {"kind": "UnaryOperator", "opcode": "++", "isPostfix": True, "inner": [self._ref(iv)]},
            {"kind": "CompoundStmt", "inner": bs[:-1]}]}


def lowered(lib, name, symbols=None):
    if name not in lib:
        raise AnalysisError("C anchor %s not found in cosmolib.c" % name)
    L = _Lower(lib[name], symbols, lib)
    r = L.run(cfront.body_of(lib[name]).get("inner", []) or [])
    return csymx.merged_return(r), L


def _eq(a, b):
    if a is None or b is None:
        return False
    return symx.equal(a, b)[0]


IDX = sp.Symbol("i", integer=True)
POS = sp.Symbol("K_pos", positive=True)
NEG = sp.Symbol("K_neg", negative=True)


def _case(t, case):
    """the term in one case of the state space (symbol -> representative value: 0/1 for the flat flag, a positive or negative
    symbol for the curvature ...): guards are decided by substitution; None when a guard stays undecided"""
    if t is None:
        return None
    try:
        r = t.subs(case, simultaneous=True)
        if r.has(sp.Piecewise):
            r = sp.piecewise_fold(r)
    except Exception:
        return None
    if r.has(sp.Piecewise) or any(isinstance(x, sp.core.relational.Relational) for x in sp.preorder_traversal(r)):
        return None
    return r


def _same_in(t, ref, case):
    """True / False / None (a guard of the code is undecided in that case): t equals ref in the given case"""
    a = _case(t, case)
    if a is None:
        return None
    return bool(_eq(a, ref.subs(case, simultaneous=True)))


def _all3(vals):
    """conjunction over True / False / None: a recognised contradiction wins over `not recognised`"""
    vals = list(vals)
    if any(v is False for v in vals):
        return False
    if any(v is None for v in vals):
        return None
    return True


def _sum_form(t):
    """(total summand over the canonical index, lo, hi) of  k * Sum(f, (j, lo, hi))  with k free of j, else None"""
    if t is None:
        return None
    k = sp.Integer(1)
    if isinstance(t, sp.Mul):
        sums = [a for a in t.args if isinstance(a, sp.Sum)]
        if len(sums) != 1:
            return None
        k = sp.Mul(*[a for a in t.args if a is not sums[0]])
        t = sums[0]
    if not isinstance(t, sp.Sum) or len(t.limits) != 1:
        return None
    j, lo, hi = t.limits[0]
    if k.has(j):
        return None
    return (k * t.function).subs(j, IDX), lo, hi


def _sum_ok(t, summand, n):
    """True / False / None: t is sum_{i=0}^{n-1} summand(i)"""
    sf = _sum_form(t)
    if sf is None:
        return None
    f, lo, hi = sf
    return bool(lo == 0 and hi == n - 1 and _eq(f, summand))


def formulas(chk, lib):
    W = "esutil/cosmology/cosmolib.c"
    z, zmin, zmax, zl, zs = S("z"), S("zmin"), S("zmax"), S("zl"), S("zs")
    om, ol, ok_, DH, tc, flat = S("c.omega_m"), S("c.omega_l"), S("c.omega_k"), S("c.DH"), S("c.tcfac"), S("c.flat")
    c = S("c")
    Fn = {n: sp.Function(n) for n in ("ez_inverse", "ez_inverse_integral", "Dc", "Dm", "Da", "Dl", "dV")}

    def low(name):
        try:
            return lowered(lib, name)[0]
        except csymx.CUnsupported as e:
            chk.ob("R11.1", name + "::lowered", None, W, "the body of %s is outside the C subset that is lowered to a term (%s)" % (name, e))
            return None

    i = IDX
    # 1/E(z): decided per case of the flat flag (the guards are evaluated, their spelling and nesting do not matter)
    t = low("ez_inverse")
    chk.ob("R11.1", "ez_inverse::flat", _same_in(t, 1 / sp.sqrt(om * (1 + z) ** 3 + ol), {flat: 1}), W, "flat: 1/E = 1/sqrt(Om (1+z)^3 + OL) (found %s)" % _case(t, {flat: 1}))
    chk.ob("R11.1", "ez_inverse::curved", _same_in(t, 1 / sp.sqrt(om * (1 + z) ** 3 + ok_ * (1 + z) ** 2 + ol), {flat: 0}), W,
           "curved: 1/E = 1/sqrt(Om (1+z)^3 + Ok (1+z)^2 + OL) (found %s)" % _case(t, {flat: 0}))
    # integral
    t = low("ez_inverse_integral")
    f1, f2 = (zmax - zmin) / 2, (zmax + zmin) / 2
    ok = _sum_ok(t, f1 * sp.Function("c.w")(i) * Fn["ez_inverse"](c, sp.Function("c.x")(i) * f1 + f2), 5)
    chk.ob("R11.1", "ez_inverse_integral::gauss-legendre-sum", ok, W, "(b-a)/2 * sum_{i<5} w_i / E((b-a)/2 x_i + (a+b)/2) (found %s)" % t)
    t = low("Dc")
    chk.ob("R11.1", "Dc", _eq(t, DH * Fn["ez_inverse_integral"](c, zmin, zmax)) if t is not None else None, W, "D_C = D_H * integral of 1/E (found %s)" % t)
    t = low("Dm")
    dc = Fn["Dc"](c, zmin, zmax)
    ok = _all3([_same_in(t, sp.sinh(dc * tc) / tc, {flat: 0, ok_: POS}), _same_in(t, sp.sin(dc * tc) / tc, {flat: 0, ok_: NEG}), _same_in(t, dc, {flat: 1})])
    chk.ob("R11.1", "Dm::three-arms", ok, W, "D_M = sinh(D_C t)/t (Ok>0), sin(D_C t)/t (Ok<0), D_C (flat), t = sqrt|Ok|/D_H (found %s)" % t)
    okc = _all3([_same_in(t, dc, {flat: 1, ok_: POS}), _same_in(t, dc, {flat: 1, ok_: NEG}), _same_in(t, sp.sinh(dc * tc) / tc, {flat: 0, ok_: POS})])
    chk.ob("R11.1", "Dm::arm-conditions", okc, W, "sinh arm for Omega_k > 0, curved arms only when not flat (found %s)" % t)
    t = low("Da")
    chk.ob("R11.1", "Da", _eq(t, Fn["Dm"](c, zmin, zmax) / (1 + zmax)) if t is not None else None, W, "D_A = D_M/(1+z) (found %s)" % t)
    t = low("Dl")
    chk.ob("R11.1", "Dl", _eq(t, Fn["Dm"](c, zmin, zmax) * (1 + zmax)) if t is not None else None, W, "D_L = (1+z) D_M (found %s)" % t)
    t = low("dV")
    chk.ob("R11.1", "dV", _eq(t, DH * (1 + z) ** 2 * Fn["Da"](c, 0, z) ** 2 * Fn["ez_inverse"](c, z)) if t is not None else None, W, "dV = D_H (1+z)^2 D_A(0,z)^2 / E(z) (found %s)" % t)
    t = low("V")
    ok = _sum_ok(t, 4 * sp.pi * f1 * sp.Function("c.vw")(i) * Fn["dV"](c, sp.Function("c.vx")(i) * f1 + f2), 10)
    chk.ob("R11.1", "V::ten-point-sum-times-4pi", ok, W, "V = 4 pi * (b-a)/2 * sum_{i<10} vw_i dV((b-a)/2 vx_i + (a+b)/2) (found %s)" % t)
    t = low("scinv")
    dpos, zlr = sp.Symbol("d_pos", positive=True), sp.Symbol("zl", real=True)
    front = [_case(t, {zl: zlr, zs: zlr}), _case(t, {zl: zlr, zs: zlr - dpos})]
    chk.ob("R11.1", "scinv::zero-for-source-at-or-in-front-of-lens", None if any(f is None for f in front) else all(f == 0 for f in front), W,
           "Sigma_crit^-1 = 0 for z_s = z_l and for z_s < z_l (found %s)" % front)
    DaF = sp.Function("Da")
    behind = _case(t, {zl: zlr, zs: zlr + dpos})
    if behind is not None:
        v = behind.subs(dpos, zs - zl).subs(zlr, zl)
        k, rest = v.as_independent(DaF, as_Add=False)
        okm = _eq(rest, DaF(c, zl, zs) * DaF(c, 0, zl) / DaF(c, 0, zs))
        chk.ob("R11.1", "scinv::distance-ratio", okm, W, "Sigma_crit^-1 proportional to D_ls D_l / D_s (found %s)" % rest)
        # 4 pi G / c^2 in pc^2/Msun per Mpc: 4 pi (GM_sun)/c^2 / pc * 1e6
        GM = sp.Rational("1.32712440018e20")
        cl = sp.Rational("2.99792458e8")
        pc = sp.Rational("3.0856775814913673e16")
        want = 4 * sp.pi * GM / cl ** 2 / pc * 10 ** 6
        try:
            rel = abs(float(k / want) - 1)
        except TypeError:
            rel = None
        chk.ob("R11.1", "scinv::four-pi-G-over-c-squared", None if rel is None else rel < 1e-3, W,
               "the constant %s agrees with 4 pi G M_sun/c^2 per pc (x 1e6 pc/Mpc) = %.9g within 1e-3 (relative difference %s)" % (k, float(want), rel))
    else:
        chk.ob("R11.1", "scinv::distance-ratio", None, W, "the value of scinv for z_s > z_l could not be isolated (found %s)" % t)
    # cosmo_new: the state of the struct when it is returned (stores to members are followed, helpers inlined)
    if "cosmo_new" not in lib:
        raise AnalysisError("cosmo_new not found")
    try:
        _, L = lowered(lib, "cosmo_new")
        st = L.env
    except csymx.CUnsupported as e:
        chk.ob("R11.1", "cosmo_new::lowered", None, W, "cosmo_new is outside the C subset that is lowered (%s)" % e)
        st = None
    if st is not None:
        pk, pDH, pflat = S("omega_k"), S("DH"), S("flat")
        tcv = st.get("c->tcfac")
        okt = _all3([_same_in(tcv, sp.sqrt(pk) / pDH, {pflat: 0, pk: POS}), _same_in(tcv, sp.sqrt(-pk) / pDH, {pflat: 0, pk: NEG})]) if tcv is not None else None
        chk.ob("R11.1", "cosmo_new::tcfac", okt, W, "tcfac = sqrt(|Omega_k|)/D_H (sqrt(Ok) for Ok>0, sqrt(-Ok) otherwise): %s" % tcv)
        cp = {m: st.get("c->" + m) for m in ("DH", "flat", "omega_m", "omega_l", "omega_k")}
        chk.ob("R11.1", "cosmo_new::parameters-stored", all(v == S(m) for m, v in cp.items()), W, "the five parameters are stored unmodified (%s)" % cp)


def quadrature(chk, lib):
    W = "esutil/cosmology/cosmolib.c"
    new = lib["cosmo_new"]
    calls = [cfront.render(c) for c in cfront.calls_in(new) if cfront.callee_name(c) == "gauleg"]
    ok = sorted(calls) == sorted(["gauleg(-1.0, 1.0, 5, c->x, c->w)", "gauleg(-1.0, 1.0, 10, c->vx, c->vw)"]) or \
        sorted(c.replace("-1.0", "-1").replace("1.0", "1") for c in calls) == sorted(["gauleg(-1, 1, 5, c->x, c->w)", "gauleg(-1, 1, 10, c->vx, c->vw)"])
    chk.ob("R11.2", "cosmo_new::rules-on-unit-interval", ok, W, "nodes/weights are the 5- and 10-point rules on [-1,1] (%s)" % calls)
    # who may write the node/weight arrays
    writers = set()
    for name, fn in lib.items():
        for x in cfront.walk(cfront.body_of(fn)):
            if x.get("kind") in ("BinaryOperator", "CompoundAssignOperator") and (x.get("opcode") == "=" or x.get("kind") == "CompoundAssignOperator"):
                l = cfront.render(x["inner"][0])
                if l.startswith(("c->x[", "c->w[", "c->vx[", "c->vw[")):
                    writers.add(name)
    chk.ob("R11.2", "node-weight-arrays::no-other-writer", not writers, W, "no function other than the rule generator stores into the node/weight arrays (%s)" % sorted(writers))


# --------------------------------------------------------------------------
# wrappers: helpers of the wrapper translation unit are inlined into the wrapper (on the clang tree), then the whole wrapper is
# lowered, so that the rules see the same terms whether the 26 bodies are written out or share generic helpers
# --------------------------------------------------------------------------
_EXTERNAL_PREFIX = ("Py", "_Py", "npy_", "NPY_", "__builtin")
_tu_fn_cache = {}


def _tu_function(name, tu="cosmolib_pywrap"):
    """a function of the wrapper translation unit that the name-filtered dump of the unit does not contain (a helper whose name
    lacks the PyCosmo prefix): dumped on demand with its own name filter.  None when the unit does not define it."""
    if name in _tu_fn_cache:
        return _tu_fn_cache[name]
    key = "%s@%s" % (tu, name)
    cfront.TUS.setdefault(key, dict(cfront.TUS[tu], filt=name))
    try:
        fn = cfront.functions(cfront.load_tu(key, _raw=True)).get(name)
    except AnalysisError:
        fn = None
    _tu_fn_cache[name] = fn
    return fn


class _NoInline(Exception):
    pass


def _compound(stmts):
    return {"kind": "CompoundStmt", "inner": list(stmts)}


def _branch_stmts(n):
    if n is None:
        return []
    return list(n.get("inner", []) or []) if n.get("kind") == "CompoundStmt" else [n]


def _inline_helpers(fn, resolve, rounds=3):
    """copy of a function declaration in which calls to helpers of the same translation unit that stand in statement position
    (`return h(..);`  `x = h(..);`  `T x = h(..);`  `h(..);`) are replaced by the helper's body: parameters are copied in as
    fresh locals, the helper's locals get a unique prefix, `return e` of the helper becomes the assignment (or stays a return for
    a tail call) with the statements after an early return moved into the other arm"""
    import copy
    import itertools
    counter = itertools.count(1)
    fn = copy.deepcopy(fn)

    def helper_of(call):
        call = cfront.strip(call)
        if call.get("kind") != "CallExpr":
            return None, None
        callee = cfront.strip(call["inner"][0])
        rd = callee.get("referencedDecl") or {}
        if callee.get("kind") != "DeclRefExpr" or rd.get("kind") != "FunctionDecl":
            return None, None
        decl = resolve(rd.get("name", ""))
        return (decl, call) if decl is not None else (None, None)

    def assign(target, value):
        return {"kind": "BinaryOperator", "opcode": "=", "inner": [copy.deepcopy(target), value]}

    def conv(stmts, target):
        out = []
        for idx, st in enumerate(stmts):
            k = st.get("kind")
            if k == "ReturnStmt":
                v = (st.get("inner") or [None])[0]
                if v is not None:
                    out.append(assign(target, v) if target is not None else v)
                return out, True
            if k == "IfStmt":
                inner = st["inner"]
                has_else = len(inner) > 2 and st.get("hasElse", True)
                a, ta = conv(_branch_stmts(inner[1]), target)
                b, tb = conv(_branch_stmts(inner[2]) if has_else else [], target)
                tr = False
                if ta or tb:
                    rest, tr = conv(stmts[idx + 1:], target)
                    if not ta:
                        a = a + rest
                    if not tb:
                        b = b + rest
                out.append({"kind": "IfStmt", "line": st.get("line"), "hasElse": bool(b), "inner": [inner[0], _compound(a)] + ([_compound(b)] if b else [])})
                if ta or tb:
                    return out, (ta or tr) and (tb or tr)
                continue
            if any(x.get("kind") == "ReturnStmt" for x in cfront.walk(st)):
                raise _NoInline("return inside %s of a helper" % k)
            out.append(st)
        return out, False

    def expand(decl, call, mode, target):
        body = copy.deepcopy(cfront.body_of(decl))
        parms = [c for c in decl.get("inner", []) if c.get("kind") == "ParmVarDecl"]
        args = call["inner"][1:]
        if len(parms) != len(args) or any(not p.get("name") for p in parms):
            raise _NoInline("argument count")
        prefix = "h%d$" % next(counter)
        local = {p["name"] for p in parms} | {x["name"] for x in cfront.walk(body) if x.get("kind") == "VarDecl" and x.get("name")}
        for x in cfront.walk(body):
            if x.get("kind") == "VarDecl" and x.get("name") in local:
                x["name"] = prefix + x["name"]
            elif x.get("kind") == "DeclRefExpr":
                rd = x.get("referencedDecl") or {}
                if rd.get("kind") in ("VarDecl", "ParmVarDecl") and rd.get("name") in local:
                    rd["name"] = prefix + rd["name"]
        copy_in = [{"kind": "DeclStmt", "line": call.get("line"), "inner": [
            {"kind": "VarDecl", "name": prefix + p_["name"], "type": p_.get("type", {}), "inner": [copy.deepcopy(a)]}]} for p_, a in zip(parms, args)]
        stmts = body.get("inner", []) or []
        if mode != "return":
            stmts, _ = conv(stmts, target)
        return copy_in + stmts

    def rewrite(stmts):
        out = []
        changed = False
        for st in stmts:
            k = st.get("kind")
            inner = st.get("inner", []) or []
            rep = None
            try:
                if k == "ReturnStmt" and inner:
                    decl, call = helper_of(inner[0])
                    if decl is not None:
                        rep = expand(decl, call, "return", None)
                elif k == "BinaryOperator" and st.get("opcode") == "=":
                    decl, call = helper_of(inner[1])
                    if decl is not None:
                        rep = expand(decl, call, "assign", inner[0])
                elif k == "CallExpr":
                    decl, call = helper_of(st)
                    if decl is not None:
                        rep = expand(decl, call, "stmt", None)
                elif k == "DeclStmt" and len(inner) == 1 and inner[0].get("kind") == "VarDecl":
                    init = [c for c in inner[0].get("inner", []) if isinstance(c, dict) and c.get("kind")]
                    decl, call = helper_of(init[-1]) if init else (None, None)
                    if decl is not None:
                        bare = dict(inner[0])
                        bare["inner"] = []
                        ref = {"kind": "DeclRefExpr", "referencedDecl": {"kind": "VarDecl", "name": inner[0]["name"]}}
                        rep = [{"kind": "DeclStmt", "inner": [bare]}] + expand(decl, call, "assign", ref)
            except _NoInline:
                rep = None
            if rep is not None:
                out.extend(rep)
                changed = True
                continue
            if k == "IfStmt":
                st = dict(st)
                ni = [inner[0]]
                for b in inner[1:]:
                    bs, ch = rewrite(_branch_stmts(b))
                    changed = changed or ch
                    ni.append(_compound(bs))
                st["inner"] = ni
            elif k in ("ForStmt", "WhileStmt", "DoStmt") and inner:
                pos = 0 if k == "DoStmt" else len(inner) - 1
                bs, ch = rewrite(_branch_stmts(inner[pos]))
                if ch:
                    changed = True
                    st = dict(st)
                    st["inner"] = inner[:pos] + [_compound(bs)] + inner[pos + 1:]
            elif k == "CompoundStmt":
                bs, ch = rewrite(inner)
                changed = changed or ch
                st = _compound(bs)
            out.append(st)
        return out, changed

    for _ in range(rounds):
        body = cfront.body_of(fn)
        stmts, changed = rewrite(body.get("inner", []) or [])
        if not changed:
            break
        fn["inner"] = [c for c in fn["inner"] if c.get("kind") != "CompoundStmt"] + [_compound(stmts)]
    return fn


def _pieces(t):
    """the values a (possibly nested) Piecewise term can take"""
    if isinstance(t, sp.Piecewise):
        out = []
        for v, _ in t.args:
            out += _pieces(v)
        return out
    return [t]


def _fname(t):
    return t.func.__name__ if isinstance(t, sp.core.function.AppliedUndef) else None


def wrappers(chk, lib, wrap, decls):
    W = "esutil/cosmology/cosmolib_pywrap.c"
    # method table
    mt = [x for x in decls if x.get("name") == "PyCosmoObject_methods"]
    if not mt:
        raise AnalysisError("PyCosmoObject_methods table not found")
    il = [y for y in cfront.walk(mt[0]) if y.get("kind") == "InitListExpr"][0]
    table = {}
    for e in il["inner"]:
        if e.get("kind") == "InitListExpr":
            parts = e.get("inner", [])
            nm = cfront.render(parts[0]).strip('"')
            fn = cfront.render(parts[1]) if len(parts) > 1 else None
            if nm and fn and fn not in ("NULL", "0") and nm not in ("NULL", "0") and not nm.startswith("<"):
                table[nm] = fn
    expected = ["DH", "flat", "omega_m", "omega_l", "omega_k", "ez_inverse", "ez_inverse_vec", "ez_inverse_integral", "dV", "dV_vec", "V"]
    for q in TWO:
        expected += [q, q + "_vec1", q + "_vec2", q + "_2vec"]
    miss = [m for m in expected if table.get(m) != "PyCosmoObject_" + m]
    chk.ob("R11.3", "method-table::complete-and-consistent", not miss and len(table) == len(expected), W, "all %d methods map to their own wrapper (missing/mismatched: %s; extra: %s)" % (len(expected), miss, sorted(set(table) - set(expected))))
    c = S("self.cosmo")

    def resolve(name):
        if not name or name in lib or name in csymx.MATH or name.startswith(_EXTERNAL_PREFIX):
            return None
        return wrap.get(name) or _tu_function(name)

    def check(wname, q, argspec):
        fn = wrap.get("PyCosmoObject_" + wname)
        if fn is None:
            chk.ob("R11.3", wname + "::present", False, W, "wrapper missing")
            return
        chk.analysed_unit("PyCosmoObject_" + wname)
        fn = _inline_helpers(fn, resolve)
        fmt, names = parse_tuple_binding(fn)
        want_fmt = ["O" if v else "d" for _, v in argspec]
        spec_txt = ", ".join("%s:%s" % (n, "array" if v else "scalar") for n, v in argspec)
        if fmt is None:
            chk.ob("R11.3", wname + "::parse-format", None, W, "no PyArg_ParseTuple call found in the wrapper or the helpers it delegates to (%s)" % spec_txt)
        else:
            chk.ob("R11.3", wname + "::parse-format", parse_tuple_format(fmt) == want_fmt and len(names) == len(argspec), W, "format %r matches (%s)" % (fmt, spec_txt))
        vec = any(v for _, v in argspec)
        # the k-th parsed variable is the k-th argument; an array argument is read through its data pointer at the loop index
        args = []
        for k, (n, v) in enumerate(argspec):
            pn = names[k] if k < len(names) else n
            args.append(sp.Function("PyArray_DATA(%s)" % pn)(IDX) if v else S(pn))
        ref_call = sp.Function(q)(c, *args)
        try:
            body, _ = lowered(lib, q, dict([(cfront.params_of(lib[q])[0], c)] + list(zip(cfront.params_of(lib[q])[1:], args))))
        except csymx.CUnsupported:
            body = None
        key_c = wname + "::computes-%s-of-its-arguments" % q
        params = cfront.params_of(fn)
        L = _Lower(fn, {params[0]: S("self")} if params else None, {}, keep=())
        try:
            rets = L.run(cfront.body_of(fn).get("inner", []) or [])
        except csymx.CUnsupported as e:
            chk.ob("R11.3", key_c, None, W, "the wrapper body is outside the C subset that is lowered to terms (%s)" % e)
            return
        live = [v for _, v in rets if v is not None for v in _pieces(v) if v != 0]

        def same(got):
            return got is not None and bool(_eq(got, ref_call) or (body is not None and _eq(got, body)))

        if not vec:
            vals = [v.args[0] for v in live if _fname(v) == "PyFloat_FromDouble" and len(v.args) == 1]
            if not live or len(vals) != len(live):
                chk.ob("R11.3", key_c, None, W, "the wrapper does not return PyFloat_FromDouble(value) on every path (returns %s)" % live)
            else:
                chk.ob("R11.3", key_c, all(same(v) for v in vals), W, "returns %s as a Python float (found %s)" % (ref_call, vals))
            return
        st = [s_ for s_ in L.stores]
        if len(st) != 1 or st[0]["loop"] is None:
            for suffix in ("::computes-%s-of-its-arguments" % q, "::output-sized-from-array-argument", "::loop-over-all-elements", "::returns-new-array"):
                chk.ob("R11.3", wname + suffix, None, W, "expected exactly one loop storing into one output array, found stores %s" % [(s_["base"], s_["index"]) for s_ in st])
            return
        s0 = st[0]
        lo, hi = s0["loop"]
        chk.ob("R11.3", key_c, bool(s0["index"] == IDX) and same(s0["value"]), W, "stores %s (found [%s] = %s)" % (ref_call, s0["index"], s0["value"]))
        arr = [names[k] for k, (n, v) in enumerate(argspec) if v and k < len(names)]

        def is_size(t):
            return bool(arr) and isinstance(t, sp.core.function.AppliedUndef) and (
                any(a == sp.Function("PyArray_DIMS")(S(arr[0])) for a in t.args) or (_fname(t) in ("PyArray_SIZE", "PyArray_Size") and t.args[:1] == (S(arr[0]),)))

        alloc = s0["base"].args[0] if _fname(s0["base"]) == "PyArray_DATA" and len(s0["base"].args) == 1 else None
        is_alloc = alloc is not None and isinstance(alloc, sp.core.function.AppliedUndef) and len(alloc.args) >= 3 and (
            "PyArray_API" in _fname(alloc) or _fname(alloc) in ("PyArray_Zeros", "PyArray_ZEROS", "PyArray_Empty", "PyArray_EMPTY", "PyArray_SimpleNew"))
        asize = alloc.args[1].args[1] if is_alloc and _fname(alloc.args[1]) == "addr" else None
        if not is_alloc:
            chk.ob("R11.3", wname + "::output-sized-from-array-argument", None, W, "the output array allocation was not recognised (stores go to %s)" % s0["base"])
        else:
            chk.ob("R11.3", wname + "::output-sized-from-array-argument", bool(alloc.args[0] == 1 and asize is not None and is_size(asize)), W,
                   "the 1-d output is allocated with the size of %s (allocation %s)" % (arr[:1], alloc))
        chk.ob("R11.3", wname + "::loop-over-all-elements", bool(lo == 0 and is_size(hi + 1) and (asize is None or asize == hi + 1) and s0["index"] == IDX), W,
               "for i in [0, size of %s) (found [%s, %s), index %s)" % (arr[:1], lo, hi + 1, s0["index"]))
        if alloc is None or not is_alloc or not live:
            chk.ob("R11.3", wname + "::returns-new-array", None, W, "the returned object / its allocation was not recognised (returns %s)" % live)
        else:
            f64 = any(str(x) in ("NPY_DOUBLE", "NPY_FLOAT64") for x in alloc.free_symbols)
            chk.ob("R11.3", wname + "::returns-new-array", bool(all(v == alloc for v in live) and f64), W, "the newly allocated float64 array whose elements were stored is returned (returns %s)" % live)

    for q, (a1, a2) in TWO.items():
        check(q, q, [(a1, False), (a2, False)])
        check(q + "_vec1", q, [(a1, True), (a2, False)])
        check(q + "_vec2", q, [(a1, False), (a2, True)])
        check(q + "_2vec", q, [(a1, True), (a2, True)])
    for q, a in ONE.items():
        check(q, q, [(a, False)])
        check(q + "_vec", q, [(a, True)])
    check("V", "V", [("zmin", False), ("zmax", False)])
    check("ez_inverse_integral", "ez_inverse_integral", [("zmin", False), ("zmax", False)])
    # accessors return the stored parameter
    for m in ("DH", "flat", "omega_m", "omega_l", "omega_k"):
        fn = wrap.get("PyCosmoObject_" + m)
        rets = [cfront.render(x) for x in cfront.walk(cfront.body_of(fn)) if x.get("kind") == "ReturnStmt"] if fn else []
        chk.ob("R11.3", m + "::accessor", any("self->cosmo->%s" % m in r for r in rets), W, "accessor %s() returns the stored value (%s)" % (m, rets))


# --------------------------------------------------------------------------
# Python side: a small path-enumerating abstract interpreter.  The dispatchers, their private helpers, the array conversion and
# the parameter normaliser are *executed* on abstract argument values (scalar / array with conversion attributes, None / zero /
# non-zero curvature ...), calls to private methods and module functions are followed, and the rules are stated on the outcome
# of each path (which entry point of the extension object got which arguments, what is returned or raised).
# --------------------------------------------------------------------------
class _Unsup(Exception):
    """a construct outside the interpreted subset: no verdict"""


class _Need(Exception):
    def __init__(self, key):
        self.key = key


class _Raised(Exception):
    def __init__(self, what):
        self.what = what


class _Arg:
    """an argument of the public method: a scalar or an array-like, with what is known after conversions"""

    def __init__(self, name, scalar, f8=False, contig=False, nd1=False):
        self.name, self.scalar, self.f8, self.contig, self.nd1 = name, scalar, f8, contig, nd1

    def converted(self):
        return self.f8 and self.contig and self.nd1

    def untouched(self):
        return not (self.f8 or self.contig or self.nd1)

    def __repr__(self):
        return "%s<%s%s>" % (self.name, "scalar" if self.scalar else "array", "".join(t for t, on in ((",f8", self.f8), (",C", self.contig), (",1d", self.nd1)) if on))


class _Tag:
    def __init__(self, kind, **kw):
        self.kind = kind
        self.__dict__.update(kw)

    def __repr__(self):
        return "<%s %s>" % (self.kind, {k: v for k, v in self.__dict__.items() if k != "kind"})


_F8 = ("f8", "float64", "d", "double", "float", "=f8", "np.float64", "numpy.float64", "np.double", "np.float_", "np.float", "float")
_UNKNOWN = _Tag("unknown")


class _Interp:
    def __init__(self, repo, max_forks=6):
        self.repo = repo
        self.max_forks = max_forks

    # -- driver ------------------------------------------------------------
    def paths(self, fi, argvals):
        """all paths of fi(*argvals) (self excluded): list of dict(kind 'return'|'raise', value, calls, dec)"""
        out, todo = [], [{}]
        while todo:
            self.dec = todo.pop()
            self.calls = []
            try:
                v = self.invoke(fi, list(argvals), {}, 0)
                out.append({"kind": "return", "value": v, "calls": self.calls, "dec": dict(self.dec)})
            except _Raised as r:
                out.append({"kind": "raise", "value": r.what, "calls": self.calls, "dec": dict(self.dec)})
            except _Need as n:
                if len(self.dec) >= self.max_forks:
                    raise _Unsup("too many undecided tests")
                todo.append(dict(self.dec, **{n.key: True}))
                todo.append(dict(self.dec, **{n.key: False}))
        return out

    def invoke(self, fi, pos, kw, depth):
        if depth > 4:
            raise _Unsup("call nesting too deep")
        params = list(fi.params)
        if any(p_.startswith("*") for p_ in params):
            raise _Unsup("variadic callee %s" % fi.name)
        env = {}
        if fi.cls and params and params[0] == "self":
            env["self"] = _Tag("self", cls=fi.cls)
            params = params[1:]
        if len(pos) > len(params):
            raise _Unsup("too many arguments for %s" % fi.name)
        for p_, v in zip(params, pos):
            env[p_] = v
        for k, v in kw.items():
            if k not in params or k in env:
                raise _Unsup("keyword %s of %s" % (k, fi.name))
            env[k] = v
        for p_ in params:
            if p_ not in env:
                if p_ not in fi.defaults:
                    raise _Unsup("missing argument %s of %s" % (p_, fi.name))
                env[p_] = self.ev(fi.defaults[p_], {}, fi, depth)
        try:
            self.block(fi.node.body, env, fi, depth)
        except _Return as r:
            return r.value
        return None

    # -- statements --------------------------------------------------------
    def block(self, stmts, env, fi, depth):
        for st in stmts:
            if isinstance(st, ast.Expr):
                if not isinstance(st.value, ast.Constant):
                    self.ev(st.value, env, fi, depth)
            elif isinstance(st, ast.Pass):
                pass
            elif isinstance(st, ast.Assign):
                v = self.ev(st.value, env, fi, depth)
                for t in st.targets:
                    self.bind(t, v, env)
            elif isinstance(st, ast.AnnAssign) and st.value is not None:
                self.bind(st.target, self.ev(st.value, env, fi, depth), env)
            elif isinstance(st, ast.If):
                self.block(st.body if self.truth(st.test, env, fi, depth) else st.orelse, env, fi, depth)
            elif isinstance(st, ast.Return):
                raise _Return(self.ev(st.value, env, fi, depth) if st.value is not None else None)
            elif isinstance(st, ast.Raise):
                raise _Raised(norm(st.exc) if st.exc is not None else "re-raise")
            elif isinstance(st, ast.Assert):
                if not self.truth(st.test, env, fi, depth):
                    raise _Raised("AssertionError")
            else:
                raise _Unsup("statement %s at line %s" % (type(st).__name__, getattr(st, "lineno", "?")))

    def bind(self, t, v, env):
        if isinstance(t, ast.Name):
            env[t.id] = v
        elif isinstance(t, (ast.Tuple, ast.List)) and isinstance(v, tuple) and len(v) == len(t.elts):
            for tt, vv in zip(t.elts, v):
                self.bind(tt, vv, env)
        else:
            raise _Unsup("assignment target %s" % norm(t))

    # -- tests -------------------------------------------------------------
    def truth(self, e, env, fi, depth):
        if isinstance(e, ast.BoolOp):
            is_and = isinstance(e.op, ast.And)
            for v in e.values:
                t = self.truth(v, env, fi, depth)
                if t != is_and:
                    return t
            return is_and
        if isinstance(e, ast.UnaryOp) and isinstance(e.op, ast.Not):
            return not self.truth(e.operand, env, fi, depth)
        v = self.ev(e, env, fi, depth)
        return self.as_bool(v, e)

    def as_bool(self, v, e):
        if isinstance(v, _Tag) and v.kind == "cond":
            if v.key not in self.dec:
                raise _Need(v.key)
            return self.dec[v.key] == v.pol
        if v is None or isinstance(v, (bool, int, float, str, tuple)):
            return bool(v)
        if isinstance(v, sp.Basic):
            if v.is_zero is True:
                return False
            if v.is_nonzero is True or v.is_zero is False:
                return True
        key = "test:" + norm(e)
        if key not in self.dec:
            raise _Need(key)
        return self.dec[key]

    # -- expressions ---------------------------------------------------------
    def ev(self, e, env, fi, depth):
        if isinstance(e, ast.Constant):
            return e.value
        if isinstance(e, ast.Name):
            if e.id in env:
                return env[e.id]
            if e.id in ("True", "False", "None"):
                return {"True": True, "False": False, "None": None}[e.id]
            full = self.repo.resolve_name(fi.module, e.id)
            if full in self.repo.funcs:
                return _Tag("func", fi=self.repo.funcs[full])
            if e.id in fi.module.consts and isinstance(fi.module.consts[e.id], ast.Constant):
                return fi.module.consts[e.id].value
            return _Tag("global", name=full)
        if isinstance(e, ast.Tuple):
            return tuple(self.ev(x, env, fi, depth) for x in e.elts)
        if isinstance(e, ast.Attribute):
            b = self.ev(e.value, env, fi, depth)
            if isinstance(b, _Tag) and b.kind == "self":
                if e.attr == "_cosmo":
                    return _Tag("ext")
                q = "%s.%s.%s" % (fi.module.name, b.cls, e.attr)
                if q in self.repo.funcs:
                    return _Tag("method", fi=self.repo.funcs[q])
                return _Tag("selfattr", name=e.attr)
            if isinstance(b, _Tag) and b.kind == "ext":
                return _Tag("extmethod", name=e.attr)
            if isinstance(b, _Tag) and b.kind == "global":
                return _Tag("global", name=b.name + "." + e.attr)
            if isinstance(b, _Arg) and e.attr == "size":
                return _Tag("len", of=b.name)
            if isinstance(b, _Arg):
                return _Tag("argattr", arg=b, name=e.attr)
            return _UNKNOWN
        if isinstance(e, ast.BinOp):
            a, b = self.ev(e.left, env, fi, depth), self.ev(e.right, env, fi, depth)
            if isinstance(e.op, ast.Add) and isinstance(a, str) and isinstance(b, str):
                return a + b
            if isinstance(e.op, ast.Mod) and isinstance(a, str):
                try:
                    return a % b if all(isinstance(x, (str, int, float)) for x in (b if isinstance(b, tuple) else (b,))) else _UNKNOWN
                except (TypeError, ValueError):
                    return _UNKNOWN
            num = (int, float, sp.Basic)
            if isinstance(a, num) and isinstance(b, num) and not isinstance(a, bool) and not isinstance(b, bool):
                try:
                    if isinstance(e.op, ast.Add):
                        return a + b
                    if isinstance(e.op, ast.Sub):
                        return a - b
                    if isinstance(e.op, ast.Mult):
                        return a * b
                    if isinstance(e.op, ast.Div):
                        return a / b
                except (TypeError, ZeroDivisionError):
                    return _UNKNOWN
            return _UNKNOWN
        if isinstance(e, ast.UnaryOp):
            if isinstance(e.op, ast.Not):
                return not self.truth(e.operand, env, fi, depth)
            v = self.ev(e.operand, env, fi, depth)
            if isinstance(e.op, ast.USub) and isinstance(v, (int, float, sp.Basic)) and not isinstance(v, bool):
                return -v
            return _UNKNOWN
        if isinstance(e, ast.BoolOp):
            return self.truth(e, env, fi, depth)
        if isinstance(e, ast.Compare) and len(e.ops) == 1:
            return self.compare(e.ops[0], self.ev(e.left, env, fi, depth), self.ev(e.comparators[0], env, fi, depth))
        if isinstance(e, ast.IfExp):
            return self.ev(e.body if self.truth(e.test, env, fi, depth) else e.orelse, env, fi, depth)
        if isinstance(e, ast.JoinedStr):
            return _UNKNOWN
        if isinstance(e, ast.Call):
            return self.call(e, env, fi, depth)
        return _UNKNOWN

    def compare(self, op, a, b):
        if isinstance(op, (ast.Is, ast.IsNot)):
            if a is None or b is None:
                other = b if a is None else a
                if other is _UNKNOWN:
                    return _UNKNOWN
                r = other is None
                return r if isinstance(op, ast.Is) else not r
            if isinstance(a, bool) and isinstance(b, bool):
                return (a is b) if isinstance(op, ast.Is) else (a is not b)
            return _UNKNOWN
        if isinstance(op, (ast.Eq, ast.NotEq)):
            if isinstance(a, _Tag) and isinstance(b, _Tag) and a.kind == "len" and b.kind == "len" and a.of != b.of:
                return _Tag("cond", key="lengths-differ", pol=isinstance(op, ast.NotEq))
            r = None
            simple = (type(None), bool, int, float, str)
            if isinstance(a, simple) and isinstance(b, simple):
                r = a == b
            elif isinstance(a, sp.Basic) or isinstance(b, sp.Basic):
                if a is None or b is None or isinstance(a, (str, _Tag, _Arg)) or isinstance(b, (str, _Tag, _Arg)):
                    r = False if (a is None or b is None) else None
                else:
                    d = sp.simplify(sp.sympify(a) - sp.sympify(b))
                    r = True if d.is_zero is True else (False if (d.is_nonzero is True or d.is_zero is False) else None)
            if r is None:
                return _UNKNOWN
            return r if isinstance(op, ast.Eq) else not r
        if isinstance(a, (int, float)) and isinstance(b, (int, float)):
            return {ast.Lt: a < b, ast.LtE: a <= b, ast.Gt: a > b, ast.GtE: a >= b}.get(type(op), _UNKNOWN)
        return _UNKNOWN

    def call(self, c, env, fi, depth):
        f = self.ev(c.func, env, fi, depth)
        if any(isinstance(a, ast.Starred) for a in c.args) or any(k.arg is None for k in c.keywords):
            raise _Unsup("star arguments in %s" % norm(c))
        pos = [self.ev(a, env, fi, depth) for a in c.args]
        kw = {k.arg: self.ev(k.value, env, fi, depth) for k in c.keywords}
        if isinstance(f, _Tag) and f.kind == "extmethod":
            self.calls.append((f.name, pos, kw))
            return _Tag("extresult", idx=len(self.calls) - 1)
        if isinstance(f, _Tag) and f.kind in ("func", "method"):
            return self.invoke(f.fi, pos, kw, depth + 1)
        name = None
        if isinstance(f, _Tag) and f.kind == "global":
            name = f.name
        elif isinstance(c.func, ast.Name) and c.func.id not in env:
            name = c.func.id
        if name in ("numpy.isscalar", "isscalar", "numpy.ndim") and len(pos) == 1 and isinstance(pos[0], _Arg):
            if name.endswith("ndim"):
                return 0 if pos[0].scalar else (_UNKNOWN if not pos[0].nd1 else 1)
            # a converted value (at least 1-d array) is not a scalar any more
            return pos[0].scalar and not pos[0].nd1
        if name == "len" and len(pos) == 1 and isinstance(pos[0], _Arg):
            return _Tag("len", of=pos[0].name)
        if name == "getattr" and len(pos) >= 2 and isinstance(pos[0], _Tag) and pos[0].kind == "ext" and isinstance(pos[1], str):
            return _Tag("extmethod", name=pos[1])
        if name in ("bool", "float", "int", "str") and len(pos) == 1 and isinstance(pos[0], (bool, int, float, str)):
            return {"bool": bool, "float": float, "int": int, "str": str}[name](pos[0])
        if name and name.startswith("numpy.") and pos and isinstance(pos[0], _Arg):
            return self.numpy_conv(name[6:], pos, kw)
        if isinstance(f, _Tag) and f.kind == "argattr" and f.name == "astype":
            a = f.arg
            d = pos[0] if pos else kw.get("dtype")
            return _Arg(a.name, a.scalar, self.is_f8(d), a.contig, a.nd1)
        return _UNKNOWN

    @staticmethod
    def is_f8(d):
        if isinstance(d, str):
            return d in _F8
        if isinstance(d, _Tag) and d.kind == "global":
            return d.name in ("numpy.float64", "numpy.double", "numpy.float_", "float", "numpy.float")
        return False

    def numpy_conv(self, fn, pos, kw):
        a = pos[0]
        if fn in ("asarray", "array", "asanyarray", "ascontiguousarray", "require"):
            d = pos[1] if len(pos) > 1 else kw.get("dtype")
            f8 = self.is_f8(d) or (a.f8 and d is None)
            if fn == "ascontiguousarray":
                return _Arg(a.name, a.scalar, f8, True, True)
            if fn == "require":
                req = pos[2] if len(pos) > 2 else kw.get("requirements")
                req = req if isinstance(req, (tuple, list)) else (req,)
                return _Arg(a.name, a.scalar, f8, a.contig or any(r in ("C", "C_CONTIGUOUS", "CONTIGUOUS") for r in req if isinstance(r, str)), a.nd1)
            order = kw.get("order", pos[2] if len(pos) > 2 and fn != "array" else None)
            ndmin = kw.get("ndmin", 0)
            return _Arg(a.name, a.scalar, f8, order == "C" or (a.contig and order in (None, "K", "A")), a.nd1 or (isinstance(ndmin, int) and ndmin >= 1))
        if fn == "atleast_1d" and len(pos) == 1:
            return _Arg(a.name, a.scalar, a.f8, a.contig, True)
        return _UNKNOWN


class _Return(Exception):
    def __init__(self, value):
        self.value = value


def _run_paths(chk, repo, fi, argvals, rule, key):
    """paths of fi on the abstract arguments, or None after reporting `not recognised`"""
    try:
        return _Interp(repo).paths(fi, argvals)
    except _Unsup as e:
        chk.ob(rule, key, None, fi.where(), "the code reached from %s uses a construct outside the interpreted subset (%s)" % (fi.name, e))
        return None


def _ext_call_ok(o, name, argnames):
    """the path makes exactly one call into the extension object, to `name`, with the method's own arguments in order"""
    if o["kind"] != "return" or len(o["calls"]) != 1:
        return False
    n, pos, kw = o["calls"][0]
    return n == name and not kw and len(pos) == len(argnames) and all(isinstance(a, _Arg) and a.name == an for a, an in zip(pos, argnames))


def dispatch(chk, repo):
    for meth, cq, (a1, a2) in (("Dc", "Dc", ("zmin", "zmax")), ("Dm", "Dm", ("zmin", "zmax")), ("Da", "Da", ("zmin", "zmax")), ("Dl", "Dl", ("zmin", "zmax")), ("sigmacritinv", "scinv", ("zl", "zs"))):
        fi = repo.func(CQ + "Cosmo." + meth)
        chk.analysed_unit(fi.qualname)
        normal_all = []
        for s1 in (True, False):
            for s2 in (True, False):
                suffix = {(True, True): "", (False, True): "_vec1", (True, False): "_vec2", (False, False): "_2vec"}[(s1, s2)]
                tag = "%s[%s %s,%s %s]" % (meth, a1, "scalar" if s1 else "array", a2, "scalar" if s2 else "array")
                outs = _run_paths(chk, repo, fi, [_Arg(a1, s1), _Arg(a2, s2)], "R11.4", tag + "::selects-" + cq + suffix)
                if outs is None:
                    continue
                # paths on which two array arguments were found to differ in length are judged by the rejection rule below
                normal = [o for o in outs if not o["dec"].get("lengths-differ")]
                normal_all += normal
                found = [(o["kind"], [(n, pos) for n, pos, _ in o["calls"]]) for o in normal]
                ok = bool(normal) and all(_ext_call_ok(o, cq + suffix, (a1, a2)) for o in normal)
                chk.ob("R11.4", tag + "::selects-" + cq + suffix, ok, fi.where(), "dispatches to _cosmo.%s(%s, %s) (found %s)" % (cq + suffix, a1, a2, found))
                # array arguments reach the extension converted (float64, C-contiguous, at least 1-d), scalars untouched
                if ok:
                    good = all(all((a.untouched() if s else a.converted()) for a, s in zip(o["calls"][0][1], (s1, s2))) for o in normal)
                    chk.ob("R11.4", tag + "::converts-array-arguments", good, fi.where(), "array arguments are converted to float64 C-contiguous, scalars passed as given (found %s)" % found)
                else:
                    chk.ob("R11.4", tag + "::converts-array-arguments", None, fi.where(), "no single extension call to look at (found %s)" % found)
                if not s1 and not s2:
                    differ = [o for o in outs if o["dec"].get("lengths-differ")]
                    okg = bool(differ) and all(o["kind"] == "raise" and not o["calls"] for o in differ)
                    chk.ob("R11.4", tag + "::length-mismatch-rejected", okg, fi.where(), "different lengths raise before the two-array call (paths with differing lengths: %s)" % [(o["kind"], [n for n, _, _ in o["calls"]]) for o in differ])
        okr = bool(normal_all) and all(o["kind"] == "return" and isinstance(o["value"], _Tag) and o["value"].kind == "extresult" and o["value"].idx == len(o["calls"]) - 1 for o in normal_all)
        chk.ob("R11.4", meth + "::returns-result", okr, fi.where(), "the extension's result is returned unmodified")
    for meth, cq in (("dV", "dV"), ("Ez_inverse", "ez_inverse")):
        fi = repo.func(CQ + "Cosmo." + meth)
        chk.analysed_unit(fi.qualname)
        for s_ in (True, False):
            key = "%s[z %s]" % (meth, "scalar" if s_ else "array")
            outs = _run_paths(chk, repo, fi, [_Arg("z", s_)], "R11.4", key)
            if outs is None:
                continue
            want = cq + ("" if s_ else "_vec")
            ok = bool(outs) and all(_ext_call_ok(o, want, ("z",)) and (o["calls"][0][1][0].untouched() if s_ else o["calls"][0][1][0].converted())
                                    and isinstance(o["value"], _Tag) and o["value"].kind == "extresult" for o in outs)
            chk.ob("R11.4", key, ok, fi.where(), "dispatches to _cosmo.%s(z)%s and returns its result (found %s)" % (want, "" if s_ else " with z converted", [(o["kind"], o["calls"]) for o in outs]))
    for meth, cq in (("V", "V"), ("Ezinv_integral", "ez_inverse_integral")):
        fi = repo.func(CQ + "Cosmo." + meth)
        outs = _run_paths(chk, repo, fi, [_Arg("zmin", True), _Arg("zmax", True)], "R11.4", meth + "::delegates")
        if outs is None:
            continue
        ok = bool(outs) and all(_ext_call_ok(o, cq, ("zmin", "zmax")) and all(a.untouched() for a in o["calls"][0][1]) and isinstance(o["value"], _Tag) and o["value"].kind == "extresult" for o in outs)
        chk.ob("R11.4", meth + "::delegates", ok, fi.where(), "delegates to _cosmo.%s(zmin, zmax) (found %s)" % (cq, [(o["kind"], o["calls"]) for o in outs]))
    ac = repo.func(CQ + "_as_c_order")
    outs = _run_paths(chk, repo, ac, [_Arg("arr", False)], "R11.4", "_as_c_order::float64-contiguous")
    if outs is not None:
        vals = [o["value"] for o in outs if o["kind"] == "return"]
        if not vals or len(vals) != len(outs) or not all(isinstance(v, _Arg) and v.name == "arr" for v in vals):
            chk.ob("R11.4", "_as_c_order::float64-contiguous", None, ac.where(), "the conversion is not a composition of the numpy conversions known to the checker (returns %s)" % [o["value"] for o in outs])
        else:
            chk.ob("R11.4", "_as_c_order::float64-contiguous", all(v.converted() for v in vals), ac.where(),
                   "array arguments become float64, C-contiguous, at least 1-d (matches the double* reads of the wrappers): %s" % vals)


def normaliser(chk, repo):
    fi = repo.func(CQ + "Cosmo.extract_parms")
    chk.analysed_unit(fi.qualname)
    M, Lm = sp.Symbol("omega_m", real=True), sp.Symbol("omega_l", real=True)
    K = sp.Symbol("omega_k", real=True, nonzero=True)
    order = [p for p in fi.params if p != "self"]
    for kcase in ("None", "zero", "nonzero"):
        for flat_in in (True, False):
            key = "extract_parms[omega_k=%s,flat=%s]" % (kcase, flat_in)
            vals = {"omega_m": M, "omega_l": Lm, "omega_k": {"None": None, "zero": 0.0, "nonzero": K}[kcase], "flat": flat_in}
            if sorted(order) != sorted(vals):
                chk.ob("R11.5", key, None, fi.where(), "extract_parms no longer takes (omega_m, omega_l, omega_k, flat): %s" % order)
                continue
            outs = _run_paths(chk, repo, fi, [vals[p_] for p_ in order], "R11.5", key)
            if outs is None:
                continue
            want = (False, M, Lm, K) if kcase == "nonzero" else (True, M, 1 - M, 0.0)

            def same(a, b):
                if isinstance(a, bool) or isinstance(b, bool) or a is None or b is None:
                    return a is b
                try:
                    return sp.simplify(sp.sympify(a) - sp.sympify(b)) == 0
                except (sp.SympifyError, TypeError):
                    return False

            res = [o["value"] if o["kind"] == "return" else "raise" for o in outs]
            ok = bool(outs) and all(isinstance(r, tuple) and len(r) == 4 and all(same(a, b) for a, b in zip(r, want)) for r in res)
            chk.ob("R11.5", key, ok, fi.where(), "normalised (flat, omega_m, omega_l, omega_k) = %s (abstract evaluation gives %s)" % (want, res))
    chk.assume("parameter normalisation rule as implemented and documented: a non-zero omega_k decides the geometry; otherwise flat with omega_k=0 and omega_l=1-omega_m")


def constructor(chk, repo, wrap):
    fi = repo.func(CQ + "Cosmo.__init__")
    chk.analysed_unit(fi.qualname)
    cfg = cfg_of(fi)
    view = cfg.view()
    env = {}
    for n in cfg.nodes:
        if n.kind == "stmt" and isinstance(n.ast, ast.Assign):
            env.setdefault(norm(n.ast.targets[0]), []).append((norm(n.ast.value), rules.controlling_tests(view, n)))
    chk.ob("R11.5", "Cosmo.__init__::h-overrides-H0", ("100.0 * h", [("h is not None", "T")]) in env.get("H0", []), fi.where(), "H0 = 100 h when h is given (%s)" % env.get("H0"))
    chk.ob("R11.5", "Cosmo.__init__::hubble-distance", [v for v, _ in env.get("DH", [])] == ["_CLIGHT / H0"], fi.where(), "D_H = c / H0")
    h0n = [n for n in cfg.nodes if n.kind == "stmt" and isinstance(n.ast, ast.Assign) and norm(n.ast.targets[0]) == "H0"]
    dhn = [n for n in cfg.nodes if n.kind == "stmt" and isinstance(n.ast, ast.Assign) and norm(n.ast.targets[0]) == "DH"]
    chk.ob("R11.5", "Cosmo.__init__::override-before-DH", bool(h0n) and bool(dhn) and view.reaches(h0n[0], dhn[0]), fi.where(), "the override happens before D_H is formed")
    c = [v for v, _ in env.get("self._cosmo", [])]
    chk.ob("R11.5", "Cosmo.__init__::extension-arguments", c == ["_cosmolib.cosmo(DH, flat, omega_m, omega_l, omega_k)"], fi.where(), "the extension object gets (D_H, flat, omega_m, omega_l, omega_k) after normalisation (%s)" % c)
    init = wrap.get("PyCosmoObject_init")
    fmt, names = parse_tuple_binding(init) if init else (None, [])
    chk.ob("R11.5", "PyCosmoObject_init::parse-format", parse_tuple_format(fmt or "") == ["d", "i", "d", "d", "d"] and names == ["DH", "flat", "omega_m", "omega_l", "omega_k"], "esutil/cosmology/cosmolib_pywrap.c", "format %r binds %s" % (fmt, names))
    calls = [cfront.render(x) for x in cfront.calls_in(init) if cfront.callee_name(x) == "cosmo_new"] if init else []
    chk.ob("R11.5", "PyCosmoObject_init::constructs-with-same-order", calls == ["cosmo_new(DH, flat, omega_m, omega_l, omega_k)"], "esutil/cosmology/cosmolib_pywrap.c", "cosmo_new receives the parsed values in order")
    ex = [(v, t) for v, t in env.get("(flat, omega_m, omega_l, omega_k)", [])]
    chk.ob("R11.5", "Cosmo.__init__::normaliser-roles", [v for v, _ in ex] == ["self.extract_parms(omega_m, omega_l, omega_k, flat)"], fi.where(), "extract_parms(omega_m, omega_l, omega_k, flat) -> (flat, omega_m, omega_l, omega_k)")
    # constants: speed of light in km/s in Python and in the C header
    mod = repo.module("esutil.cosmology.cosmology")
    cl = norm(mod.consts.get("_CLIGHT", ast.Constant(value=None)))
    chk.ob("R11.1", "constants::speed-of-light-python", abs(float(cl) - 299792.458) < 1e-9 if cl not in ("None",) else False, "esutil/cosmology/cosmology.py", "_CLIGHT = 299792.458 km/s (found %s)" % cl)
    import re
    hdr = open(__import__("os").path.join(__import__("vcheck.core", fromlist=["REPO"]).REPO, "esutil/cosmology/cosmolib.h")).read()
    m = re.search(r"#define\s+CLIGHT\s+([0-9.eE+-]+)", hdr)
    chk.ob("R11.1", "constants::speed-of-light-c-equals-python", bool(m) and cl != "None" and abs(float(m.group(1)) - float(cl)) < 1e-9, "esutil/cosmology/cosmolib.h", "C CLIGHT %s equals Python _CLIGHT %s" % (m.group(1) if m else None, cl))
    m5 = re.search(r"#define\s+NPTS\s+(\d+)", hdr)
    m10 = re.search(r"#define\s+VNPTS\s+(\d+)", hdr)
    chk.ob("R11.2", "constants::documented-orders", bool(m5) and bool(m10) and m5.group(1) == "5" and m10.group(1) == "10", "esutil/cosmology/cosmolib.h", "NPTS = 5, VNPTS = 10 (documented fixed orders)")


def copy_pickle(chk, repo):
    fi = repo.func(CQ + "Cosmo.copy")
    chk.analysed_unit(fi.qualname)
    rets = [x for x in walk_no_nested(fi.node) if isinstance(x, ast.Return)]
    ok = len(rets) == 1 and isinstance(rets[0].value, ast.Call) and call_name(rets[0].value) == "Cosmo"
    kws = {k.arg: norm(k.value) for k in rets[0].value.keywords} if ok else {}
    want = {"H0": "self._H0", "flat": "self._flat", "omega_m": "self._omega_m", "omega_l": "self._omega_l", "omega_k": "self._omega_k"}
    chk.ob("R11.6", "Cosmo.copy::forwards-stored-inputs-by-keyword", kws == want, fi.where(), "copy() rebuilds from the stored inputs by keyword (%s)" % kws)
    init = repo.func(CQ + "Cosmo.__init__")
    st = {norm(a.targets[0]): norm(a.value) for a in walk_no_nested(init.node) if isinstance(a, ast.Assign) and norm(a.targets[0]).startswith("self._")}
    okk = st.get("self._flat") == "flat" and st.get("self._omega_m") == "omega_m" and st.get("self._omega_l") == "omega_l" and st.get("self._omega_k") == "omega_k" and st.get("self._H0") == "H0"
    chk.ob("R11.6", "Cosmo.__init__::inputs-stored-as-given", okk, init.where(), "the inputs are stored as given (before normalisation) and H0 after the h override (%s)" % {k: v for k, v in st.items() if k != "self._cosmo"})
    # the stored raw inputs are saved before the local names are re-bound by the normaliser
    cfg = cfg_of(init)
    view = cfg.view()
    stores = [n for n in cfg.nodes if n.kind == "stmt" and isinstance(n.ast, ast.Assign) and norm(n.ast.targets[0]) in ("self._flat", "self._omega_m", "self._omega_l", "self._omega_k")]
    ext = [n for n in cfg.nodes if n.kind == "stmt" and isinstance(n.ast, ast.Assign) and "extract_parms" in norm(n.ast.value)]
    chk.ob("R11.6", "Cosmo.__init__::raw-inputs-saved-before-normalisation", bool(ext) and len(stores) == 4 and all(view.dominates(s, ext[0]) for s in stores), init.where(), "raw inputs are saved before extract_parms re-binds the local names")
    for m in ("__copy__", "__deepcopy__"):
        f = repo.func(CQ + "Cosmo." + m)
        r = [norm(x.value) for x in walk_no_nested(f.node) if isinstance(x, ast.Return)]
        chk.ob("R11.6", "Cosmo.%s::delegates-to-copy" % m, r == ["self.copy()"], f.where(), "%s is copy()" % m)
    red = repo.func(CQ + "Cosmo.__reduce__")
    r = [norm(x.value) for x in walk_no_nested(red.node) if isinstance(x, ast.Return)]
    chk.ob("R11.6", "Cosmo.__reduce__::class-and-pars", r == ["(self.__class__, self._pars)"], red.where(), "pickling re-creates the class from _pars")
    pars = repo.func(CQ + "Cosmo._pars")
    pr = [x for x in walk_no_nested(pars.node) if isinstance(x, ast.Return)]
    elts = [norm(e) for e in pr[0].value.elts] if pr and isinstance(pr[0].value, ast.Tuple) else []
    pos = [p for p in init.params if p != "self"]
    want = {"H0": "self.H0()", "h": "None", "flat": "bool(self.flat())", "omega_m": "self.omega_m()", "omega_l": "self.omega_l()", "omega_k": "self.omega_k()"}
    chk.ob("R11.6", "Cosmo._pars::constructor-positional-order", elts == [want[p] for p in pos], pars.where(), "the pickling tuple follows the constructor's positional order %s (found %s)" % (pos, elts))

# --------------------------------------------------------------------------
# object state: the constructor, the parameter accessors and the four ways of duplicating an object (copy(), __copy__,
# __deepcopy__, __reduce__) are executed by the abstract interpreter on SYMBOLIC constructor arguments (H0, h, omega_m, omega_l
# symbols; omega_k None / zero / a non-zero symbol; flat True / False) with the attributes of `self` tracked, so the rules are
# stated on what the object ends up holding -- the arguments the extension object was built with and what H0() reports --
# however the statements of the constructor are ordered or split into helpers.
# --------------------------------------------------------------------------
EXT_PARAMS = ("DH", "flat", "omega_m", "omega_l", "omega_k")


def _is_property(fi):
    return any(norm(d) in ("property", "builtins.property", "functools.cached_property", "cached_property") for d in fi.node.decorator_list)


class _ObjInterp(_Interp):
    """_Interp with objects: `self.x = v` is recorded on the object, `self.x` reads it back, methods and properties run on the
    object they were looked up on, calling the class constructs a new object through __init__, the extension constructor
    yields an object that remembers its arguments and whose parameter accessors return them (that the accessors and the C
    constructor do so is what R11.3 ::accessor, R11.5 PyCosmoObject_init and R11.1 cosmo_new::parameters-stored establish)."""

    def new_object(self, clsname):
        mod, cls = clsname.rsplit(".", 1)
        return _Tag("self", cls=cls, mod=mod, attrs={})

    def construct(self, clsname, pos, kw, depth):
        init = self.repo.funcs.get(clsname + ".__init__")
        if init is None:
            raise _Unsup("class %s has no __init__ of its own" % clsname)
        o = self.new_object(clsname)
        self.invoke(init, pos, kw, depth + 1, this=o)
        return o

    def method(self, o, name, pos=(), depth=0):
        m = self.repo.funcs.get("%s.%s.%s" % (o.mod, o.cls, name))
        if m is None:
            raise _Unsup("the class has no method %s" % name)
        if _is_property(m):
            return self.invoke(m, [], {}, depth + 1, this=o)
        return self.invoke(m, list(pos), {}, depth + 1, this=o)

    def explore(self, thunk):
        out, todo = [], [{}]
        while todo:
            self.dec = todo.pop()
            self.calls = []
            try:
                out.append({"kind": "return", "value": thunk(), "dec": dict(self.dec)})
            except _Raised as r:
                out.append({"kind": "raise", "value": r.what, "dec": dict(self.dec)})
            except _Need as n:
                if len(self.dec) >= self.max_forks:
                    raise _Unsup("too many undecided tests")
                todo.append(dict(self.dec, **{n.key: True}))
                todo.append(dict(self.dec, **{n.key: False}))
        return out

    def invoke(self, fi, pos, kw, depth, this=None):
        if depth > 6:
            raise _Unsup("call nesting too deep")
        params = list(fi.params)
        if any(p_.startswith("*") for p_ in params):
            raise _Unsup("variadic callee %s" % fi.name)
        env = {}
        if fi.cls and params and not any(norm(d) in ("staticmethod", "classmethod") for d in fi.node.decorator_list):
            if this is None:
                raise _Unsup("method %s called without an object" % fi.name)
            env[params[0]] = this
            params = params[1:]
        if len(pos) > len(params):
            raise _Unsup("too many arguments for %s" % fi.name)
        for p_, v in zip(params, pos):
            env[p_] = v
        for k, v in kw.items():
            if k not in params or k in env:
                raise _Unsup("keyword %s of %s" % (k, fi.name))
            env[k] = v
        for p_ in params:
            if p_ not in env:
                if p_ not in fi.defaults:
                    raise _Unsup("missing argument %s of %s" % (p_, fi.name))
                env[p_] = self.ev(fi.defaults[p_], {}, fi, depth)
        try:
            self.block(fi.node.body, env, fi, depth)
        except _Return as r:
            return r.value
        return None

    def bind(self, t, v, env):
        if isinstance(t, ast.Attribute):
            o = env.get(t.value.id) if isinstance(t.value, ast.Name) else None
            if isinstance(o, _Tag) and o.kind == "self" and hasattr(o, "attrs"):
                o.attrs[t.attr] = v
                return
        _Interp.bind(self, t, v, env)

    def ev(self, e, env, fi, depth):
        if isinstance(e, ast.Attribute):
            b = self.ev(e.value, env, fi, depth)
            if isinstance(b, _Tag) and b.kind == "self" and hasattr(b, "attrs"):
                if e.attr == "__class__":
                    return _Tag("global", name="%s.%s" % (b.mod, b.cls))
                if e.attr in b.attrs:
                    return b.attrs[e.attr]
                m = self.repo.funcs.get("%s.%s.%s" % (b.mod, b.cls, e.attr))
                if m is None:
                    raise _Unsup("attribute %s is read before it is set (line %s)" % (e.attr, getattr(e, "lineno", "?")))
                if _is_property(m):
                    return self.invoke(m, [], {}, depth + 1, this=b)
                return _Tag("method", fi=m, obj=b)
            if isinstance(b, _Tag) and b.kind == "extobj":
                return _Tag("extacc", obj=b, name=e.attr)
        return _Interp.ev(self, e, env, fi, depth)

    def call(self, c, env, fi, depth):
        if any(isinstance(a, ast.Starred) for a in c.args) or any(k.arg is None for k in c.keywords):
            raise _Unsup("star arguments in %s" % norm(c))
        f = self.ev(c.func, env, fi, depth)
        if isinstance(f, _Tag) and f.kind in ("method", "global", "extacc"):
            pos = [self.ev(a, env, fi, depth) for a in c.args]
            kw = {k.arg: self.ev(k.value, env, fi, depth) for k in c.keywords}
            if f.kind == "method" and hasattr(f, "obj"):
                return self.invoke(f.fi, pos, kw, depth + 1, this=f.obj)
            if f.kind == "extacc":
                if f.name in EXT_PARAMS and not pos and not kw:
                    return f.obj.args[EXT_PARAMS.index(f.name)]
                return _UNKNOWN
            if f.kind == "global":
                if self.repo.class_of(f.name) is not None:
                    return self.construct(f.name, pos, kw, depth)
                if f.name.split(".")[-2:] == ["_cosmolib", "cosmo"]:
                    if kw or len(pos) != len(EXT_PARAMS):
                        raise _Unsup("extension constructor called as %s" % norm(c))
                    return _Tag("extobj", args=tuple(pos))
                if f.name in ("copy.deepcopy", "copy.copy") and pos and (pos[0] is None or isinstance(pos[0], (bool, int, float, str, sp.Basic))):
                    return pos[0]
                if f.name in ("float", "numpy.float64", "numpy.double") and len(pos) == 1 and not kw and isinstance(pos[0], sp.Basic):
                    return pos[0]
        elif isinstance(c.func, ast.Name) and c.func.id == "float" and "float" not in env and len(c.args) == 1 and not c.keywords:
            v = self.ev(c.args[0], env, fi, depth)
            if isinstance(v, sp.Basic):
                return v
        return _Interp.call(self, c, env, fi, depth)


def _same3(a, b):
    """True / False / None (one side is not a value the interpreter knows): equal as values"""
    if isinstance(a, (_Tag, _Arg)) or isinstance(b, (_Tag, _Arg)):
        return None
    if isinstance(a, bool) or isinstance(b, bool) or a is None or b is None:
        return a is b
    try:
        return bool(sp.simplify(sp.sympify(a) - sp.sympify(b)) == 0)
    except (sp.SympifyError, TypeError):
        return None


def object_state(chk, repo):
    CLS = CQ + "Cosmo"
    init = repo.func(CLS + ".__init__")
    W = init.where()
    mod = repo.module("esutil.cosmology.cosmology")
    try:
        clight = float(norm(mod.consts.get("_CLIGHT", ast.Constant(value=None))))
    except ValueError:
        clight = None
    H0s, hs = sp.Symbol("H0", positive=True), sp.Symbol("h", positive=True)
    M, Lm = sp.Symbol("omega_m", real=True), sp.Symbol("omega_l", real=True)
    K = sp.Symbol("omega_k", real=True, nonzero=True)

    def observe(it, o):
        ext = [v for v in o.attrs.values() if isinstance(v, _Tag) and v.kind == "extobj"]
        if len(ext) != 1:
            raise _Unsup("the constructed object holds %d extension objects" % len(ext))
        return {"ext": ext[0].args, "H0": it.method(o, "H0")}

    routes = {
        "copy()": lambda it, o: it.method(o, "copy"),
        "copy.copy": lambda it, o: it.method(o, "__copy__"),
        "copy.deepcopy": lambda it, o: it.method(o, "__deepcopy__", [_UNKNOWN]),
        "pickle": None,
    }

    def unpickle(it, o):
        red = it.method(o, "__reduce__")
        if not (isinstance(red, tuple) and len(red) >= 2 and isinstance(red[0], _Tag) and red[0].kind == "global" and isinstance(red[1], tuple)
                and repo.class_of(red[0].name) is not None):
            raise _Unsup("__reduce__ does not return (class, argument tuple): %s" % (red,))
        return it.construct(red[0].name, list(red[1]), {}, 0)

    routes["pickle"] = unpickle

    for hname, hkw in (("H0", {"H0": H0s}), ("h", {"h": hs}), ("H0+h", {"H0": H0s, "h": hs})):
        H0_want = 100 * hs if "h" in hkw else H0s
        for flat_in, kname, kval in ((True, "None", None), (False, "None", None), (True, "nonzero", K), (False, "nonzero", K), (False, "zero", 0.0)):
            case = "%s,flat=%s,omega_k=%s" % (hname, flat_in, kname)
            kwargs = dict(hkw, flat=flat_in, omega_m=M, omega_l=Lm, omega_k=kval)
            want = (False, M, Lm, K) if kname == "nonzero" else (True, M, 1 - M, 0.0)
            keys = ["state::hubble-distance[%s]" % case, "state::H0-accessor-reports-constant-in-use[%s]" % case, "state::normalised-parameters-reach-extension[%s]" % case]
            it = _ObjInterp(repo)
            try:
                outs = it.explore(lambda: observe(it, it.construct(CLS, [], dict(kwargs), 0)))
                if clight is None:
                    raise _Unsup("_CLIGHT is not a literal")
                if not outs or any(o["kind"] != "return" for o in outs):
                    raise _Unsup("the constructor raises for valid arguments on some path: %s" % [(o["kind"], o["value"]) for o in outs])
            except _Unsup as e:
                for k in keys:
                    chk.ob("R11.6", k, None, W, "the constructor / accessors use a construct outside the interpreted subset (%s)" % e)
                outs = None
            if outs is not None:
                obs = [o["value"] for o in outs]
                dh = [x["ext"][0] for x in obs]
                chk.ob("R11.6", keys[0], _all3(_same3(d, clight / H0_want) for d in dh), W,
                       "Cosmo(%s): the extension object is built with D_H = c/H0, H0 = %s (h overrides H0) (found D_H = %s)" % (case, H0_want, dh))
                chk.ob("R11.6", keys[1], _all3(_same3(x["H0"] * x["ext"][0] if isinstance(x["H0"], (int, float, sp.Basic)) and isinstance(x["ext"][0], (int, float, sp.Basic)) else _UNKNOWN, clight) for x in obs), W,
                       "Cosmo(%s): H0() reports the Hubble constant the distances are computed with, H0() * D_H = c (found H0() = %s while D_H = %s)" % (case, [x["H0"] for x in obs], dh))
                chk.ob("R11.6", keys[2], _all3(_same3(a, b) for x in obs for a, b in zip(x["ext"][1:], want)), W,
                       "Cosmo(%s): the extension object gets the normalised (flat, omega_m, omega_l, omega_k) = %s (found %s)" % (case, want, [x["ext"][1:] for x in obs]))
            for rname, route in routes.items():
                key = "state::%s-rebuilds-same-cosmology[%s]" % (rname, case)
                it = _ObjInterp(repo)

                def both():
                    o = it.construct(CLS, [], dict(kwargs), 0)
                    n = route(it, o)
                    if not (isinstance(n, _Tag) and n.kind == "self" and hasattr(n, "attrs")) or n is o:
                        raise _Unsup("%s does not return a newly constructed object (%s)" % (rname, n))
                    return observe(it, o), observe(it, n)

                try:
                    outs = it.explore(both)
                except _Unsup as e:
                    chk.ob("R11.6", key, None, W, "the code reached through %s uses a construct outside the interpreted subset (%s)" % (rname, e))
                    continue
                if not outs or any(o["kind"] != "return" for o in outs):
                    chk.ob("R11.6", key, None, W, "construction or %s raises on some path: %s" % (rname, [(o["kind"], o["value"]) for o in outs]))
                    continue
                res = []
                for o in outs:
                    a, b = o["value"]
                    res += [_same3(x, y) for x, y in zip(a["ext"], b["ext"])] + [_same3(a["H0"], b["H0"])]
                chk.ob("R11.6", key, _all3(res), W,
                       "Cosmo(%s): the object obtained through %s has the same H0() and builds its extension object from the same (D_H, flat, omega_m, omega_l, omega_k) (original %s, duplicate %s)"
                       % (case, rname, [o["value"][0] for o in outs], [o["value"][1] for o in outs]))


def distmod(chk, repo):
    fi = repo.func(CQ + "Cosmo.distmod")
    chk.analysed_unit(fi.qualname)
    se = symx.SymEval(repo, opaque_tests=False)
    z = sp.Symbol("z")
    env = symx.Env(se, fi, fi.module, {"z": z}, {})
    env.vars["self"] = symx.Opaque("self")
    DL = sp.Symbol("DL")
    stmts = [s for s in fi.node.body if isinstance(s, ast.Assign) and norm(s.targets[0]) != "dmpc"]
    first = [s for s in fi.node.body if isinstance(s, ast.Assign) and norm(s.targets[0]) == "dmpc"]
    chk.ob("R11.7", "distmod::luminosity-distance-from-zero", len(first) == 1 and norm(first[0].value) == "self.Dl(0.0, z)", fi.where(), "uses D_L(0, z) in Mpc")
    env.vars["dmpc"] = DL
    env.exec_body(stmts, sp.true)
    got = env.vars.get("dm")
    ok = got is not None and symx.equal(got, 5 * sp.log(DL * 10 ** 6 / 10, 10))[0]
    chk.ob("R11.7", "distmod::formula", bool(ok), fi.where(), "mu = 5 log10(D_L[pc]/10 pc) (found %s)" % got)
