"""C06 -- array matching is sound and complete; de-duplication keeps one per value.

E10 index-space typing for the two argsort scans (unique, rem_dup) and
dominance / provenance rules for match.
"""
import ast

from vcheck import rules
from vcheck.core import PyRepo, AnalysisError, call_name, dotted_name, kwarg, norm, walk_no_nested
from vcheck.rules import cfg_of

MANIFEST = dict(
    text="Structural rule checking (not a behavioural proof). De-duplication scans (unique, rem_dup): a small index-space type system "
         "(Idx = index into the input, Pos = position in sorted order; s = a.argsort() maps Pos to Idx, a[s] is Pos-indexed) decides that "
         "every subscript is applied in the matching space, that a scan starting at sorted position 1 seeds its running value and its "
         "slot 0 from sorted position 0 of the same space, that all stores into the kept-index array agree on one space and that the "
         "returned indices are in Idx space. match: a uniqueness guard that raises dominates the search; the searchsorted result is "
         "clamped (== size -> size-1) before it subscripts the first array or its sorter on every path where the clamp can matter; "
         "returned pairs derive from where(<first array at the found position> == <second array>) (soundness and one pair per element of "
         "the second array, ascending); the unsorted branch maps through the sorter; match_multi delegates to match.",
    note="Not decided: completeness for all arrays (numpy.searchsorted/argsort/unique semantics trusted); NaN handling.",
    technique="static analysis: index-space typing (small type system over AST), CFG dominance and def-use provenance",
)

NU = "esutil.numpy_util."


# rules that keep their verdict however the code is laid out (decided by term equality, effect analysis or dominance over
# resolved calls); every other rule of this check is a template rule (vcheck.core.Check.obt)
SEMANTIC = ('R06.1', 'R06.2')


def run(chk):
    repo = PyRepo()
    chk.set_templates(repo, semantic=SEMANTIC)
    chk.explanation = MANIFEST["text"]
    chk.trusted = ["numpy.argsort / searchsorted / unique / where semantics", "CPython ast"]
    chk.floor = 30
    for name, arrs in (("unique", ["arr"]), ("rem_dup", ["arr", "flag"])):
        fi = repo.func(NU + name)
        chk.analysed_unit(fi.qualname)
        index_spaces(chk, fi, arrs)
    match_rules(chk, repo)


# ---------------------------------------------------------------------------
class Spaces:
    def __init__(self, fi, origs):
        self.fi = fi
        self.fn = fi.node
        self.origs = set(origs)     # caller arrays (Idx-indexed)
        self.sorter = None          # name of argsort result
        self.pos_arrays = set()     # arrays indexed by sorted position (a[s])
        self.pos_vars = set()
        self.idx_vars = set()
        self.holds = {}             # array name -> 'Idx' | 'Pos' | 'mixed'
        self._infer()

    def _infer(self):
        fn = self.fn
        assigns = sorted([x for x in walk_no_nested(fn) if isinstance(x, ast.Assign)], key=lambda x: x.lineno)
        for a in assigns:
            v = a.value
            if isinstance(v, ast.Call) and call_name(v) == "argsort" and isinstance(a.targets[0], ast.Name):
                recv = norm(v.func.value) if isinstance(v.func, ast.Attribute) and dotted_name(v.func.value) not in ("np", "numpy") else (norm(v.args[0]) if v.args else "")
                if recv in self.origs and self.sorter is None:
                    self.sorter = a.targets[0].id
        s = self.sorter
        if s is None:
            return
        for a in assigns:
            v = a.value
            if isinstance(v, ast.Subscript) and isinstance(v.value, ast.Name) and v.value.id in self.origs and norm(v.slice) == s \
                    and isinstance(a.targets[0], ast.Name):
                self.pos_arrays.add(a.targets[0].id)
        # position variables: loop counters / names used to subscript the sorter or a Pos array
        for x in walk_no_nested(fn):
            if isinstance(x, ast.Subscript) and isinstance(x.value, ast.Name) and (x.value.id == s or x.value.id in self.pos_arrays):
                if isinstance(x.slice, ast.Name):
                    self.pos_vars.add(x.slice.id)
        for a in assigns:
            v = a.value
            if isinstance(a.targets[0], ast.Name) and isinstance(v, ast.Subscript) and isinstance(v.value, ast.Name) and v.value.id == s \
                    and isinstance(v.slice, ast.Name) and v.slice.id in self.pos_vars:
                self.idx_vars.add(a.targets[0].id)
        # what do locally allocated index arrays hold
        for a in assigns:
            t = a.targets[0]
            if isinstance(t, ast.Subscript) and isinstance(t.value, ast.Name) and t.value.id not in self.origs and t.value.id != s \
                    and t.value.id not in self.pos_arrays:
                sp = self.space_of_value(a.value)
                if sp is not None:
                    cur = self.holds.get(t.value.id)
                    self.holds[t.value.id] = sp if cur in (None, sp) else "mixed"

    def space_of_value(self, v):
        if isinstance(v, ast.Name):
            if v.id in self.idx_vars:
                return "Idx"
            if v.id in self.pos_vars:
                return "Pos"
        if isinstance(v, ast.Subscript) and isinstance(v.value, ast.Name) and v.value.id == self.sorter:
            return "Idx"
        return None

    def index_space(self, e):
        """space of an index expression: 'Idx', 'Pos', 'lit', 'slice', None(unknown)"""
        if isinstance(e, ast.Constant) and isinstance(e.value, int):
            return "lit"
        if isinstance(e, ast.UnaryOp) and isinstance(e.operand, ast.Constant):
            return "lit"
        if isinstance(e, ast.Slice):
            return "slice"
        if isinstance(e, ast.Name):
            if e.id in self.idx_vars:
                return "Idx"
            if e.id in self.pos_vars:
                return "Pos"
            if e.id == self.sorter:
                return "Idx"          # whole sorter array: Idx values
            if e.id in self.holds:
                return self.holds[e.id]
        if isinstance(e, ast.Subscript) and isinstance(e.value, ast.Name):
            if e.value.id == self.sorter:
                return "Idx"
            if e.value.id in self.holds:
                isp = self.index_space(e.slice)
                return self.holds[e.value.id]
        if isinstance(e, ast.BinOp):
            return None
        return None


def index_spaces(chk, fi, origs):
    q = fi.qualname
    sp = Spaces(fi, origs)
    chk.ob("R06.1", q + "::sorter-found", sp.sorter is not None, fi.where(), "the scan is driven by an argsort of the input (sorter `%s`)" % sp.sorter)
    if sp.sorter is None:
        return
    s = sp.sorter
    fn = fi.node
    # the scan start: loop counter initialised to 1 (while) or range(1, n)
    starts_at_1 = False
    for x in walk_no_nested(fn):
        if isinstance(x, ast.For) and isinstance(x.iter, ast.Call) and call_name(x.iter) == "range" and len(x.iter.args) >= 2 \
                and norm(x.iter.args[0]) == "1" and isinstance(x.target, ast.Name) and x.target.id in sp.pos_vars:
            starts_at_1 = True
        if isinstance(x, ast.Assign) and isinstance(x.targets[0], ast.Name) and x.targets[0].id in sp.pos_vars and norm(x.value) == "1":
            starts_at_1 = True
    chk.ob("R06.1", q + "::scan-starts-at-sorted-position-1", starts_at_1, fi.where(), "the scan visits sorted positions 1..n-1 (position 0 is the seed)")
    # every subscript is applied in the matching space
    n_sub = 0
    for x in walk_no_nested(fn):
        if not (isinstance(x, ast.Subscript) and isinstance(x.value, ast.Name)):
            continue
        base = x.value.id
        isp = sp.index_space(x.slice)
        if base in sp.origs:
            n_sub += 1
            ok = isp in ("Idx",)
            why = {"lit": "a literal index into the *unsorted* input is not the element at sorted position %s: the scan compares against the wrong seed "
                          "unless the input happens to start with its minimum" % norm(x.slice),
                   "Pos": "a sorted position is used to index the unsorted input", None: "index of unknown space", "slice": "slice",
                   "mixed": "index array holds a mixture of spaces"}.get(isp, "")
            chk.ob("R06.1", "%s::input-indexed-in-Idx-space::%s" % (q, norm(x)), ok, fi.where(x),
                   "`%s`: the input array must be indexed by an input index (s[pos] or an array of such)%s" % (norm(x), "" if ok else " -- " + why))
        elif base == s or base in sp.pos_arrays:
            n_sub += 1
            ok = isp in ("Pos", "lit", "slice")
            chk.ob("R06.1", "%s::sorted-indexed-in-Pos-space::%s" % (q, norm(x)), ok, fi.where(x),
                   "`%s`: sorted-order arrays are indexed by sorted positions (index space: %s)" % (norm(x), isp))
    chk.ob("R06.1", q + "::subscripts-typed", n_sub >= 4, fi.where(), "%d subscripts of the input / sorted arrays were typed" % n_sub)
    # the kept-index array: one space; slot 0 seeded from sorted position 0 of that space
    for arr, space in sp.holds.items():
        chk.ob("R06.1", "%s::kept-array-single-space::%s" % (q, arr), space in ("Idx", "Pos"), fi.where(),
               "all stores into `%s` are in one index space (%s)" % (arr, space))
        alloc = [a for a in walk_no_nested(fn) if isinstance(a, ast.Assign) and norm(a.targets[0]) == arr and isinstance(a.value, ast.Call)
                 and call_name(a.value) in ("zeros", "empty")]
        slot0 = [a for a in walk_no_nested(fn) if isinstance(a, ast.Assign) and norm(a.targets[0]) == arr + "[0]"]
        if space == "Idx":
            ok = any(norm(a.value) == "%s[0]" % s for a in slot0)
            chk.ob("R06.1", "%s::slot0-seeded-from-sorted-position-0::%s" % (q, arr), ok, fi.where(alloc[0]) if alloc else fi.where(),
                   "`%s` holds input indices, so its slot 0 must be %s[0] (the index of the smallest element); a zero-initialised slot names input "
                   "index 0, which is only right when the first element is the minimum" % (arr, s))
        elif space == "Pos":
            ok = (alloc and call_name(alloc[0].value) == "zeros" and not slot0) or any(norm(a.value) == "0" for a in slot0)
            chk.ob("R06.1", "%s::slot0-seeded-from-sorted-position-0::%s" % (q, arr), bool(ok), fi.where(),
                   "`%s` holds sorted positions; slot 0 is position 0 (zero initialised)" % arr)
    # the running value is seeded from sorted position 0
    seeds = [a for a in walk_no_nested(fn) if isinstance(a, ast.Assign) and isinstance(a.targets[0], ast.Name) and isinstance(a.value, ast.Subscript)
             and isinstance(a.value.value, ast.Name) and (a.value.value.id in sp.origs or a.value.value.id in sp.pos_arrays)
             and isinstance(a.value.slice, (ast.Constant, ast.Subscript))]
    for a in seeds:
        v = a.value
        base = v.value.id
        ok = (base in sp.pos_arrays and norm(v.slice) == "0") or (base in sp.origs and norm(v.slice) == "%s[0]" % s)
        chk.ob("R06.1", "%s::seed-from-sorted-position-0::%s" % (q, norm(a.targets[0])), ok, fi.where(a),
               "the running %s is seeded from sorted position 0 (`%s`)" % (norm(a.targets[0]), norm(a)))
    # returned indices are in Idx space
    for r in [x for x in walk_no_nested(fn) if isinstance(x, ast.Return) and x.value is not None]:
        vals = r.value.elts if isinstance(r.value, ast.Tuple) else [r.value]
        for v in vals:
            if isinstance(v, ast.Name) and v.id in sp.holds:
                # may have been re-bound (keep = keep[0:nkeep+1]); space unchanged
                chk.ob("R06.1", "%s::returns-Idx::%s" % (q, v.id), sp.holds[v.id] == "Idx", fi.where(r),
                       "returned index array `%s` holds input indices (%s)" % (v.id, sp.holds[v.id]))
            elif isinstance(v, ast.Name) and v.id == s:
                # s re-bound to s[keep] with keep in Pos space
                reb = [a for a in walk_no_nested(fn) if isinstance(a, ast.Assign) and norm(a.targets[0]) == s and isinstance(a.value, ast.Subscript)
                       and norm(a.value.value) == s]
                ok = len(reb) == 1 and isinstance(reb[0].value.slice, ast.Name) and sp.holds.get(reb[0].value.slice.id) == "Pos"
                chk.ob("R06.1", "%s::returns-Idx::%s" % (q, s), ok, fi.where(r), "kept sorted positions are mapped back through the sorter before being returned")
    # scan logic: new run <=> value differs from running value; counter advances and slot written together
    cfg = cfg_of(fi)
    view = cfg.view()
    for arr, space in sp.holds.items():
        stores = [n for n in cfg.nodes if n.kind == "stmt" and isinstance(n.ast, ast.Assign) and isinstance(n.ast.targets[0], ast.Subscript)
                  and norm(n.ast.targets[0].value) == arr and not isinstance(n.ast.targets[0].slice, ast.Constant)]
        for n in stores:
            ts = rules.controlling_tests(view, n)
            neq = [t for t, lab in ts if ("!=" in t and lab == "T") or ("==" in t and lab == "F")]
            gt = [t for t, lab in ts if ">" in t and lab == "T"]
            chk.ob("R06.1", "%s::store-guard::%s" % (q, norm(n.ast)), bool(neq) or bool(gt), fi.where(n.ast),
                   "`%s` happens when the value changes (new run) or a larger flag is seen (guards %s)" % (norm(n.ast), ts))
    if fi.name == "rem_dup":
        # largest-flag selection: within a run, replace when flag > current best; at a new run reset best
        fl = [n for n in cfg.nodes if n.kind == "branch" and ">" in norm(n.ast.test) and "flag" in norm(n.ast.test)]
        ok = len(fl) == 1 and isinstance(fl[0].ast.test.ops[0], ast.Gt)
        chk.ob("R06.1", q + "::largest-flag-wins", ok, fi.where(), "within a run the kept position is replaced only by a strictly larger flag")
        if ok:
            # running maximum: in the arm taken for a larger flag, the remembered flag and the kept position are updated together
            t = fl[0].ast.test
            cur, best = norm(t.left), norm(t.comparators[0])
            arm = [n for n in cfg.nodes if n.kind == "stmt" and any(b.id == fl[0].id and lab == "T" for b, lab in view.controlling_branches(n))]
            upd = any(isinstance(n.ast, ast.Assign) and norm(n.ast.targets[0]) == best and norm(n.ast.value) == cur for n in arm)
            kept = any(isinstance(n.ast, ast.Assign) and isinstance(n.ast.targets[0], ast.Subscript) for n in arm)
            chk.ob("R06.1", q + "::running-maximum-updated-with-kept-position", upd and kept, fi.where(fl[0].ast),
                   "when `%s` holds both the remembered best flag (`%s = %s`) and the kept position are replaced; otherwise a later, smaller flag can still displace the largest one"
                   % (norm(t), best, cur))
        srt = [x for x in walk_no_nested(fn) if isinstance(x, ast.Call) and call_name(x) == "sort" and isinstance(x.func, ast.Attribute)]
        chk.ob("R06.1", q + "::sorts-own-array", all(norm(c.func.value) == s for c in srt), fi.where(), "the final sort is applied to the local index array, not an argument")


# ---------------------------------------------------------------------------
def match_rules(chk, repo):
    fi = repo.func(NU + "match")
    chk.analysed_unit(fi.qualname)
    q = fi.qualname
    fn = fi.node
    cfg = cfg_of(fi)
    view = cfg.view()
    env = {}
    for a in sorted([x for x in walk_no_nested(fn) if isinstance(x, ast.Assign)], key=lambda x: x.lineno):
        for t in a.targets:
            for tt in (t.elts if isinstance(t, ast.Tuple) else [t]):
                env.setdefault(norm(tt), []).append(a)
    a1 = _conv_of(env, fi.params[0])
    a2 = _conv_of(env, fi.params[1])
    chk.ob("R06.2", q + "::scalars-accepted", a1 is not None and a2 is not None, fi.where(), "both inputs pass numpy.atleast_1d (scalars accepted): %s, %s" % (a1, a2))
    if a1 is None or a2 is None:
        return
    # the values compared are the caller's values: after normalisation the two arrays are never re-bound to a converted copy
    # (a dtype conversion truncates strings / wraps integers, and equality of the converted values is not equality of the inputs)
    for nm in (a1, a2):
        extra = []
        for d in env.get(nm, [])[1:]:
            v = d.value
            keep = isinstance(v, ast.Call) and call_name(v) in ("ravel", "reshape", "atleast_1d", "asarray", "asanyarray", "squeeze", "flatten") \
                and not any(k.arg == "dtype" for k in v.keywords) and len(v.args) <= 1
            if not keep:
                extra.append(norm(d)[:80])
        chk.ob("R06.2", q + "::compared-values-are-the-inputs::" + nm, not extra, fi.where(),
               "`%s` keeps the caller's values and type up to the equality test (no conversion in between)%s" % (nm, "" if not extra else ": re-bound by `%s`" % extra[0]))
    # uniqueness guard
    ss = [(n, c) for n in cfg.nodes for c in rules.stmts_calls(n) if call_name(c) == "searchsorted"]
    chk.ob("R06.2", q + "::single-search", len(ss) == 1, fi.where(), "one searchsorted call")
    if len(ss) != 1:
        return
    sn, sc = ss[0]
    guard = None
    for n in rules.raise_nodes(cfg):
        for t, lab in rules.controlling_tests(view, n):
            tt = t.replace(" ", "")
            for u, defs in env.items():
                if any(isinstance(d.value, ast.Call) and call_name(d.value) == "unique" and d.value.args and norm(d.value.args[0]) == a1 for d in defs):
                    if tt in ("%s.size!=%s.size" % (u, a1), "%s.size!=%s.size" % (a1, u), "%s.size<%s.size" % (u, a1)) and lab == "T":
                        guard = n
    chk.ob("R06.2", q + "::uniqueness-guard", guard is not None, fi.where(), "a first array with repeated values is rejected (unique(a1).size != a1.size -> raise)")
    if guard is not None:
        b = view.controlling_branches(guard)[0][0]
        chk.ob("R06.2", q + "::guard-dominates-search", view.dominates(b, sn), fi.where(sn.ast), "the uniqueness test dominates the search")
    # search arguments
    sorter = kwarg(sc, "sorter")
    ok = len(sc.args) >= 2 and norm(sc.args[0]) == a1 and norm(sc.args[1]) == a2
    chk.ob("R06.2", q + "::search-roles", ok, fi.where(sc), "searchsorted(first array, second array, ...): %s" % norm(sc))
    side = kwarg(sc, "side")
    chk.ob("R06.2", q + "::search-side-left", side is None or norm(side) == "'left'", fi.where(sc), "left-side search (an equal element is found at its own position)")
    st = norm(sorter) if sorter is not None else None
    # sorter provenance under presorted False/True
    for pres in (False, True):
        v = cfg.specialise(flags={"presorted": pres})
        IN, _ = v.reaching_defs()
        vals = set()
        if st is not None:
            for d in IN[sn.id].get(st, ()):
                dn = cfg.node(d)
                vals.add(norm(dn.ast.value) if isinstance(dn.ast, ast.Assign) else "?")
        want = {"np.argsort(%s)" % a1, "%s.argsort()" % a1} if not pres else {"None"}
        chk.ob("R06.2", "%s::sorter[presorted=%s]" % (q, pres), (st is not None and vals <= want and bool(vals)) or (st is None and pres), fi.where(sc),
               "presorted=%s: sorter is %s" % (pres, sorted(vals)))
    res = [norm(t) for a in [sn.ast] if isinstance(a, ast.Assign) for t in a.targets]
    if not res:
        raise AnalysisError("searchsorted result is not bound to a name")
    r = res[0]
    # clamp: r[bad] = a1.size - 1 with bad = where(r == a1.size)
    clamps = [n for n in cfg.nodes if n.kind == "stmt" and isinstance(n.ast, ast.Assign) and isinstance(n.ast.targets[0], ast.Subscript)
              and norm(n.ast.targets[0].value) == r]
    okc = False
    cl = None
    for n in clamps:
        idx = norm(n.ast.targets[0].slice)
        val = norm(n.ast.value).replace(" ", "")
        defs = env.get(idx, [])
        cond_ok = any(isinstance(d.value, ast.Call) and call_name(d.value) == "where" and norm(d.value.args[0]).replace(" ", "") in
                      ("%s==%s.size" % (r, a1), "%s>=%s.size" % (r, a1)) for d in defs)
        if cond_ok and val == "%s.size-1" % a1:
            okc = True
            cl = n
    chk.ob("R06.2", q + "::high-end-clamp", okc, fi.where(), "positions equal to the array size are clamped to size-1 before use")
    if cl is not None:
        ts = rules.controlling_tests(view, cl, skip_reject_guards=True)
        okg = all((("is_string" in t or ".max()" in t) and lab == "T") for t, lab in ts)
        # the guard may only skip the clamp when no element of a2 exceeds max(a1)
        for t, lab in ts:
            tt = t.replace(" ", "")
            okg = okg and (tt in ("is_stringor%s.max()>%s.max()" % (a2, a1), "%s.max()>%s.max()oris_string" % (a2, a1), "%s.max()>%s.max()" % (a2, a1),
                                  "%s.max()>=%s.max()" % (a2, a1), "is_stringor%s.max()>=%s.max()" % (a2, a1)))
        chk.ob("R06.2", q + "::clamp-guard", okg, fi.where(cl.ast),
               "the clamp is skipped only when no element of the second array can exceed the first array's maximum (guard %s)" % ts)
        # uses of r as subscript of a1 / sorter come after the clamp construct
        cb = view.controlling_branches(cl)
        anchor = cb[0][0] if cb else cl
        for n in cfg.nodes:
            if n.ast is None or n is cl:
                continue
            roots = [n.ast.test] if n.kind == "branch" else ([n.ast] if n.kind in ("stmt", "return") else [])
            for root in roots:
                for x in ast.walk(root):
                    if isinstance(x, ast.Subscript) and norm(x.value) in (a1, st) and r in {y.id for y in ast.walk(x.slice) if isinstance(y, ast.Name)}:
                        chk.ob("R06.2", "%s::clamp-before-use::%s" % (q, norm(x)), view.dominates(anchor, n) and anchor is not n, fi.where(n.ast),
                               "`%s` subscripts with the search result only after the clamp" % norm(x))
    # equality filter and mapping through the sorter
    for pres in (False, True):
        v = cfg.specialise(flags={"presorted": pres})
        nodes = v.nodes()
        eqs = []
        for n in nodes:
            a = n.ast
            if n.kind == "stmt" and isinstance(a, ast.Assign) and isinstance(a.value, ast.Call) and call_name(a.value) == "where" and a.value.args:
                c = a.value.args[0]
                if isinstance(c, ast.Compare) and isinstance(c.ops[0], ast.Eq) and a2 in (norm(c.left), norm(c.comparators[0])):
                    eqs.append((n, c))
        want_lhs = "%s[%s]" % (a1, r) if pres else "%s[%s[%s]]" % (a1, st, r)
        ok = len(eqs) == 1 and {norm(eqs[0][1].left), norm(eqs[0][1].comparators[0])} == {want_lhs, a2}
        chk.ob("R06.2", "%s::equality-filter[presorted=%s]" % (q, pres), ok, fi.where(eqs[0][0].ast) if eqs else fi.where(),
               "pairs are kept where %s == %s (found %s)" % (want_lhs, a2, [norm(e[1]) for e in eqs]))
        if len(eqs) == 1:
            sub2 = norm(eqs[0][0].ast.targets[0].elts[0]) if isinstance(eqs[0][0].ast.targets[0], ast.Tuple) else norm(eqs[0][0].ast.targets[0])
            fin = [n for n in nodes if n.kind == "stmt" and isinstance(n.ast, ast.Assign) and norm(n.ast.targets[0]) == r and n is not sn and view.reaches(eqs[0][0], n)]
            want = "%s[%s]" % (r, sub2) if pres else "%s[%s[%s]]" % (st, r, sub2)
            ok = len(fin) == 1 and norm(fin[0].ast.value) == want
            chk.ob("R06.2", "%s::first-indices[presorted=%s]" % (q, pres), ok, fi.where(),
                   "indices into the first array are %s (found %s)" % (want, [norm(f.ast.value) for f in fin]))
            rets = [n for n in nodes if n.kind == "return"]
            ok = len(rets) >= 1 and all(norm(n.ast.value) == "(%s, %s)" % (r, sub2) for n in rets)
            chk.ob("R06.2", "%s::returns-pairs[presorted=%s]" % (q, pres), ok, fi.where(), "returns (indices into first, indices into second) with the second ascending as produced by where()")
    # empty input rejected
    ok = any(any(".size == 0" in t and lab == "T" for t, lab in rules.controlling_tests(view, n)) for n in rules.raise_nodes(cfg))
    chk.ob("R06.2", q + "::empty-rejected", ok, fi.where(), "empty inputs are rejected")
    mm = repo.func(NU + "match_multi")
    chk.analysed_unit(mm.qualname)
    rets = [x for x in walk_no_nested(mm.node) if isinstance(x, ast.Return)]
    ok = len(rets) == 1 and isinstance(rets[0].value, ast.Call) and call_name(rets[0].value) == "match" and \
        [norm(a) for a in rets[0].value.args[:2]] == mm.params[:2]
    chk.ob("R06.3", mm.qualname + "::delegates", ok, mm.where(), "match_multi delegates to match with the same two arrays")


def _conv_of(env, param):
    for name, defs in env.items():
        for d in defs:
            if isinstance(d.value, ast.Call) and call_name(d.value) == "atleast_1d" and d.value.args and norm(d.value.args[0]) == param:
                return name
    return None
