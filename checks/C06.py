"""C06 -- array matching is sound and complete; de-duplication keeps one per value.

The rules are stated on *terms*, not on statements: a small symbolic executor runs every path of the loop-free functions
(match, its private helpers, a vectorised unique) and the rules compare the normalised terms of what is returned, the facts that
hold on each returning path and the subscripts evaluated on the way.  The two argsort scans (unique, rem_dup) are checked with an
index-space type system (Idx = index into the input, Pos = position in sorted order) over expression descriptors, so that the names
and the order of locals, while/for, if/elif nesting and array-vs-list bookkeeping do not matter.
"""
import ast
import copy

from vcheck import rules
from vcheck.cfg import CFG
from vcheck.core import PyRepo, FuncInfo, AnalysisError, norm, walk_no_nested

MANIFEST = dict(
    text="Structural rule checking (not a behavioural proof). match (with the private helpers it calls inlined) is executed symbolically on "
         "every path for presorted=False/True; values are normalised terms (x[i][j] = x[i[j]] for index arrays, searchsorted(a[argsort(a)], v) = "
         "searchsorted(a, v, sorter=argsort(a)), the in-place / minimum / clip / where forms of the high-end clamp are one term, boolean mask = "
         "where() index). On every returning path: a test that the first array has no repeated value and tests that both arrays are non-empty "
         "have been passed; the result is (C[I2], I2) with I2 = where(first[C] == second) on the unconverted atleast_1d inputs, C the positions "
         "of one left-side searchsorted(first, second) mapped through the argsort when the array is not presorted; the positions are clamped "
         "(== size -> size-1) before they subscript anything unless the path has established max(second) <= max(first). match_multi delegates "
         "to match. The search is element-wise in its probes (searchsorted(a, v[j]) = searchsorted(a, v)[j], likewise the clamp; p[argsort(p)] = identity, "
         "out[p] = y[p] into a fresh array = y): after these laws the positions compared with the second array must be the search result in the second "
         "array's own order, a residual data-dependent permutation is a violation. De-duplication scans (unique, rem_dup): an index-space type system (Idx = index into the input, Pos = position in sorted "
         "order; s = a.argsort() maps Pos to Idx, a[s] is Pos-indexed) over expression descriptors decides that every subscript is applied in "
         "the matching space, that the scan visits all positions after the seed, that the running value / largest flag are seeded from sorted "
         "position 0, replaced at a new run and (flag) when a larger flag is seen together with the kept position, that every run is recorded "
         "exactly once in one container holding one index space with its first entry from sorted position 0, and that the returned indices "
         "are in Idx space. A loop-free unique is decided on the term of the returned array (sorter[0] followed by sorter[where(sorted[1:] != "
         "sorted[:-1]) + 1], or sorter[mask] with a mask that is true at position 0 and at value changes). Paths of a scanning function that return "
         "a computed array before the loop are decided the same way and removed from the scan's view. Run boundaries must come from comparing "
         "neighbouring values; a sign / zero test of their arithmetic difference is accepted only on paths whose dtype.kind tests restrict the "
         "elements to kinds for which it is exact (ordered test: unsigned, float; zero test: integers). Helpers reached through a local name or a "
         "module-level dispatch table that is only ever read are inlined; putmask / place / put / copyto(where=) are in-place stores; a[argsort(a)[-1]] "
         "is max(a); a search result handed to a call without a model gives no verdict instead of 'unclamped'. A scan may walk the sorter / the sorted "
         "values themselves (for ind, v in zip(s[1:], a[s][1:])) when all sequences start at the same sorted position and run to the end. A function "
         "of the form `if c: <loop-free arm> else: <scan>` is decided as two functions; the loop-free flagged form is decided on terms: run-start mask "
         "M over the sorted values, maximum.reduceat(flag[s], where(M)) per run, candidates flag[s] == runmax[cumsum(M)-1], the first candidate of "
         "every run, mapped through the sorter, on paths that restrict the flag kind to types without NaN. "
         "No test of a scan may use the truth value of an element or of the running value (0, False and '' are values); a running value may start as None "
         "('nothing seen yet', tested with `is None` beside the value comparison) only when the scan begins at sorted position 0, never as another constant. "
         "A flagged scan without a flag comparison is accepted only when equal values are visited by decreasing flag: o = flag.argsort()[::-1], "
         "s = o[argsort(arr[o], kind='stable')] (or lexsort) with the first entry of every run kept; a second sort that is not stable, an increasing flag "
         "order, or a flag array that is never read is a violation; a decreasing order obtained by negating the flags gives no verdict. "
         "match, further equalities: a path that has established size(first) == 1 has passed the uniqueness and the non-empty guard, and its result is "
         "(zeros(size(I2)), I2) with I2 = where(first[0] == second); on a path that has established that the first array has no repeated value, "
         "numpy.unique(first) is first[argsort(first)] and the first-occurrence indices of numpy.unique(first, return_index=True) are argsort(first), and "
         "every term of the path is re-normalised with these equalities; the clamp may be skipped on a path that has established that no entry of the very "
         "search result equals the array size (any(p == n) false, all(p < n), max(p) < n, a zero count of p == n); any other test on the search result "
         "gives no verdict instead of 'unclamped'. De-duplication over a shared run helper (a generator, or a list builder, that walks the sorted values "
         "once and emits (start, stop) per run): the helper is decided by the scan rules (seeded from sorted position 0, visits every position to the end, "
         "one value-change test, the finished run emitted as (remembered start, current position) before the start is moved, the last run emitted as "
         "(start, size) after the loop); its users are decided on descriptors: the helper is given input[argsort(input)], exactly one entry per emitted "
         "pair is kept (comprehension without filter, or one unconditional append in a loop that cannot be left early), the entry is a member of the run "
         "(start or stop-1; flagged: the position of the largest flag found by a seeded scan over range(start[+1], stop) with a strictly-larger test whose "
         "comparand is replaced together with the position, or start + argmax(flags[start:stop])), and what is returned is in Idx space. "
         "match is a function of the arrays of the call at hand: module-level names that a function of the module re-binds (global), stores into or "
         "changes with a container method are state; a returned term or a sorter that reads such state (a remembered argsort, a cache keyed by object "
         "identity) is a violation, and an identity test (`is`) on an array establishes none of the guards (arrays are mutable). "
         "A run-start mask built with a cyclic shift (numpy.roll, the last element put in front, index p-1 for every p) compares the two ends of the "
         "sorted array at the wrap-around entry: sorted position 0 (or the last run) is then kept only when the input holds two different values, a "
         "violation unless that entry is overwritten with True. With the `values` switch fixed, every returning path of a de-duplication helper hands "
         "back the same arrangement (one array, or the same number of things); the package's own unique(x, values=) is one index per distinct value / "
         "the values at those indices; a flagged path that returns the plain de-duplication before the scan is accepted only where all flags have "
         "been established equal. Slot arithmetic of a counted container is decided on the relation slot counter = slots in use + k (k from the counter's "
         "straight-line initialisation and whether the seed occupies slot 0): the new-run store must hit the first free slot (advance-then-store with "
         "the counter naming the last slot, store-then-advance with the counter counting slots), the larger-flag store the last slot in use "
         "(`keep[c]` resp. `keep[c - 1]`, `keep[-1]` of a list), and every use of the container after the scan must be the slice [0 : slots in use] "
         "(`keep[:c + 1]` resp. `keep[:c]`); a store to another slot or another extent is a violation. A path that returns before any sorting after it "
         "has established size(input) == 1 is decided on its term: the single index 0 (zeros(n), zeros(1), [0], arange(n), argsort(input)). "
         "The presorted switch is a declaration read by its truth value: match is also executed with the switch bound to `some falsy object other than "
         "False` and `some truthy object other than True` (identity tests against True / False fail, identity / equality against a constant of the other "
         "truth value fail, against one of the same truth value go either way) and every returning path must satisfy all rules, so decisions on the switch "
         "that disagree along one path (sorted through the argsort, positions used unmapped) are a violation. The second index array names positions of the "
         "caller's second array: a bare where() over a data-dependent selection second[j] (probes filtered or re-ordered before the equality test) is a "
         "violation unless the path may have established that the selection keeps every element; positions mapped back through j give no verdict. "
         "The equality filter is equality of the values as == / numpy.equal decide it: a mask from a library comparison known not to be that "
         "(numpy.char.equal / compare_chararrays with rstrip, which ignore trailing whitespace; numpy.isclose) over elements of the two arrays is a "
         "violation. Strings are accepted: numpy's max() / min() of an input array may be evaluated only where the type tests passed before it (facts "
         "of the path, and the operands standing before it in the same short-circuit test) exclude both kind S and kind U -- isinstance of an element "
         "against str / bytes / numpy scalar types, dtype.kind / dtype.char membership, numpy.issubdtype against the numpy type lattice; a type test that "
         "is not understood gives no verdict. Repeats are allowed in the second array: a numpy set routine (isin, in1d, intersect1d, setdiff1d, "
         "setxor1d) that receives elements of the second array with assume_unique=True and whose result reaches the pairs or a test is a violation. "
         "Element counts are integers (unique(a).size <= a.size - 1 is unique(a).size < a.size).",
    note="Not decided: completeness for all arrays (numpy.searchsorted/argsort/unique semantics trusted); NaN handling.",
    technique="static analysis: path-wise symbolic execution to normalised terms (match, vectorised unique), index-space typing over "
              "expression descriptors with CFG control dependence (scan loops)",
)

NU = "esutil.numpy_util."


# rules that keep their verdict however the code is laid out (decided on normalised terms / path facts / index-space descriptors);
# every other rule of this check is a template rule (vcheck.core.Check.obt)
SEMANTIC = ('R06.1', 'R06.2')


# ---------------------------------------------------------------------------
# terms
# ---------------------------------------------------------------------------
def K(v):
    return ("const", v)


NONE = K(None)
NP = ("module", "np")
_FLIP = {"gt": "lt", "ge": "le"}
_CMPOPS = {ast.Eq: "eq", ast.NotEq: "ne", ast.Lt: "lt", ast.LtE: "le", ast.Gt: "gt", ast.GtE: "ge", ast.Is: "is", ast.IsNot: "isnot",
           ast.In: "in", ast.NotIn: "notin"}
_BINOPS = {ast.Add: "+", ast.Sub: "-", ast.Mult: "*", ast.Div: "/", ast.FloorDiv: "//", ast.Mod: "%", ast.BitAnd: "&", ast.BitOr: "|",
           ast.BitXor: "^", ast.Pow: "**", ast.LShift: "<<", ast.RShift: ">>", ast.MatMult: "@"}


def is_const(t):
    return isinstance(t, tuple) and len(t) == 2 and t[0] == "const"


def subterms(t):
    """all sub-terms (pre-order), the term itself included"""
    todo = [t]
    while todo:
        x = todo.pop()
        yield x
        if isinstance(x, tuple):
            for c in x[1:] if x and isinstance(x[0], str) else x:
                if isinstance(c, tuple):
                    todo.append(c)


def contains(t, sub):
    return any(x == sub for x in subterms(t))


def is_indexlike(t):
    """integer index arrays: for such an i, x[i][j] == x[i[j]] whatever j is"""
    if not isinstance(t, tuple):
        return False
    h = t[0]
    if h in ("argsort", "ss", "clamp", "where0", "arange", "uniqidx"):
        return True
    if h == "take":
        return is_indexlike(t[1]) and not is_const(t[2])
    if h == "binop" and t[1] in ("+", "-"):
        return (is_indexlike(t[2]) and is_scalar(t[3])) or (is_indexlike(t[3]) and is_scalar(t[2]) and t[1] == "+")
    if h == "concat":
        return all(is_indexlike(x) or is_scalar(x) or (x[0] in ("list", "tuple") and all(is_scalar(y) or is_indexlike(y) for y in x[1:])) for x in t[1:])
    return False


def is_scalar(t):
    if not isinstance(t, tuple):
        return False
    h = t[0]
    if h == "const":
        return isinstance(t[1], (int, float, bool)) or t[1] is None
    if h in ("size", "max", "min", "flagv"):
        return True
    if h == "binop":
        return is_scalar(t[2]) and is_scalar(t[3])
    if h == "take":
        return is_const(t[2]) and isinstance(t[2][1], int) and not isinstance(t[2][1], bool)
    return False


def is_flagv(t):
    """('flagv', truth): a switch parameter of which only the truth value is known -- some object other than the bool of that truth value"""
    return isinstance(t, tuple) and len(t) == 2 and t[0] == "flagv"


def t_cmp(op, l, r):
    if op in _FLIP:
        op, l, r = _FLIP[op], r, l
    if is_const(l) and is_const(r) and op in ("eq", "ne", "lt", "le", "is", "isnot"):
        a, b = l[1], r[1]
        try:
            return K({"eq": a == b, "ne": a != b, "lt": a < b, "le": a <= b, "is": a is b or (a == b and type(a) is type(b)),
                      "isnot": not (a is b or (a == b and type(a) is type(b)))}[op])
        except Exception:
            pass
    if op in ("eq", "ne", "is", "isnot") and ((is_flagv(l) and is_const(r)) or (is_flagv(r) and is_const(l))):
        # a switch known only by its truth value (any falsy object other than False / any truthy object other than True) against a constant:
        # it is never the object True or False, it is never the same object as / equal to a constant of the other truth value; anything else
        # (falsy == False: yes for 0, no for None) depends on which object it is and stays a test that can go either way
        fv, c = (l, r) if is_flagv(l) else (r, l)
        if (op in ("is", "isnot") and isinstance(c[1], bool)) or bool(c[1]) != fv[1]:
            return K(op in ("ne", "isnot"))
    if op in ("in", "notin") and isinstance(r, tuple) and r[0] in ("tuple", "list"):
        d = t_or([t_cmp("eq", l, x) for x in r[1:]])
        return d if op == "in" else t_not(d)
    if op in ("eq", "ne") and repr(l) > repr(r):
        l, r = r, l
    return ("cmp", op, l, r)


def t_or(args):
    out = []
    for a in args:
        if a[0] == "or":
            out.extend(a[1:])
        else:
            out.append(a)
    if any(is_const(a) and bool(a[1]) for a in out):
        return K(True)
    out = [a for a in out if not is_const(a)]
    if not out:
        return K(False)
    return out[0] if len(out) == 1 else ("or",) + tuple(out)


def t_and(args):
    out = []
    for a in args:
        if a[0] == "and":
            out.extend(a[1:])
        else:
            out.append(a)
    if any(is_const(a) and not bool(a[1]) for a in out):
        return K(False)
    out = [a for a in out if not is_const(a)]
    if not out:
        return K(True)
    return out[0] if len(out) == 1 else ("and",) + tuple(out)


def t_not(t):
    if is_const(t):
        return K(not t[1])
    if t[0] == "not":
        return t[1]
    return ("not", t)


def t_binop(op, l, r):
    if is_const(l) and is_const(r):
        try:
            a, b = l[1], r[1]
            return K({"+": lambda: a + b, "-": lambda: a - b, "*": lambda: a * b, "//": lambda: a // b, "%": lambda: a % b}[op]())
        except Exception:
            pass
    if op == "+" and is_const(l) and not is_const(r):
        l, r = r, l
    if op == "-" and is_const(r) and isinstance(r[1], int) and not isinstance(r[1], bool):
        op, r = "+", K(-r[1])
    if op == "+" and is_const(r) and r[1] == 0:
        return l
    # (x + a) + b
    if op == "+" and is_const(r) and l[0] == "binop" and l[1] == "+" and is_const(l[3]):
        return t_binop("+", l[2], t_binop("+", l[3], r))
    return ("binop", op, l, r)


def t_size(x):
    h = x[0]
    if h == "argsort":
        return t_size(x[1])
    if h == "take" and is_indexlike(x[2]):
        return t_size(x[2])
    if h in ("clamp", "ss"):
        return t_size(x[1] if h == "clamp" else x[3])
    if h == "arange":
        return x[1]
    if h in ("tuple", "list"):
        return K(len(x) - 1)
    if h == "conv" and x[1] in ("astype", "dtype"):
        return t_size(x[2])
    if h == "a1d" and x[1][0] in ("tuple", "list"):
        return K(len(x[1]) - 1)
    if h == "uniqidx":
        return ("size", ("unique", x[1]))       # one index per distinct value
    return ("size", x)


def _unperm(x):
    """x[argsort(x)] has the same multiset of values as x"""
    if x[0] == "take" and x[2] == ("argsort", x[1]):
        return x[1]
    return x


def t_take(base, idx):
    h = base[0]
    if idx[0] == "where0" and idx[1][0] in ("cmp", "inv", "and", "or", "binop"):
        idx = idx[1]            # x[where(mask)[0]] selects the same elements, in the same order, as x[mask]
    if h in ("tuple", "list") and is_const(idx) and isinstance(idx[1], int) and not isinstance(idx[1], bool):
        n = len(base) - 1
        if -n <= idx[1] < n:
            return base[1:][idx[1]]
    if h == "dict" and is_const(idx):
        for k, v in base[1]:
            try:
                if k[1] == idx[1]:
                    return v
            except Exception:
                break
    if h == "shape" and idx == K(0):
        return t_size(base[1])
    if h == "argsort" and idx == ("argsort", base):
        return ("arange", t_size(base))         # p[argsort(p)] is the identity for a permutation p (= an argsort)
    if idx[0] == "arange" and idx[1] == t_size(base) and h in _SIZED:
        return base                             # x[arange(x.size)] is x
    if h == "take" and is_indexlike(base[2]):
        return t_take(base[1], t_take(base[2], idx))
    if h == "concat" and idx == K(0) and len(base) > 1 and base[1][0] in ("list", "tuple") and len(base[1]) > 1:
        return base[1][1]
    return ("take", base, idx)


_SIZED = ("ss", "clamp", "argsort", "a1d", "asarr", "take")


def _gathered(p):
    """(core, j) when p is core[j] for a search result (clamped or not) `core` and an index array j; (p, None) otherwise"""
    if p[0] == "take" and p[1][0] in ("ss", "clamp") and is_indexlike(p[2]):
        return p[1], p[2]
    return p, None


def _regather(core, j):
    return core if j is None else ("take", core, j)


def _alloc_n(t):
    """element count of a fresh 1-d array term"""
    n = t[2]
    if n[0] in ("tuple", "list") and len(n) == 2:
        n = n[1]
    if n[0] == "shape":
        n = t_size(n[1])
    return n


def is_perm_term(j):
    """an index array that is a data-dependent permutation: an argsort, or such permutations applied to each other"""
    if not isinstance(j, tuple) or not j:
        return False
    if j[0] == "argsort":
        return True
    return j[0] == "take" and is_perm_term(j[1]) and is_perm_term(j[2])


def _minus1_of(val, arrs):
    """is `val` the term size(A) - 1 for an array A; returns A or None"""
    if val[0] == "binop" and val[1] == "+" and val[3] == K(-1) and val[2][0] == "size":
        return val[2][1]
    return None


def _is_at_end(cond, p):
    """cond says `p == size(A)` / `p >= size(A)` / `p > size(A) - 1` (element-wise); returns A or None"""
    if cond[0] != "cmp":
        return None
    op, l, r = cond[1:]
    if op == "eq":
        for a, b in ((l, r), (r, l)):
            if a == p and b[0] == "size":
                return b[1]
    if op == "le" and r == p and l[0] == "size":          # size <= p
        return l[1]
    if op == "lt" and r == p:                              # size-1 < p
        return _minus1_of(l, None)
    return None


def _is_below_end(cond, p):
    """cond says `p < size(A)` / `p <= size(A)-1`"""
    if cond[0] != "cmp":
        return None
    op, l, r = cond[1:]
    if op == "lt" and l == p and r[0] == "size":
        return r[1]
    if op in ("le", "lt") and l == p:                      # p <= size-1;  p < size-1 says more than that
        return _minus1_of(r, None)
    if op == "ne" :
        for a, b in ((l, r), (r, l)):
            if a == p and b[0] == "size":
                return b[1]
    return None


def t_setitem(base, idx, val):
    # high-end clamp: p[p == n] = n - 1   /   p[where(p == n)] = n - 1
    c = idx[1] if idx[0] == "where0" else idx
    a = _is_at_end(c, base)
    core, j = _gathered(base)           # the clamp is element-wise: clamp(p[j]) = clamp(p)[j]
    if a is not None and core[0] == "ss":
        if _minus1_of(val, None) == a:
            return _regather(("clamp", core, a), j)
        return ("badclamp", base, a, val)
    # scatter through a permutation into a fresh array of the same size: out[p] = y[p] gives y, out[p] = arange(n) gives the inverse of p
    if base[0] == "alloc" and idx[0] == "argsort" and _alloc_n(base) == t_size(idx):
        if val[0] == "take" and val[2] == idx and val[1][0] in _SIZED and t_size(val[1]) == t_size(idx):
            return val[1]
        if val == ("arange", t_size(idx)):
            return ("argsort", idx)
    return ("setitem", base, idx, val)


def t_minimum(a, b):
    for p, v in ((a, b), (b, a)):
        arr = _minus1_of(v, None)
        core, j = _gathered(p)
        if arr is not None and core[0] in ("ss", "clamp"):
            return _regather(("clamp", core, arr), j) if core[0] == "ss" else p
    for p, v in ((a, b), (b, a)):
        if _gathered(p)[0][0] == "ss" and is_scalar(v):
            return ("badclamp", p, None, v)
    return ("call", "minimum", (a, b))


def t_where3(c, a, b):
    # where(p == n, n-1, p) / where(p < n, p, n-1)
    for p, v, test in ((b, a, _is_at_end), (a, b, _is_below_end)):
        core, j = _gathered(p)
        if core[0] == "ss":
            arr = test(c, p)
            if arr is not None and _minus1_of(v, None) == arr:
                return _regather(("clamp", core, arr), j)
    return ("where3", c, a, b)


def t_roll(x, k):
    """numpy.roll(x, k) of a 1-d array: entry p is x[(p - k) mod n] -- the elements pushed out at one end come back in at the other"""
    if k == K(0):
        return x
    return ("roll", x, k)


def t_ss(a, v, side, sorter):
    if v[0] == "take" and is_indexlike(v[2]):
        # the search is element-wise in its probes: searchsorted(a, v[j]) = searchsorted(a, v)[j]
        return t_take(t_ss(a, v[1], side, sorter), v[2])
    if sorter is None or sorter == NONE:
        if a[0] == "take" and a[2] == ("argsort", a[1]):
            return ("ss", a[1], a[2], v, side)
        return ("ss", a, NONE, v, side)
    return ("ss", a, sorter, v, side)


def renorm(t, sub):
    """the term t with the sub-terms in `sub` replaced, rebuilt bottom-up through the normalising constructors (so that the laws they apply
    -- x[i][j] = x[i[j]], searchsorted(a[argsort(a)], v) = searchsorted(a, v, sorter=argsort(a)), ... -- see the replaced terms)"""
    if not isinstance(t, tuple) or not t:
        return t
    if t in sub:
        return sub[t]
    if not isinstance(t[0], str):
        return tuple(renorm(x, sub) for x in t)
    h = t[0]
    if h == "const":
        return t
    c = tuple(renorm(x, sub) if isinstance(x, tuple) else x for x in t[1:])
    if c == t[1:]:
        return t
    if h == "take" and len(c) == 2:
        return t_take(c[0], c[1])
    if h == "ss" and len(c) == 4:
        return t_ss(c[0], c[2], c[3], c[1])
    if h == "clamp" and len(c) == 2:
        core, j = _gathered(c[0])
        return _regather(("clamp", core, c[1]), j) if core[0] == "ss" else ("clamp",) + c
    if h == "size" and len(c) == 1:
        return t_size(c[0])
    if h == "cmp" and len(c) == 3:
        return t_cmp(c[0], c[1], c[2])
    if h == "binop" and len(c) == 3:
        return t_binop(c[0], c[1], c[2])
    if h == "not" and len(c) == 1:
        return t_not(c[0])
    if h == "or":
        return t_or(list(c))
    if h == "and":
        return t_and(list(c))
    if h in ("max", "min") and len(c) == 1:
        return (h, _unperm(c[0]))
    if h == "setitem" and len(c) == 3:
        return t_setitem(c[0], c[1], c[2])
    return (h,) + c


def _end_cond(c):
    """c compares a raw search result p (element-wise), or its largest entry max(p), with the size of an array A: (p, A, 'at' when c says
    `== size(A)` / `>= size(A)` / `> size(A)-1`, 'below' when it says `< size(A)` / `<= size(A)-1` / `!= size(A)`, is it the max form)"""
    if not (isinstance(c, tuple) and c and c[0] == "cmp"):
        return None
    for x in c[2:]:
        if not (isinstance(x, tuple) and x):
            continue
        q = x[1] if x[0] == "max" else x
        if not (isinstance(q, tuple) and q and _gathered(q)[0][0] == "ss"):
            continue
        for kind, test in (("at", _is_at_end), ("below", _is_below_end)):
            arr = test(c, x)
            if arr is not None:
                return q, arr, kind, x[0] == "max"
    return None


def end_fact(t, v):
    """the decided test `t is v` asks whether some entry of a search result p equals the size of an array A (the one value of a search result that
    is not a valid index): (p, A, True when the answer is that NO entry of p equals size(A)); None when t is not such a test.
    Forms: any(p == n) / all(p < n) / max(p) == n / max(p) < n / the number of entries with p == n (size of where(), sum, count_nonzero) against 0"""
    if not (isinstance(t, tuple) and t):
        return None
    if t[0] in ("any", "all") and len(t) == 2:
        ec = _end_cond(t[1])
        if ec is None or ec[3]:
            return None
        return ec[0], ec[1], (t[0] == "any" and ec[2] == "at" and not v) or (t[0] == "all" and ec[2] == "below" and bool(v))

    def count(x):
        c = None
        if isinstance(x, tuple) and x:
            if x[0] == "size" and x[1][0] == "where0":
                c = x[1][1]
            elif x[0] == "sum":
                c = x[1]
            elif x[0] == "call" and x[1] in ("np.count_nonzero", "np.sum") and len(x[2]) == 1 and not x[3]:
                c = x[2][0]
        ec = _end_cond(c) if c is not None else None
        return ec if ec is not None and ec[2] == "at" and not ec[3] else None
    ec = count(t)
    if ec is not None:
        return ec[0], ec[1], not v
    if t[0] == "cmp":
        ec = _end_cond(t)
        if ec is not None and ec[3]:
            return ec[0], ec[1], (ec[2] == "at" and not v) or (ec[2] == "below" and bool(v))
        op, l, r = t[1:]
        for cnt, zero in ((l, r), (r, l)):
            ec = count(cnt)
            if ec is None or zero not in (K(0), K(1)):
                continue
            none = None
            if zero == K(0):
                if op in ("eq", "ne"):
                    none = bool(v) == (op == "eq")
                elif op == "lt" and l == zero:          # 0 < count
                    none = not v
                elif op == "le" and l == cnt:           # count <= 0
                    none = bool(v)
            elif op == "lt" and l == cnt:               # count < 1
                none = bool(v)
            elif op == "le" and l == zero:              # 1 <= count
                none = not v
            if none is not None:
                return ec[0], ec[1], none
    return None


def atoms(term, truth, out):
    """decompose a decided test into atomic facts [(term, truth)]"""
    if term[0] == "not":
        atoms(term[1], not truth, out)
    elif term[0] == "or" and truth is False:
        for a in term[1:]:
            atoms(a, False, out)
    elif term[0] == "and" and truth is True:
        for a in term[1:]:
            atoms(a, True, out)
    else:
        out.append((term, truth))
    return out


# ---------------------------------------------------------------------------
# path-wise symbolic execution of loop-free functions
# ---------------------------------------------------------------------------
class Unsupported(Exception):
    pass


class _Raise(Exception):
    def __init__(self, exc, line):
        self.exc = exc
        self.line = line


class _Return(Exception):
    def __init__(self, val, line):
        self.val = val
        self.line = line


class _Loop(Exception):
    def __init__(self, line):
        self.line = line


class Path:
    def __init__(self, kind, value, facts, events, line):
        self.kind = kind        # 'return' | 'raise' | 'loop' (the path reaches a loop; only with stop_at_loops)
        self.value = value
        self.facts = facts      # [(atomic term, truth, seq)]
        self.events = events    # [(kind, term..., line, seq)]
        self.line = line

    def holds(self, pred):
        """first fact for which pred(term, truth) is true"""
        for t, v, _ in self.facts:
            if pred(t, v):
                return (t, v)
        return None


class Frame:
    def __init__(self):
        self.env = {}


_IDENT_NP = ("asarray", "asanyarray", "array", "ascontiguousarray")
_INPLACE_NP = ("putmask", "place", "put", "copyto")
# numpy set routines that take assume_unique: the position of that parameter
_SETOPS = {"isin": 2, "in1d": 2, "intersect1d": 2, "setdiff1d": 2, "setxor1d": 2}
_ARRAYISH = ("a1d", "asarr", "argsort", "ss", "clamp", "where0", "take", "alloc", "arr", "concat", "setitem", "unique", "uniqidx")


class SX:
    MAXPATHS = 400

    def __init__(self, funcs, keep_calls=(), stop_at_loops=False, consts=None, skip_loops=False):
        self.module_names = set()       # names bound at module level (for stores into module-level state)
        for f_ in funcs.values():
            mn = getattr(f_, "_module_names", None)
            if mn:
                self.module_names = mn
                break
        self.skip_loops = skip_loops    # a loop statement of the function itself is stepped over: what it may bind or change becomes opaque
        self.funcs = funcs              # module-level name -> ast.FunctionDef
        self.consts = consts or {}      # module-level name bound once, at module level -> the expression it is bound to
        self._constbusy = set()
        self.keep_calls = set(keep_calls)   # module functions that are not inlined
        self.stop_at_loops = stop_at_loops  # a path ends (kind 'loop') where it reaches a loop statement of the function itself
        self.reset([])

    def reset(self, decisions):
        self.heap = {}
        self.nref = 0
        self.decisions = list(decisions)
        self.ndec = 0
        self.facts = []
        self.known = {}
        self.events = []
        self.seq = 0
        self.depth = 0

    # -- driver ------------------------------------------------------------
    def run(self, fn, args):
        """all paths of fn with the given {param: term} bindings (other parameters: default value, else ('param', name))"""
        paths = []
        dec = []
        while True:
            self.reset(dec)
            fr = Frame()
            self._bind_params(fr, fn, [], dict(args), free=True)
            try:
                self.block(fn.body, fr)
                paths.append(Path("return", NONE, list(self.facts), list(self.events), getattr(fn, "end_lineno", fn.lineno)))
            except _Return as r:
                paths.append(Path("return", r.val, list(self.facts), list(self.events), r.line))
            except _Raise as r:
                paths.append(Path("raise", r.exc, list(self.facts), list(self.events), r.line))
            except _Loop as r:
                paths.append(Path("loop", NONE, list(self.facts), list(self.events), r.line))
            dec = list(self.decisions)
            while dec and dec[-1] is False:
                dec.pop()
            if not dec:
                break
            dec[-1] = False
            if len(paths) > self.MAXPATHS:
                raise Unsupported("more than %d paths" % self.MAXPATHS)
        return paths

    # -- store ---------------------------------------------------------------
    def new(self, term):
        self.nref += 1
        self.heap[self.nref] = term
        return self.nref

    def _bind_params(self, fr, fn, pos, kw, free=False):
        a = fn.args
        names = [x.arg for x in a.posonlyargs + a.args]
        defaults = dict(zip(names[len(names) - len(a.defaults):], a.defaults))
        for x, d in zip(a.kwonlyargs, a.kw_defaults):
            names.append(x.arg)
            if d is not None:
                defaults[x.arg] = d
        if a.vararg or a.kwarg:
            raise Unsupported("*args/**kwargs in %s" % fn.name)
        if len(pos) > len(names):
            raise Unsupported("too many arguments for %s" % fn.name)
        given = dict(zip(names, pos))
        for k, v in kw.items():
            if k not in names:
                raise Unsupported("unknown keyword %s for %s" % (k, fn.name))
            given[k] = v
        for n in names:
            if n in given:
                v = given[n]
                fr.env[n] = v if isinstance(v, int) else self.new(v)
            elif n in defaults and not free:
                fr.env[n] = self.new(self.ev(defaults[n], Frame()))
            else:
                fr.env[n] = self.new(("param", n))

    # -- decisions -----------------------------------------------------------
    def _seq(self):
        self.seq += 1
        return self.seq

    def decide(self, t, line):
        t = self._truth(t)
        if is_const(t):
            return bool(t[1])
        if t in self.known:
            return self.known[t]
        if t[0] == "not" and t[1] in self.known:
            return not self.known[t[1]]
        for truth in (True, False):
            at = atoms(t, truth, [])
            if at and all(self.known.get(x) is v for x, v in at):
                return truth
        if self.ndec < len(self.decisions):
            d = self.decisions[self.ndec]
        else:
            d = True
            self.decisions.append(True)
        self.ndec += 1
        self.known[t] = d
        for x, v in atoms(t, d, []):
            self.known[x] = v
            self.facts.append((x, v, self._seq()))
        return d

    def _truth(self, t):
        """simplify a term used as a condition"""
        h = t[0]
        if h == "cmp" and t[1] in ("is", "isnot") and (t[3] == NONE or t[2] == NONE):
            x = t[2] if t[3] == NONE else t[3]
            if is_const(x):
                return K((x == NONE) == (t[1] == "is"))
            if x[0] in _ARRAYISH or x[0] in ("tuple", "list", "size"):
                return K(t[1] == "isnot")
        if h == "flagv":
            return K(t[1])
        if h == "not":
            return t_not(self._truth(t[1]))
        if h == "or":
            return t_or([self._truth(x) for x in t[1:]])
        if h == "and":
            return t_and([self._truth(x) for x in t[1:]])
        if h in ("tuple", "list"):
            return K(len(t) > 1)
        return t

    # -- statements ----------------------------------------------------------
    def block(self, stmts, fr):
        for st in stmts:
            self.stmt(st, fr)

    def stmt(self, st, fr):
        if isinstance(st, ast.Assign):
            ref = self._ev_ref(st.value, fr)
            for t in st.targets:
                self._assign(t, ref, fr, st)
        elif isinstance(st, ast.AnnAssign):
            if st.value is not None:
                self._assign(st.target, self._ev_ref(st.value, fr), fr, st)
        elif isinstance(st, ast.AugAssign):
            op = _BINOPS.get(type(st.op))
            v = self.ev(st.value, fr)
            if isinstance(st.target, ast.Name):
                if st.target.id not in fr.env:
                    raise Unsupported("augmented assignment to unbound %s" % st.target.id)
                ref = fr.env[st.target.id]
                new = t_binop(op, self.heap[ref], v)
                if is_scalar(self.heap[ref]):
                    fr.env[st.target.id] = self.new(new)
                else:
                    self.heap[ref] = new
            elif isinstance(st.target, ast.Subscript) and isinstance(st.target.value, ast.Name) and st.target.value.id in fr.env:
                ref = fr.env[st.target.value.id]
                idx = self.ev_index(st.target.slice, fr)
                self.heap[ref] = ("setitem", self.heap[ref], idx, t_binop(op, t_take(self.heap[ref], idx), v))
            else:
                raise Unsupported("augmented assignment at line %d" % st.lineno)
        elif isinstance(st, ast.Expr):
            self.ev(st.value, fr)
        elif isinstance(st, ast.If):
            self.events.append(("test", None, st.lineno, self._seq()))      # what is evaluated from here to the next decided fact is the test's expression
            if self.decide(self.ev(st.test, fr), st.lineno):
                self.block(st.body, fr)
            else:
                self.block(st.orelse, fr)
        elif isinstance(st, ast.Return):
            raise _Return(self.ev(st.value, fr) if st.value is not None else NONE, st.lineno)
        elif isinstance(st, ast.Raise):
            raise _Raise(self.ev(st.exc, fr) if st.exc is not None else ("opaque", "reraise"), st.lineno)
        elif isinstance(st, ast.Assert):
            self.events.append(("test", None, st.lineno, self._seq()))
            if not self.decide(self.ev(st.test, fr), st.lineno):
                raise _Raise(("exc", "AssertionError", ()), st.lineno)
        elif isinstance(st, (ast.Pass, ast.Import, ast.ImportFrom, ast.Global, ast.Nonlocal)):
            pass
        elif isinstance(st, ast.Delete):
            for t in st.targets:
                if isinstance(t, ast.Name):
                    fr.env.pop(t.id, None)
                else:
                    raise Unsupported("del of a non-name at line %d" % st.lineno)
        elif isinstance(st, (ast.FunctionDef, ast.ClassDef)):
            fr.env[st.name] = self.new(("opaque", "def " + st.name))
        elif isinstance(st, (ast.For, ast.While)) and self.stop_at_loops and self.depth == 0:
            raise _Loop(st.lineno)
        elif isinstance(st, (ast.For, ast.While)) and self.skip_loops and self.depth == 0:
            if any(isinstance(x, (ast.Return, ast.Yield, ast.YieldFrom, ast.Raise)) for x in ast.walk(st)):
                raise Unsupported("a loop that can leave the function at line %d" % st.lineno)
            for x in ast.walk(st):
                tgt = None
                if isinstance(x, ast.Name) and isinstance(x.ctx, (ast.Store, ast.Del)):
                    tgt = x
                elif isinstance(x, (ast.Subscript, ast.Attribute)) and isinstance(x.ctx, (ast.Store, ast.Del)):
                    tgt = x.value
                elif isinstance(x, ast.Call) and isinstance(x.func, ast.Attribute):
                    tgt = x.func.value
                while isinstance(tgt, (ast.Subscript, ast.Attribute)):
                    tgt = tgt.value
                if isinstance(tgt, ast.Name) and (tgt is x or tgt.id in fr.env):
                    fr.env[tgt.id] = self.new(("opaque", "after the loop at line %d: %s" % (st.lineno, tgt.id)))
        else:
            raise Unsupported("%s at line %d" % (type(st).__name__, st.lineno))

    def _ev_ref(self, e, fr):
        """evaluate to a heap reference; a bare local name shares the object it is bound to"""
        if isinstance(e, ast.Name) and e.id in fr.env:
            return fr.env[e.id]
        return self.new(self.ev(e, fr))

    def _assign(self, t, ref, fr, st):
        if isinstance(t, ast.Name):
            fr.env[t.id] = ref
        elif isinstance(t, (ast.Tuple, ast.List)):
            v = self.heap[ref]
            if any(isinstance(x, ast.Starred) for x in t.elts):
                raise Unsupported("starred target at line %d" % st.lineno)
            if v[0] in ("tuple", "list") and len(v) - 1 == len(t.elts):
                for x, xv in zip(t.elts, v[1:]):
                    self._assign(x, self.new(xv), fr, st)
            else:
                for k, x in enumerate(t.elts):
                    self._assign(x, self.new(("item", v, k)), fr, st)
        elif isinstance(t, (ast.Subscript, ast.Attribute)) and self._module_level(t.value, fr) is not None:
            # a store into module-level state (a table, an attribute of a module function): no local value changes, and what a later read of
            # that state gives is an opaque ('global', name) / ('attr', ('func', name), ...) term anyway
            self.events.append(("statestore", ("global", self._module_level(t.value, fr)), st.lineno, self._seq()))
        elif isinstance(t, ast.Subscript):
            if not (isinstance(t.value, ast.Name) and t.value.id in fr.env):
                raise Unsupported("store into a non-local at line %d" % st.lineno)
            r = fr.env[t.value.id]
            idx = self.ev_index(t.slice, fr)
            self.heap[r] = t_setitem(self.heap[r], idx, self.heap[ref])
            self.events.append(("store", self.heap[r], st.lineno, self._seq()))
        else:
            raise Unsupported("assignment target %s at line %d" % (type(t).__name__, st.lineno))

    def _module_level(self, e, fr):
        """the module-level name a store target is rooted in (NAME[k], NAME.attr, NAME[k].attr ...) when NAME is not a local; else None"""
        while isinstance(e, (ast.Subscript, ast.Attribute)):
            e = e.value
        if isinstance(e, ast.Name) and e.id not in fr.env and e.id not in ("np", "numpy") and (e.id in self.funcs or e.id in self.module_names):
            return e.id
        return None

    # -- expressions ---------------------------------------------------------
    def ev_index(self, e, fr):
        if isinstance(e, ast.Slice):
            return ("slice",) + tuple(self.ev(x, fr) if x is not None else NONE for x in (e.lower, e.upper, e.step))
        if isinstance(e, ast.Tuple):
            return ("tuple",) + tuple(self.ev_index(x, fr) for x in e.elts)
        return self.ev(e, fr)

    def ev(self, e, fr):
        if isinstance(e, ast.Constant):
            return K(e.value)
        if isinstance(e, ast.Name):
            if e.id in fr.env:
                return self.heap[fr.env[e.id]]
            if e.id in ("np", "numpy"):
                return NP
            if e.id in self.funcs:
                return ("func", e.id)
            if e.id in self.consts and e.id not in self._constbusy:
                # a module-level constant (dispatch table, cached value): what it was built from
                self._constbusy.add(e.id)
                try:
                    v = self.ev(self.consts[e.id], Frame())
                finally:
                    self._constbusy.discard(e.id)
                return v if v[0] in ("dict", "func", "const", "tuple") else ("global", e.id)
            return ("global", e.id)
        if isinstance(e, ast.Attribute):
            b = self.ev(e.value, fr)
            if b == NP:
                return ("npattr", e.attr)
            if e.attr == "size":
                return t_size(b)
            if e.attr in ("shape", "dtype"):
                return (e.attr, b)
            return ("attr", b, e.attr)
        if isinstance(e, ast.Subscript):
            b = self.ev(e.value, fr)
            idx = self.ev_index(e.slice, fr)
            r = t_take(b, idx)
            self.events.append(("take", r, e.lineno, self._seq()))
            return r
        if isinstance(e, ast.Call):
            return self.ev_call(e, fr)
        if isinstance(e, ast.Compare):
            parts = []
            l = self.ev(e.left, fr)
            for op, c in zip(e.ops, e.comparators):
                r = self.ev(c, fr)
                parts.append(t_cmp(_CMPOPS[type(op)], l, r))
                if is_flagv(l) or is_flagv(r):
                    self.events.append(("flagcmp", norm(e), e.lineno, self._seq(), parts[-1]))
                l = r
            return parts[0] if len(parts) == 1 else t_and(parts)
        if isinstance(e, ast.BoolOp):
            # operands are evaluated left to right and evaluation stops at the first operand whose constant truth value decides the result
            # (what stands after it is never executed: no subscript, search or reduction event may be recorded for it)
            vals = []
            for v in e.values:
                vals.append(self.ev(v, fr))
                tv = self._truth(vals[-1])
                if is_const(tv) and bool(tv[1]) == isinstance(e.op, ast.Or):
                    break
            return t_or(vals) if isinstance(e.op, ast.Or) else t_and(vals)
        if isinstance(e, ast.UnaryOp):
            v = self.ev(e.operand, fr)
            if isinstance(e.op, ast.Not):
                return t_not(self._truth(v))
            if isinstance(e.op, ast.USub):
                return K(-v[1]) if is_const(v) and isinstance(v[1], (int, float)) else ("neg", v)
            if isinstance(e.op, ast.UAdd):
                return v
            return ("inv", v)
        if isinstance(e, ast.BinOp):
            return t_binop(_BINOPS[type(e.op)], self.ev(e.left, fr), self.ev(e.right, fr))
        if isinstance(e, ast.IfExp):
            self.events.append(("test", None, e.lineno, self._seq()))
            return self.ev(e.body if self.decide(self.ev(e.test, fr), e.lineno) else e.orelse, fr)
        if isinstance(e, (ast.Tuple, ast.List)):
            if any(isinstance(x, ast.Starred) for x in e.elts):
                raise Unsupported("starred element at line %d" % e.lineno)
            return ("tuple" if isinstance(e, ast.Tuple) else "list",) + tuple(self.ev(x, fr) for x in e.elts)
        if isinstance(e, ast.NamedExpr) and isinstance(e.target, ast.Name):
            ref = self._ev_ref(e.value, fr)
            fr.env[e.target.id] = ref
            return self.heap[ref]
        if isinstance(e, ast.Dict) and all(k is not None for k in e.keys):
            ks = [self.ev(k, fr) for k in e.keys]
            if all(is_const(k) for k in ks) and len({k[1] for k in ks}) == len(ks):
                return ("dict", tuple(zip(ks, [self.ev(v, fr) for v in e.values])))
        if isinstance(e, (ast.JoinedStr, ast.Dict, ast.Set, ast.Lambda, ast.ListComp, ast.SetComp, ast.DictComp, ast.GeneratorExp, ast.FormattedValue)):
            return ("opaque", norm(e))
        raise Unsupported("%s at line %d" % (type(e).__name__, getattr(e, "lineno", 0)))

    # -- calls ---------------------------------------------------------------
    def ev_call(self, e, fr):
        if any(isinstance(a, ast.Starred) for a in e.args) or any(k.arg is None for k in e.keywords):
            raise Unsupported("star-arguments at line %d" % e.lineno)
        f = e.func
        # evaluate the arguments keeping references for plain names (a helper may mutate them, out= names its target)
        arefs = [fr.env[a.id] if isinstance(a, ast.Name) and a.id in fr.env else None for a in e.args]
        args = [self.ev(a, fr) for a in e.args]
        krefs = {k.arg: (fr.env[k.value.id] if isinstance(k.value, ast.Name) and k.value.id in fr.env else None) for k in e.keywords}
        kw = {k.arg: self.ev(k.value, fr) for k in e.keywords}
        if isinstance(f, ast.Attribute):
            b = self.ev(f.value, fr)
            if b == NP and f.attr in _INPLACE_NP:
                r = self.np_inplace(f.attr, args, arefs, kw, e)
                if r is not None:
                    return r
            if b == NP:
                r = self.np_call(f.attr, args, dict(kw), e)
                self._escape(r, args, kw, e)
                out = krefs.get("out")
                if "out" in kw and kw["out"] != NONE:
                    if out is None:
                        raise Unsupported("out= is not a local name at line %d" % e.lineno)
                    self.heap[out] = r
                    self.events.append(("store", r, e.lineno, self._seq()))
                return r
            bref = fr.env[f.value.id] if isinstance(f.value, ast.Name) and f.value.id in fr.env else None
            r = self.method_call(b, bref, f.attr, args, kw, e)
            self._escape(r, args, kw, e)
            return r
        if isinstance(f, ast.Name) and f.id not in fr.env:
            n = f.id
            if n in self.funcs:
                return self.call_func(n, args, arefs, kw, krefs, e)
            r = self.builtin(n, args, kw, e)
            self._escape(r, args, kw, e)
            return r
        # a callee that is a value: a local bound to a module function, an entry of a dispatch table, ...
        fv = self.ev(f, fr)
        if fv[0] == "func" and fv[1] in self.funcs:
            return self.call_func(fv[1], args, arefs, kw, krefs, e)
        r = ("call", ("local", f.id) if isinstance(f, ast.Name) else ("expr", norm(f)), tuple(args), tuple(sorted(kw.items())))
        self._escape(r, args, kw, e)
        return r

    def call_func(self, n, args, arefs, kw, krefs, e):
        if n == "unique" and len(args) == 1 and not kw:
            return ("uniqidx", _unperm(args[0]))         # the package's own unique: one index per distinct value
        if n == "unique" and args and len(args) + len(kw) == 2:
            # ... and with its second parameter (values=) set: the values at those indices instead of the indices
            a = self.funcs[n].args
            names = [x.arg for x in a.posonlyargs + a.args]
            sw = args[1] if len(args) == 2 else (kw.get(names[1]) if len(names) == 2 else None)
            if sw is not None and is_const(sw) and isinstance(sw[1], (bool, int)):
                idx = ("uniqidx", _unperm(args[0]))
                return t_take(args[0], idx) if sw[1] else idx
        if n in self.keep_calls or self.depth >= 3:
            r = ("call", n, tuple(args), tuple(sorted(kw.items())))
        else:
            r = self.inline(self.funcs[n], args, arefs, kw, krefs, e)
        self._escape(r, args, kw, e)
        return r

    def _escape(self, r, args, kw, e):
        """a call this executor has no model for received a search result: it may have changed it in place"""
        if isinstance(r, tuple) and r and r[0] in ("call", "mcall"):
            for a in list(args) + list(kw.values()):
                if a[0] in ("ss", "clamp", "setitem", "badclamp") or (a[0] == "take" and _gathered(a)[1] is not None):
                    self.events.append(("escape", a, e.lineno, self._seq(), show(r[1]) if r[0] == "call" else r[2]))

    def np_inplace(self, name, args, arefs, kw, e):
        """numpy functions that write into their first argument: putmask(a, mask, v) / place(a, mask, v) are a[mask] = v, put(a, ind, v) is
        a[ind] = v for a 1-d a, copyto(a, v, where=mask) is a[mask] = v"""
        idx = val = None
        kw = dict(kw)
        if name in ("putmask", "place", "put") and len(args) + len(kw) == 3:
            names = {"putmask": ("mask", "values"), "place": ("mask", "vals"), "put": ("ind", "v")}[name]
            rest = list(args[1:]) + [kw.pop(k, None) for k in names[len(args) - 1:]]
            if len(args) >= 1 and len(rest) == 2 and None not in rest and not kw:
                idx, val = rest
        elif name == "copyto" and len(args) == 2 and set(kw) <= {"where", "casting"} and "where" in kw:
            idx, val = kw["where"], args[1]
        if idx is None or not is_scalar(val):
            return None
        if not arefs or arefs[0] is None:
            raise Unsupported("np.%s into something that is not a local name at line %d" % (name, e.lineno))
        self.heap[arefs[0]] = t_setitem(self.heap[arefs[0]], idx, val)
        self.events.append(("store", self.heap[arefs[0]], e.lineno, self._seq()))
        return NONE

    def inline(self, fn, args, arefs, kw, krefs, e):
        if any(isinstance(x, (ast.For, ast.While, ast.Try, ast.With, ast.Yield, ast.YieldFrom)) for x in walk_no_nested(fn)):
            return ("call", fn.name, tuple(args), tuple(sorted(kw.items())))
        fr = Frame()
        pos = [r if r is not None else v for r, v in zip(arefs, args)]
        kws = {k: (krefs[k] if krefs.get(k) is not None else v) for k, v in kw.items()}
        self._bind_params(fr, fn, pos, kws)
        self.depth += 1
        try:
            self.block(fn.body, fr)
            return NONE
        except _Return as r:
            return r.val
        finally:
            self.depth -= 1

    def builtin(self, n, args, kw, e):
        if n == "len" and len(args) == 1:
            return t_size(args[0])
        if n == "isinstance" and len(args) == 2:
            types = args[1][1:] if args[1][0] == "tuple" else (args[1],)
            return ("isinstance", args[0], tuple(sorted(types, key=repr)))
        if n in ("max", "min") and len(args) == 1 and not kw:
            return (n, _unperm(args[0]))
        if n == "min" and len(args) == 2:
            return t_minimum(args[0], args[1])
        if n == "min" and len(args) == 1 and args[0][0] in ("tuple", "list") and len(args[0]) == 3:
            return t_minimum(args[0][1], args[0][2])
        if n in ("all", "any") and len(args) == 1:
            return (n, args[0])
        if n == "set" and len(args) == 1:
            return ("unique", _unperm(args[0]))
        if n in ("int", "bool") and len(args) == 1 and is_scalar(args[0]):
            return args[0] if n == "int" else self._truth(args[0])
        if n in ("list", "tuple") and not args:
            return (n,)
        if n and n[0].isupper() and (n.endswith("Error") or n.endswith("Exception") or n.endswith("Warning")):
            return ("exc", n, tuple(args))
        return ("call", n, tuple(args), tuple(sorted(kw.items())))

    def _asarray(self, x, kw, extra):
        if "dtype" in kw or extra:
            return ("conv", "dtype", x, kw.get("dtype", extra[0] if extra else NONE))
        if x[0] in ("a1d", "asarr") or x[0] in _ARRAYISH:
            return x
        if x[0] in ("list", "tuple"):
            return ("arr", x)
        return ("asarr", x)

    def np_call(self, name, args, kw, e):
        a0 = args[0] if args else None
        kw.pop("out", None) if name in ("minimum", "clip") else None
        if name == "atleast_1d" and len(args) == 1 and not kw:
            if a0[0] == "a1d":
                return a0
            if a0[0] == "asarr":
                return ("a1d", a0[1])
            if a0[0] in _ARRAYISH:
                return a0
            return ("a1d", a0)
        if name in _IDENT_NP and args:
            kw.pop("copy", None)
            kw.pop("order", None)
            return self._asarray(a0, kw, args[1:])
        if name in ("ravel", "copy") and len(args) == 1 and not kw and a0[0] in _ARRAYISH:
            return a0
        if name == "argsort" and len(args) == 1 and set(kw) <= {"kind"}:
            return ("argsort", a0)
        if name == "sort" and len(args) == 1 and set(kw) <= {"kind"}:
            return t_take(a0, ("argsort", a0))
        if name == "searchsorted" and len(args) >= 2:
            side = args[2] if len(args) > 2 else kw.get("side", K("left"))
            sorter = args[3] if len(args) > 3 else kw.get("sorter")
            r = t_ss(a0, args[1], side, sorter)
            self.events.append(("ss", _gathered(r)[0], e.lineno, self._seq()))
            return r
        if name == "where" and not kw:
            if len(args) == 1:
                return ("tuple", ("where0", a0))
            if len(args) == 3:
                return t_where3(*args)
        if name == "nonzero" and len(args) == 1 and not kw:
            return ("tuple", ("where0", a0))
        if name == "flatnonzero" and len(args) == 1 and not kw:
            return ("where0", a0)
        if name == "unique" and len(args) == 1 and not kw:
            return ("unique", _unperm(a0))
        if name == "unique" and len(args) == 1 and kw == {"return_index": K(True)}:
            # the sorted distinct values and the index of the first occurrence of each
            return ("tuple", ("unique", _unperm(a0)), ("uniqidx", _unperm(a0)))
        if name == "minimum" and len(args) == 2 and not kw:
            return t_minimum(args[0], args[1])
        if name == "clip" and len(args) >= 2 and not kw:
            lo = args[1]
            hi = args[2] if len(args) > 2 else NONE
            if lo in (NONE, K(0)) and hi != NONE:
                return t_minimum(a0, hi)
        if name in ("max", "amax", "min", "amin") and len(args) == 1 and not kw:
            r = ("max" if "max" in name else "min", _unperm(a0))
            self.events.append(("npreduce", r, e.lineno, self._seq()))
            return r
        if name in ("equal", "not_equal") and len(args) == 2 and not kw:
            return t_cmp("eq" if name == "equal" else "ne", args[0], args[1])       # the ufunc behind == / !=
        if name in _SETOPS and len(args) >= 2:
            r = ("call", "np." + name, tuple(args), tuple(sorted(kw.items())))
            self.events.append(("setop", r, e.lineno, self._seq()))
            return r
        if name in ("all", "any", "alltrue", "sometrue") and len(args) == 1 and not kw:
            return ("all" if name in ("all", "alltrue") else "any", a0)
        if name == "size" and len(args) == 1 and not kw:
            return t_size(a0)
        if name in ("zeros", "empty", "ones") and args:
            return ("alloc", name, a0)
        if name in ("zeros_like", "empty_like", "ones_like") and args:
            return ("alloc", name[:-5], t_size(a0))
        if name == "diff" and len(args) == 1 and not kw:
            return ("diff", a0)
        if name in ("concatenate", "hstack") and len(args) == 1 and a0[0] in ("tuple", "list") and set(kw) <= {"axis"}:
            return ("concat",) + tuple(a0[1:])
        if name == "append" and len(args) == 2 and not kw:
            return ("concat", args[0], args[1])
        if name == "arange" and len(args) == 1:
            return ("arange", a0)
        if name == "take" and len(args) == 2 and not kw:
            return t_take(args[0], args[1])
        if name in ("logical_not", "invert") and len(args) == 1:
            return ("inv", a0)
        if name == "roll" and len(args) + len(kw) == 2 and set(kw) <= {"shift"} and args:
            return t_roll(a0, args[1] if len(args) > 1 else kw["shift"])
        return ("call", "np." + name, tuple(args), tuple(sorted(kw.items())))

    def method_call(self, b, bref, name, args, kw, e):
        a0 = args[0] if args else None
        if name == "argsort" and not args and set(kw) <= {"kind"}:
            return ("argsort", b)
        if name in ("max", "min") and not args and not kw:
            r = (name, _unperm(b))
            self.events.append(("npreduce", r, e.lineno, self._seq()))
            return r
        if name in ("all", "any") and not args and not kw:
            return (name, b)
        if name == "astype":
            return ("conv", "astype", b, a0 if args else kw.get("dtype", NONE))
        if name == "view" and (args or kw):
            return ("conv", "view", b, a0 if args else NONE)
        if name in ("ravel", "flatten", "copy") and not args and not kw and b[0] in _ARRAYISH:
            return b
        if name == "nonzero" and not args:
            return ("tuple", ("where0", b))
        if name == "searchsorted" and args:
            side = args[1] if len(args) > 1 else kw.get("side", K("left"))
            sorter = args[2] if len(args) > 2 else kw.get("sorter")
            r = t_ss(b, a0, side, sorter)
            self.events.append(("ss", _gathered(r)[0], e.lineno, self._seq()))
            return r
        if name == "clip" and (args or kw):
            lo = a0 if args else kw.get("min", NONE)
            hi = args[1] if len(args) > 1 else kw.get("max", NONE)
            if lo in (NONE, K(0)) and hi != NONE:
                r = t_minimum(b, hi)
                if "out" in kw and kw["out"] != NONE:
                    raise Unsupported("clip(out=) method at line %d" % e.lineno)
                return r
        if name == "sort" and not args and set(kw) <= {"kind"}:
            if bref is None:
                raise Unsupported("in-place sort of a non-local at line %d" % e.lineno)
            self.heap[bref] = ("sorted", b)
            self.events.append(("sort", b, e.lineno, self._seq()))
            return NONE
        if name == "append" and len(args) == 1 and b[0] == "list" and bref is not None:
            self.heap[bref] = b + (a0,)
            return NONE
        if name in ("take",) and len(args) == 1 and not kw:
            return t_take(b, a0)
        if name == "sum" and not args:
            return ("sum", b)
        if name == "tolist" and not args:
            return b
        return ("mcall", b, name, tuple(args), tuple(sorted(kw.items())))


_MUTATORS = ("update", "append", "extend", "insert", "add", "setdefault", "pop", "popitem", "clear", "remove", "discard", "__setitem__",
             "__delitem__", "move_to_end", "appendleft")


def _module_state(tree, defs, consts):
    """{name: how it is written} for the module-level names (module functions used as attribute holders included) that a function of the module
    writes: re-binding under a `global` declaration, a store / delete through a subscript or an attribute, a call of a mutating container
    method.  What such a name holds when a function reads it depends on the calls made before, not on the arguments of the call at hand"""
    scope = set(defs)
    for n in walk_no_nested(tree):
        if isinstance(n, ast.Name) and isinstance(n.ctx, ast.Store):
            scope.add(n.id)
    out = {}

    def base(x):
        while isinstance(x, (ast.Subscript, ast.Attribute)):
            x = x.value
        return x.id if isinstance(x, ast.Name) else None
    for fn in ast.walk(tree):
        if not isinstance(fn, (ast.FunctionDef, ast.AsyncFunctionDef)):
            continue
        glob = {g for x in ast.walk(fn) if isinstance(x, ast.Global) for g in x.names}
        local = {x.arg for x in ast.walk(fn) if isinstance(x, ast.arg)} | {x.id for x in ast.walk(fn) if isinstance(x, ast.Name) and isinstance(x.ctx, ast.Store)}
        local -= glob
        for x in ast.walk(fn):
            if isinstance(x, ast.Name) and isinstance(x.ctx, (ast.Store, ast.Del)) and x.id in glob:
                out.setdefault(x.id, "re-bound under `global %s` in %s() at line %d" % (x.id, fn.name, x.lineno))
            elif isinstance(x, (ast.Subscript, ast.Attribute)) and isinstance(x.ctx, (ast.Store, ast.Del)):
                b = base(x.value)
                if b in scope and b not in local:
                    out.setdefault(b, "stored into by %s() at line %d" % (fn.name, x.lineno))
            elif isinstance(x, ast.Call) and isinstance(x.func, ast.Attribute) and x.func.attr in _MUTATORS:
                b = base(x.func.value)
                if b in scope and b not in local:
                    out.setdefault(b, "changed with .%s() by %s() at line %d" % (x.func.attr, fn.name, x.lineno))
    return out


def state_reads(t, state):
    """the reads of module-level state (see _module_state) inside a term: [text]"""
    out = []
    for x in subterms(t):
        if isinstance(x, tuple) and len(x) >= 2:
            if x[0] == "global" and x[1] in state and x[1] not in out:
                out.append(x[1])
            elif x[0] == "attr" and len(x) == 3 and isinstance(x[1], tuple) and x[1][:1] == ("func",) and x[1][1] in state:
                n = "%s.%s" % (x[1][1], x[2])
                if n not in out:
                    out.append(n)
            elif x[0] == "call" and x[1] == "getattr" and len(x) > 2 and len(x[2]) >= 2 and x[2][0][:1] == ("func",) and x[2][0][1] in state and is_const(x[2][1]):
                n = "%s.%s" % (x[2][0][1], x[2][1][1])
                if n not in out:
                    out.append(n)
    return out


class RawModule:
    """the module as written (no rename-undo): every rule below finds its constructs through parameters, numpy callees and data flow"""

    def __init__(self, repo, modname):
        self.info = repo.module(modname)
        self.name = modname
        self.path = self.info.path
        self.tree = ast.parse(self.info.src, filename=self.path)
        self.defs = {n.name: n for n in self.tree.body if isinstance(n, ast.FunctionDef)}
        # names bound exactly once in the module, by a plain top-level assignment, and never declared global in a function
        count, val = {}, {}
        for n in ast.walk(self.tree):
            if isinstance(n, ast.Name) and isinstance(n.ctx, (ast.Store, ast.Del)):
                count[n.id] = count.get(n.id, 0) + 1
            elif isinstance(n, ast.Global):
                for g in n.names:
                    count[g] = count.get(g, 0) + 2
        for n in self.tree.body:
            if isinstance(n, ast.Assign) and len(n.targets) == 1 and isinstance(n.targets[0], ast.Name):
                val[n.targets[0].id] = n.value
        self.consts = {k: v for k, v in val.items() if count.get(k) == 1 and k not in self.defs}
        # a mutable table counts as constant only when every use of its name is a read `NAME[key]` (no store, no method call, no alias)
        mutable = {k for k, v in self.consts.items() if not isinstance(v, (ast.Constant, ast.Name, ast.Attribute, ast.Tuple))}
        reads = set()
        for n in ast.walk(self.tree):
            if isinstance(n, ast.Subscript) and isinstance(n.ctx, ast.Load) and isinstance(n.value, ast.Name):
                reads.add(id(n.value))
        for n in ast.walk(self.tree):
            if isinstance(n, ast.Name) and isinstance(n.ctx, ast.Load) and n.id in mutable and id(n) not in reads:
                self.consts.pop(n.id, None)
        self.state = _module_state(self.tree, self.defs, self.consts)
        names = {n.id for n in walk_no_nested(self.tree) if isinstance(n, ast.Name) and isinstance(n.ctx, ast.Store)} | set(self.state)
        for d in self.defs.values():
            d._module_names = names

    def func(self, name):
        if name not in self.defs:
            raise AnalysisError("anchor %s.%s not found in the current tree" % (self.name, name))
        return FuncInfo(self.name + "." + name, self.info, None, self.defs[name], self.path)


def run(chk):
    repo = PyRepo()
    chk.set_templates(repo, semantic=SEMANTIC)
    chk.explanation = MANIFEST["text"]
    chk.trusted = ["numpy.argsort / searchsorted / unique / where semantics", "CPython ast"]
    chk.floor = 30
    mod = RawModule(repo, NU[:-1])
    for name, arrs in (("unique", 1), ("rem_dup", 2)):
        fi = mod.func(name)
        chk.analysed_unit(fi.qualname)
        dedup_rules(chk, mod, fi, arrs)
    match_rules(chk, mod)


# ---------------------------------------------------------------------------
# reporting helper: one rule instance decided over several paths
# ---------------------------------------------------------------------------
class Verdicts:
    """collects (ok, msg, where) per instance key; the instance is a violation when some path contradicts the rule, has no verdict
    when some path could not be recognised, and passes otherwise"""

    def __init__(self):
        self.d = {}
        self.order = []

    def add(self, key, ok, msg, where):
        if key not in self.d:
            self.d[key] = []
            self.order.append(key)
        self.d[key].append((ok, msg, where))

    def emit(self, chk, rule, prefix):
        for key in self.order:
            rs = self.d[key]
            bad = [r for r in rs if r[0] is False]
            unk = [r for r in rs if r[0] is None]
            pick = (bad or unk or rs)[0]
            ok = False if bad else (None if unk else True)
            chk.ob(rule, prefix + "::" + key, ok, pick[2], pick[1])


class _Noted:
    """a Verdicts view that appends a note to the message of every instance that does not pass"""

    def __init__(self, V, note):
        self.V, self.note = V, note

    def add(self, key, ok, msg, where):
        self.V.add(key, ok, msg if ok else msg + self.note, where)


def root_of(t):
    """(parameter term, conversions on the way) for a chain of array normalisations / conversions, else (None, ...)"""
    conv = []
    while isinstance(t, tuple):
        if t[0] in ("a1d", "asarr"):
            t = t[1]
        elif t[0] == "conv":
            conv.append(t)
            t = t[2]
        elif t[0] == "param":
            return t, conv
        else:
            break
    return None, conv


def raw_occurs(t, p0):
    """does p0 occur in t other than as the operand of its clamp"""
    if t == p0:
        return True
    if not isinstance(t, tuple):
        return False
    if t and t[0] == "clamp" and t[1] == p0:
        return False
    return any(raw_occurs(c, p0) for c in t if isinstance(c, tuple))


def short(t, n=110):
    s = show(t)
    return s if len(s) <= n else s[: n - 3] + "..."


def show(t):
    """compact rendering of a term for messages"""
    if not isinstance(t, tuple) or not t:
        return repr(t)
    h = t[0]
    if h == "const":
        return repr(t[1])
    if h == "param":
        return t[1]
    if h == "flagv":
        return "<some %s object other than %s>" % ("truthy" if t[1] else "falsy", t[1])
    if h in ("a1d", "asarr"):
        return "%s(%s)" % ("atleast_1d" if h == "a1d" else "asarray", show(t[1]))
    if h == "take":
        return "%s[%s]" % (show(t[1]), show(t[2]))
    if h == "slice":
        return ":".join("" if x == NONE else show(x) for x in t[1:3])
    if h == "cmp":
        return "(%s %s %s)" % (show(t[2]), {"eq": "==", "ne": "!=", "lt": "<", "le": "<="}.get(t[1], t[1]), show(t[3]))
    if h == "binop":
        return "(%s %s %s)" % (show(t[2]), t[1], show(t[3]))
    if h == "ss":
        return "searchsorted(%s, %s%s%s)" % (show(t[1]), show(t[3]), "" if t[2] == NONE else ", sorter=" + show(t[2]),
                                             "" if t[4] == K("left") else ", side=" + show(t[4]))
    if h == "clamp":
        return "clamp(%s, size(%s)-1)" % (show(t[1]), show(t[2]))
    if h == "conv":
        return "%s<%s>(%s)" % (t[1], show(t[3]), show(t[2]))
    if h in ("or", "and"):
        return "(" + (" %s " % h).join(show(x) for x in t[1:]) + ")"
    if h == "where0":
        return "where(%s)[0]" % show(t[1])
    if h in ("tuple", "list"):
        return "(" + ", ".join(show(x) for x in t[1:]) + ")"
    return "%s(%s)" % (h, ", ".join(show(x) if isinstance(x, tuple) else str(x) for x in t[1:]))


# ---------------------------------------------------------------------------
# facts
# ---------------------------------------------------------------------------
SL_NEXT = ("slice", K(1), NONE, NONE)
SL_PREV = ("slice", NONE, K(-1), NONE)


def _neighbours(a):
    s = ("argsort", a)
    return (("sorted", ("take", a, ("take", s, SL_NEXT)), ("take", a, ("take", s, SL_PREV)), ("take", a, s)),
            ("raw", ("take", a, SL_NEXT), ("take", a, SL_PREV), a))


def _diff_of(t, a):
    """t is the array of differences successor - predecessor (sign +1) or predecessor - successor (sign -1) of `a` in sorted order / as
    given: (base, sign) or None"""
    if not isinstance(t, tuple) or not t:
        return None
    for base, nxt, prv, whole in _neighbours(a):
        if t == ("diff", whole) or t == ("binop", "-", nxt, prv):
            return base, 1
        if t == ("binop", "-", prv, nxt) or t == ("neg", ("diff", whole)):
            return base, -1
    return None


_REV = {"lt": "gt", "le": "ge", "gt": "lt", "ge": "le"}


def neighbour_test(t, a):
    """t tests every element of `a` in sorted order (base 'sorted') or as given (base 'raw') against its successor: returns
    (relation prev?next in {'lt','le','eq','ne','gt','ge'}, base, via) or None; via is 'cmp' when the two values are compared with each other and
    'diff' when the test looks at the sign / zero-ness of their arithmetic difference"""
    if not isinstance(t, tuple) or not t:
        return None
    d = _diff_of(t, a)
    if d is not None:                       # the differences used as truth values
        return "ne", d[0], "diff"
    if not (t[0] == "cmp" and t[1] in ("lt", "le", "eq", "ne")):
        return None
    for base, nxt, prv, whole in _neighbours(a):
        if (t[2], t[3]) == (prv, nxt):
            return t[1], base, "cmp"
        if (t[2], t[3]) == (nxt, prv):
            return _REV.get(t[1], t[1]), base, "cmp"
    for zero, other, zero_left in ((t[2], t[3], True), (t[3], t[2], False)):
        if zero not in (K(0), K(0.0), K(False)):
            continue
        d = _diff_of(other, a)
        if d is None:
            continue
        base, sign = d
        if t[1] in ("eq", "ne"):
            return t[1], base, "diff"
        rel = t[1] if zero_left else _REV[t[1]]         # 0 < next-prev: prev < next;  next-prev < 0: prev > next
        return (rel if sign > 0 else _REV[rel]), base, "diff"
    return None


def _cyclic_forms(whole):
    """the ways of writing `whole` shifted by one place with wrap-around: ([predecessor of every entry, the LAST entry standing before entry 0],
    [successor of every entry, the FIRST entry standing after the last one])"""
    n = t_size(whole)
    last, first = t_take(whole, K(-1)), t_take(whole, K(0))
    prev = [("roll", whole, K(1)),
            ("concat", t_take(whole, ("slice", K(-1), NONE, NONE)), t_take(whole, SL_PREV)),
            ("concat", ("list", last), t_take(whole, SL_PREV)), ("concat", ("tuple", last), t_take(whole, SL_PREV)),
            ("concat", last, t_take(whole, SL_PREV)),
            t_take(whole, ("binop", "+", ("arange", n), K(-1)))]
    nxt = [("roll", whole, K(-1)),
           ("concat", t_take(whole, SL_NEXT), t_take(whole, ("slice", NONE, K(1), NONE))),
           ("concat", t_take(whole, SL_NEXT), t_take(whole, ("slice", K(0), K(1), NONE))),
           ("concat", t_take(whole, SL_NEXT), ("list", first)), ("concat", t_take(whole, SL_NEXT), ("tuple", first)),
           ("concat", t_take(whole, SL_NEXT), first)]
    return prev, nxt


def _cyclic_mask(m, a):
    """m compares every element of `a` (base 'sorted': in sorted order, 'raw': as given) with a neighbour taken *cyclically* (numpy.roll, the last
    element put in front, index p-1 for every p including 0): (relation earlier?later, base, 'prev' | 'next').  Unlike x[1:] ? x[:-1] such a mask
    has one entry per element, and the entry at the wrap-around (entry 0 for 'prev', the last entry for 'next') compares the two ENDS of the array
    with each other"""
    if not (isinstance(m, tuple) and m and m[0] == "cmp" and m[1] in ("eq", "ne", "lt", "le")):
        return None
    for base, nxt, prv, whole in _neighbours(a):
        pf, nf = _cyclic_forms(whole)
        for which, forms in (("prev", pf), ("next", nf)):
            for f in forms:
                if (m[2], m[3]) == (f, whole):
                    return (m[1] if which == "prev" else _REV.get(m[1], m[1])), base, which
                if (m[2], m[3]) == (whole, f):
                    return (_REV.get(m[1], m[1]) if which == "prev" else m[1]), base, which
    return None


def neighbour_cmp(t, a):
    """(relation, base) of neighbour_test, however the test is computed"""
    r = neighbour_test(t, a)
    return None if r is None else r[:2]


def _same_elements(x, a):
    """x holds elements of the array a (a itself, a normalised / re-ordered / sub-selected a): same element type"""
    while isinstance(x, tuple) and x:
        if x == a:
            return True
        if x[0] in ("take", "a1d", "asarr", "sorted"):
            x = x[1]
        else:
            return False
    return False


_ALL_KINDS = frozenset("biufcmMOSUV")


def _kind_set(t, a):
    """the set of numpy dtype kinds for which the condition t on the element type of `a` holds, None when t is not such a condition"""
    def is_kind(x):
        return isinstance(x, tuple) and x[0] == "attr" and x[2] == "kind" and x[1][0] == "dtype" and _same_elements(x[1][1], a)

    def strs(x):
        if is_const(x) and isinstance(x[1], str):
            return set(x[1])
        if isinstance(x, tuple) and x and x[0] in ("tuple", "list") and all(is_const(y) and isinstance(y[1], str) and len(y[1]) == 1 for y in x[1:]):
            return {y[1] for y in x[1:]}
        return None
    if not isinstance(t, tuple) or not t:
        return None
    if t[0] == "cmp" and t[1] in ("eq", "ne", "in", "notin"):
        for l, r in ((t[2], t[3]), (t[3], t[2])):
            if is_kind(l) and strs(r) is not None and (t[1] in ("eq", "ne") and is_const(r) and len(r[1]) == 1 or (t[1] in ("in", "notin") and l == t[2])):
                ks = strs(r) & _ALL_KINDS
                return ks if t[1] in ("eq", "in") else _ALL_KINDS - ks
        return None
    if t[0] in ("or", "and"):
        parts = [_kind_set(x, a) for x in t[1:]]
        if any(p_ is None for p_ in parts):
            return None
        out = set(parts[0])
        for p_ in parts[1:]:
            out = (out | p_) if t[0] == "or" else (out & p_)
        return out
    if t[0] == "not":
        k = _kind_set(t[1], a)
        return None if k is None else _ALL_KINDS - k
    return None


def element_kinds(facts, a):
    """the dtype kinds the elements of `a` can have on a path with these facts (a set), or None when a test on the element type is not understood"""
    kinds = set(_ALL_KINDS)
    for t, v, _ in facts:
        if not any(isinstance(x, tuple) and x and x[0] == "dtype" and _same_elements(x[1], a) for x in subterms(t)):
            continue
        k = _kind_set(t, a)
        if k is None:
            return None
        kinds &= k if v else (_ALL_KINDS - k)
    return kinds


def fact_kind(t, v, a1, a2, pres):
    """classify one atomic path fact: 'unique' (the first array has no repeated value), 'nonempty1' / 'nonempty2', 'noexceed'
    (no element of the second array exceeds the first array's maximum), 'other' (understood, none of these), None (not understood)"""
    h = t[0]
    n1, n2 = ("size", a1), ("size", a2)
    if end_fact(t, v) is not None:
        return "other"              # asks whether the search found a position past the end: what follows from it is decided where the clamp is
    if h == "cmp":
        op, l, r = t[1:]
        if op in ("is", "isnot"):
            return "other"          # which object an array is says nothing about what it holds (arrays are mutable): none of the guards
        u = ("size", ("unique", a1))
        if op in ("lt", "le"):
            # element counts are integers: A + a < B + b is A < B + (b - a); A < B + 1 is A <= B, A <= B - 1 is A < B
            def off(x):
                if isinstance(x, tuple) and x[0] == "binop" and x[1] == "+" and is_const(x[3]) and type(x[3][1]) is int:
                    return x[2], x[3][1]
                return x, 0
            (lb, lo), (rb, ro) = off(l), off(r)
            if (lo or ro) and {lb, rb} <= {u, n1, n2} and lb != rb:
                d = ro - lo + (1 if op == "le" else 0)          # lb < rb + d
                if d in (0, 1):
                    op, l, r = ("lt" if d == 0 else "le"), lb, rb
        if {l, r} == {u, n1}:
            if (op == "eq" and v) or (op == "ne" and not v):
                return "unique"
            if op == "lt" and (l, r) == (u, n1) and not v:
                return "unique"
            if op == "le" and (l, r) == (n1, u) and v:
                return "unique"
            return "other"
        for n, tag in ((n1, "nonempty1"), (n2, "nonempty2")):
            if {l, r} == {n, K(0)}:
                if (op == "eq" and not v) or (op == "ne" and v) or (op == "lt" and l == K(0) and v) or (op == "le" and l == n and not v):
                    return tag
                return "other"
            if {l, r} == {n, K(1)}:
                if (op == "eq" and v) or (op == "ne" and not v):
                    return tag + ("+unique+single" if n == n1 else "")       # exactly one element: not empty, and no value can be repeated
                if (op == "lt" and l == n and not v) or (op == "le" and l == K(1) and v):
                    return tag
                return "other"
        for both in (("call", "minimum", (n1, n2)), ("call", "minimum", (n2, n1)), ("binop", "*", n1, n2), ("binop", "*", n2, n1)):
            if {l, r} == {both, K(0)}:
                if (op == "eq" and not v) or (op == "ne" and v) or (op == "lt" and l == K(0) and v) or (op == "le" and l == both and not v):
                    return "nonempty1+nonempty2"
                return "other"
        m1, m2 = ("max", a1), ("max", a2)
        # the largest element read off the sort order: a[argsort(a)[-1]] (a[-1] when the caller declared the array sorted) is max(a)
        last = [("take", a, ("take", ("argsort", a), K(-1))) for a in (a1, a2)]
        l, r = (m1 if x == last[0] or (pres and x == ("take", a1, K(-1))) else (m2 if x == last[1] else x) for x in (l, r))
        if {l, r} == {m1, m2}:
            if (op == "lt" and l == m1 and not v) or (op == "le" and l == m2 and v) or (op == "le" and l == m1 and not v) or (op == "lt" and l == m2 and v):
                return "noexceed"
            return "other"
        if any(x[0] in ("dtype", "isinstance", "max", "min") or (x[0] == "attr" and x[2] == "ndim") for x in (l, r)):
            return "other"          # a test on the element type / the number of dimensions / extreme values: none of the guards
        if not contains(t, a1) and not contains(t, a2):
            return "other"
        return None
    if h in (n1[0],) and t in (n1, n2):
        return ("nonempty1" if t == n1 else "nonempty2") if v else "other"
    if h in ("all", "any"):
        nc = neighbour_cmp(t[1], a1)
        if nc is not None:
            rel, base = nc
            if base == "sorted" or pres:
                if (h == "all" and v and rel in ("lt", "ne")) or (h == "any" and not v and rel in ("eq", "ge")):
                    return "unique"
                if h == "all" and v and rel == "gt" and base == "raw":
                    return "unique"
            return "other"          # a sortedness test, or a neighbour test that does not exclude equal neighbours
        return None if contains(t, a1) else "other"
    if h == "isinstance" or h == "param":
        return "other"
    if h in ("or", "and"):
        # a disjunction that held / a conjunction that failed: nothing follows for the single operands
        ks = [fact_kind(x, tv, a1, a2, pres) for x in t[1:] for tv in (True, False)]
        return None if any(k is None for k in ks) else "other"
    if not contains(t, a1) and not contains(t, a2):
        return "other"
    return None



# ---------------------------------------------------------------------------
# element types: which kinds of data reach a construct
# ---------------------------------------------------------------------------
_A = _ALL_KINDS
# the numpy abstract / concrete scalar types and Python types a type test may name -> the dtype kinds they cover
_TYPE_KINDS = {
    "str_": "U", "unicode_": "U", "bytes_": "S", "string_": "S", "character": "SU", "flexible": "SUV", "void": "V", "number": "iufc", "integer": "iu",
    "signedinteger": "i", "unsignedinteger": "u", "inexact": "fc", "floating": "f", "complexfloating": "c", "bool_": "b", "object_": "O",
    "generic": "biufcmMOSUV", "datetime64": "M", "timedelta64": "m",
    "py:str": "U", "py:bytes": "S", "py:int": "iu", "py:float": "f", "py:complex": "c", "py:bool": "b", "py:object": "biufcmMOSUV",
}


def _named_kinds(x):
    """the dtype kinds covered by the type named by the term x (numpy.str_, str, numpy.character, ...), None when unknown"""
    if isinstance(x, tuple) and len(x) == 2 and x[0] == "npattr" and x[1] in _TYPE_KINDS:
        return set(_TYPE_KINDS[x[1]])
    if isinstance(x, tuple) and len(x) == 2 and x[0] == "global" and "py:" + str(x[1]) in _TYPE_KINDS:
        return set(_TYPE_KINDS["py:" + x[1]])
    if is_const(x) and isinstance(x[1], str) and len(x[1]) == 1 and x[1] in "SU":
        return {x[1]}
    return None


def _is_type_test(t):
    """does the term look at the element type of something (so that it could tell strings from numbers)"""
    return any(isinstance(x, tuple) and x and (x[0] in ("dtype", "isinstance") or (x[0] == "call" and isinstance(x[1], str) and (
        "dtype" in x[1] or x[1] in ("type", "np.isreal", "np.isrealobj", "np.result_type", "np.can_cast"))) or (x[0] == "attr" and x[2] in ("kind", "char", "type", "itemsize")))
               for x in subterms(t))


def type_test(t, arrs):
    """(kinds for which the test t can be true, kinds for which it can be false) when t tests the element type of one of the arrays `arrs`
    (isinstance of an element, dtype.kind / dtype.char membership, numpy.issubdtype of the dtype); None when t is not understood as such a test.
    An object array may or may not hold strings: kind O can go either way for a test on an element"""
    if not isinstance(t, tuple) or not t:
        return None
    h = t[0]
    if h == "not":
        r = type_test(t[1], arrs)
        return None if r is None else (r[1], r[0])
    if h in ("or", "and"):
        parts = [type_test(x, arrs) for x in t[1:]]
        if any(p_ is None for p_ in parts):
            return None
        yes, no = set(parts[0][0]), set(parts[0][1])
        for py, pn in parts[1:]:
            yes, no = ((yes | py, no & pn) if h == "or" else (yes & py, no | pn))
        return yes, no
    if h == "isinstance" and len(t) == 3:
        el = t[1]
        if not (isinstance(el, tuple) and el and el[0] == "take" and is_scalar(el[2]) and any(_same_elements(el[1], a) for a in arrs)):
            return None
        ks = set()
        for ty in t[2]:
            k = _named_kinds(ty)
            if k is None or is_const(ty):
                return None
            ks |= k
        return ks | {"O"}, (_A - ks) | {"O"}
    if h == "call" and t[1] in ("np.issubdtype", "np.issubsctype") and len(t[2]) == 2 and not t[3]:
        d, ty = t[2]
        if isinstance(d, tuple) and d and d[0] == "dtype" and any(_same_elements(d[1], a) for a in arrs):
            ks = _named_kinds(ty)
            if ks is not None and not is_const(ty):
                return ks, _A - ks
        return None
    if h == "cmp" and t[1] in ("eq", "ne"):
        # dtype.char: 'S' and 'U' are the characters of the two string kinds (other characters are per-size codes: not read here)
        for l, r in ((t[2], t[3]), (t[3], t[2])):
            if (isinstance(l, tuple) and l[0] == "attr" and l[2] == "char" and l[1][0] == "dtype" and any(_same_elements(l[1][1], a) for a in arrs)
                    and is_const(r) and r[1] in ("S", "U")):
                return ({r[1]}, _A - {r[1]}) if t[1] == "eq" else (_A - {r[1]}, {r[1]})
    if h == "cmp" and t[1] in ("in", "notin") and is_const(t[3]) and isinstance(t[3][1], str) and t[3][1] and set(t[3][1]) <= {"S", "U"}:
        l = t[2]
        if isinstance(l, tuple) and l[0] == "attr" and l[2] == "char" and l[1][0] == "dtype" and any(_same_elements(l[1][1], a) for a in arrs):
            ks = set(t[3][1])
            return (ks, _A - ks) if t[1] == "in" else (_A - ks, ks)
    for a in arrs:
        k = _kind_set(t, a)
        if k is not None:
            return set(k), _A - k
    return None


def kinds_under(conds, arrs):
    """conds: [(term, truth)] all of which hold.  (the dtype kinds the arrays' elements can have, the first type test among them that is not
    understood or None) -- a test that is not understood can only narrow the set further"""
    kinds, unknown = set(_A), None
    for t, v in conds:
        tt = type_test(t, arrs)
        if tt is None:
            if unknown is None and _is_type_test(t):
                unknown = t
            continue
        kinds &= tt[0] if v else tt[1]
    return kinds, unknown


def _reduce_context(t, v, red):
    """the decided test `t is v` holds the reduction term `red`; the operands of a short-circuit test that were evaluated (and how they came out)
    before the operand holding `red` is reached: [(term, truth)], or None when `red` is evaluated whatever the other operands say"""
    if t[0] == "not":
        return _reduce_context(t[1], not v, red)
    if t[0] in ("or", "and"):
        ctx = []
        for x in t[1:]:
            if contains(x, red):
                return ctx + (_reduce_context(x, None, red) or [])
            ctx.append((x, t[0] == "and"))          # evaluation goes on past an operand of `or` only when it was false, of `and` only when true
    return None


def string_safe_reductions(V, p, a1, a2, tag, wf):
    """numpy has no maximum / minimum for string data (arr.max() of an S or U array raises): a reduction of one of the two arrays must only be
    evaluated where the tests passed so far exclude byte strings AND unicode strings"""
    arrs = (a1, a2)
    reds = []
    for e in p.events:
        if e[0] == "npreduce" and any(_same_elements(e[1][1], a) for a in arrs) and not any(e[1] == r_[1] and e[3] > r_[3] for r_ in reds):
            reds.append(e)
    key = "string-input-accepted" + tag
    msg = ("byte and unicode strings are accepted: numpy's max() / min() of an input array (not defined for string data) is evaluated only where "
           "the tests passed before it exclude both string kinds (S and U)")
    for e in reds:
        red, line, seq = e[1], e[2], e[3]
        conds = [(t, v) for t, v, sq in p.facts if sq < seq]
        later = [(t, v) for t, v, sq in p.facts if sq > seq and contains(t, red)]
        if later:
            lseq = min(sq for t, v, sq in p.facts if sq > seq and contains(t, red))
            marks = [m[3] for m in p.events if m[0] == "test" and m[3] < lseq]
            if marks and max(marks) < seq:
                # the reduction is part of the expression of the test that decided `later`: the operands of that test standing before it were
                # evaluated first (facts of the same decision, in source order; operands of an undecomposed or / and)
                conds += [(t, v) for t, v, sq in p.facts if max(marks) < sq < lseq and sq > seq]
                conds += _reduce_context(later[0][0], later[0][1], red) or []
        kinds, unknown = kinds_under(conds, arrs)
        w = "%s:%s" % (wf.rsplit(":", 1)[0], line)
        strs = sorted(kinds & {"S", "U"})
        if not strs:
            V.add(key, True, msg, w)
        elif unknown is not None:
            V.add(key, None, msg + " -- a type test on this path is not understood: %s" % short(unknown), w)
        else:
            V.add(key, False, msg + "; `%s` at line %d is evaluated for %s input: the type tests passed before it (%s) do not exclude kind %s"
                  % (short(red, 60), line, " and ".join({"S": "byte-string", "U": "unicode-string"}[k] for k in strs),
                     "; ".join("%s is %s" % (short(t, 70), v) for t, v in conds if _is_type_test(t)) or "none", "/".join(strs)), w)
    if not reds:
        V.add(key, True, msg + " (no such reduction on this path)", wf)


_INEXACT_EQ = {
    ("char", "equal"): "numpy.char.equal strips trailing whitespace before comparing ('ab ' equals 'ab')",
    ("char", "compare_chararrays"): "numpy.char.compare_chararrays compares after removing trailing whitespace when rstrip is set",
    ("core.defchararray", "equal"): "numpy.char.equal strips trailing whitespace before comparing ('ab ' equals 'ab')",
    (None, "isclose"): "numpy.isclose accepts values that differ by a tolerance",
    (None, "char.equal"): "numpy.char.equal strips trailing whitespace before comparing ('ab ' equals 'ab')",
}


def inexact_equality(m, a1, a2):
    """m is the mask of a library comparison that is known NOT to be equality of the values, applied to elements of the two arrays: the reason"""
    if not (isinstance(m, tuple) and m):
        return None
    why = args = None
    if m[0] == "mcall" and isinstance(m[1], tuple) and m[1] and m[1][0] in ("npattr", "attr"):
        owner = m[1][1] if m[1][0] == "npattr" else (m[1][2] if m[1][1] == ("npattr", "core") or m[1][1] == ("npattr", "_core") else None)
        owner = {"defchararray": "char", "chararray": "char"}.get(owner, owner)
        why, args = _INEXACT_EQ.get((owner, m[2])), m[3]
        if m[2] == "compare_chararrays" and why and not (len(args) == 4 and args[2] == K("==")):
            return None
        if m[2] == "compare_chararrays" and why and args[3] == K(False):
            return None
    elif m[0] == "call" and isinstance(m[1], str) and m[1].startswith("np."):
        why, args = _INEXACT_EQ.get((None, m[1][3:])), m[2]
    if not why or len(args) < 2:
        return None
    if any(contains(args[0], a) for a in (a1, a2)) and any(contains(args[1], a) for a in (a1, a2)):
        return why
    return None


def set_routine_promises(V, p, fi, a1, a2, kinds, tag, wf):
    """numpy's set routines (isin, in1d, intersect1d, setdiff1d, setxor1d) take assume_unique: a promise that BOTH operands hold no repeated value
    (on their sort-based path a repeated value is then mis-reported).  The second array may hold repeats: the promise may not be made for it"""
    key = "no-uniqueness-promise-for-second-array" + tag
    msg = ("repeats are allowed in the second array: a numpy set routine that receives (elements of) the second array is not told assume_unique=True")
    seen = False
    for e in p.events:
        if e[0] != "setop":
            continue
        _, name, args, kw = e[1]
        kw = dict(kw)
        au = args[_SETOPS[name[3:]]] if len(args) > _SETOPS[name[3:]] else kw.get("assume_unique", K(False))
        ops = [x for x in args[:2] if contains(x, a2) or contains(x, ("param", fi.params[1]))]
        if not ops:
            continue
        seen = True
        w = "%s:%s" % (wf.rsplit(":", 1)[0], e[2])
        used = contains(p.value, e[1]) or any(contains(t, e[1]) for t, v, _ in p.facts)
        if is_const(au) and not au[1]:
            V.add(key, True, msg, w)
        elif not used:
            V.add(key, None, msg + "; `%s(..., assume_unique=%s)` at line %d: its result is not seen to reach the returned pairs or a test of this path"
                  % (name, show(au), e[2]), w)
        elif not is_const(au) or any(k is None and contains(t, a2) for t, v, k in kinds) or any(
                isinstance(x, tuple) and x and x[0] in ("unique", "uniqidx") for o in ops for x in subterms(o)):
            V.add(key, None, msg + "; `%s(..., assume_unique=%s)` at line %d: whether the operand can hold repeats here is not understood"
                  % (name, show(au), e[2]), w)
        else:
            V.add(key, False, msg + "; `%s(%s, assume_unique=%s)` at line %d promises numpy that `%s` holds no repeated value, which nothing on "
                  "this path has established: a value that occurs twice in the second array is then reported wrongly (present although absent)"
                  % (name, ", ".join(short(x, 40) for x in args[:2]), show(au), e[2], short(ops[0], 40)), w)
    if not seen:
        V.add(key, True, msg + " (no set routine on this path)", wf)


# ---------------------------------------------------------------------------
# match
# ---------------------------------------------------------------------------
def match_rules(chk, mod):
    fi = mod.func("match")
    chk.analysed_unit(fi.qualname)
    q = fi.qualname
    fn = fi.node
    if len(fi.params) < 2:
        chk.ob("R06.2", q + "::recognised", None, fi.where(), "match takes two arrays")
        return
    p1, p2 = fi.params[0], fi.params[1]
    flag = "presorted" if "presorted" in fi.params else (fi.params[2] if len(fi.params) > 2 else None)
    a1, a2 = ("a1d", ("param", p1)), ("a1d", ("param", p2))
    V = Verdicts()
    # the switch is a declaration read by its truth value ("declaring a sorted first array as presorted gives the same result"): besides the two
    # bools the function is executed with the switch bound to `some falsy object other than False` (0, None, numpy.bool_(False) as handed
    # back by numpy.all(...)) and to `some truthy object other than True`; an identity / equality test against a constant of the same truth
    # value can go either way there, and every path must still satisfy every rule -- in particular all decisions taken on the switch along
    # one path have to agree about whether the search ran through the argsort
    for fv in (K(False), K(True), ("flagv", False), ("flagv", True)):
        pres = fv[1]
        label = "%s" % pres if is_const(fv) else ("any %s value other than %s" % ("truthy" if pres else "falsy", pres))
        sx = SX(mod.defs, consts=mod.consts)
        try:
            paths = sx.run(fn, {flag: fv} if flag else {})
        except Unsupported as e:
            chk.ob("R06.2", q + "::recognised", None, fi.where(), "match could not be executed symbolically (%s)" % e)
            return
        rets = [p for p in paths if p.kind == "return"]
        V.add("returns[presorted=%s]" % label, bool(rets) or None, "match has a returning path", fi.where())
        for p in rets:
            _match_path(V, fi, p, pres, a1, a2, mod.state, label)
        if not flag:
            break
    V.emit(chk, "R06.2", q)
    mm = mod.func("match_multi")
    chk.analysed_unit(mm.qualname)
    ok = None
    try:
        paths = [p for p in SX(mod.defs, keep_calls=("match",), consts=mod.consts).run(mm.node, {}) if p.kind == "return"]
        want = tuple(("param", x) for x in mm.params[:2])

        def handed_on(v):
            # the call's result itself, or its two index arrays unpacked and returned in the same order
            if v[0] == "tuple" and len(v) == 3 and all(x[0] == "item" and x[2] == k and x[1] == v[1][1] for k, x in enumerate(v[1:])):
                v = v[1][1]
            return v[0] == "call" and v[1] == "match" and v[2][:2] == want
        ok = bool(paths) and all(handed_on(p.value) for p in paths)
    except Unsupported:
        ok = False
    chk.ob("R06.3", mm.qualname + "::delegates", ok, mm.where(), "match_multi delegates to match with the same two arrays")


def _match_path(V, fi, p, pres, a1, a2, state=None, label=None):
    state = state or {}
    tag = "[presorted=%s]" % (pres if label is None else label)
    fc = [e for e in p.events if e[0] == "flagcmp"]
    if fc:
        V = _Noted(V, " -- on this path the switch is not a bool and was tested with %s, which does not follow its truth value (%s)" % (
            "; ".join("`%s` at line %d (%s)" % (e[1], e[2], "never true for such a value" if e[4] == K(False) else
                                                 ("always true for such a value" if e[4] == K(True) else "can go either way for such a value%s" % (
                                                     {t: ", taken as %s here" % v for t, v, _ in p.facts}.get(e[4], "")))) for e in fc), pres))
    w = "%s:%s" % (fi.where().rsplit(":", 1)[0], p.line)
    wf = fi.where()
    s = ("argsort", a1)
    kinds = [(t, v, fact_kind(t, v, a1, a2, pres)) for t, v, _ in p.facts]
    events = p.events
    r = p.value
    if any(k is not None and "unique" in k.split("+") for _, _, k in kinds) and any(contains(r, u) for u in (("unique", a1), ("uniqidx", a1))):
        # the path has established that the first array has no repeated value: its sorted distinct values (numpy.unique) then are the array in
        # sorted order, a[argsort(a)], and the index of the first occurrence of each distinct value is argsort(a) -- the one permutation that
        # sorts an array of distinct values.  Everything seen on this path is re-read with these equalities
        sub = {("unique", a1): t_take(a1, s), ("uniqidx", a1): s}
        r = renorm(r, sub)
        events = [e[:1] + (renorm(e[1], sub),) + e[2:] for e in events]
        kinds = [(renorm(t, sub), v, k) for t, v, k in kinds]

    def guard(kind, key, msg, mention):
        if any(k is not None and kind in k.split("+") for _, _, k in kinds):
            V.add(key, True, msg, wf)
            return
        unk = [t for t, v, k in kinds if k is None and contains(t, mention)]
        if unk:
            V.add(key, None, msg + " -- a test on this path is not understood: %s" % short(unk[0]), wf)
        else:
            V.add(key, False, msg + " -- the path returning at line %d passes no such test (tests passed: %s)"
                  % (p.line, "; ".join("%s is %s" % (short(t, 60), v) for t, v, _ in kinds) or "none"), wf)

    guard("unique", "uniqueness-guard" + tag, "a first array with repeated values is rejected before pairs are returned (unique(a1).size == a1.size, "
          "or strictly increasing neighbours in sorted order)", a1)
    guard("nonempty1", "empty-rejected::first", "an empty first array is rejected", ("size", a1))
    guard("nonempty2", "empty-rejected::second", "an empty second array is rejected", ("size", a2))
    # -- the pairs are a function of the two arrays of this call ----------------
    sr = state_reads(r, state)
    V.add("result-computed-from-this-calls-arrays" + tag, not sr,
          "the returned pairs are computed from the arrays (and the presorted switch) of the call at hand, never from module-level state left by an "
          "earlier call: an array can be changed in place between two calls, so nothing remembered about it (its sort order, that its values were "
          "distinct) is known to hold still%s" % ("" if not sr else "; the path returning at line %d reads %s" % (
              p.line, "; ".join("`%s` (%s)" % (n, state.get(n.split(".")[0], "module-level state")) for n in sr))), w)

    string_safe_reductions(V, p, a1, a2, tag, wf)
    set_routine_promises(V, p, fi, a1, a2, kinds, tag, wf)
    if r[0] == "tuple" and len(r) == 3 and r[1][0] == "where0" and r[2][0] != "where0":
        V.add("returns-pairs" + tag, False, "returns (indices into first, indices into second) in this order; found %s" % short(r), w)
        return
    if not (r[0] == "tuple" and len(r) == 3):
        V.add("returns-pairs" + tag, False if r[0] in ("tuple", "const") else None, "returns (indices into first, indices into second); found %s" % short(r), w)
        return
    V.add("returns-pairs" + tag, True, "returns (indices into first, indices into second)", w)
    i1, i2 = r[1], r[2]
    # -- the equality filter ------------------------------------------------
    key = "equality-filter" + tag
    msg = "pairs are the positions (ascending, as produced by where) at which <first array at the found index> == <second array>"
    if not (i2[0] == "where0" and i2[1][0] == "cmp"):
        why = inexact_equality(i2[1], a1, a2) if i2[0] == "where0" else None
        if why:
            V.add(key, False, msg + " -- equality of the VALUES, as == / numpy.equal decide it; found the mask `%s`: %s, so pairs of different "
                  "values are returned" % (short(i2[1], 90), why), w)
            return
        V.add(key, None, msg + "; the second index array is %s" % short(i2), w)
        return
    op, l, rr = i2[1][1:]
    if op != "eq":
        V.add(key, False, msg + "; found the comparison %s" % short(i2[1]), w)
        return
    y = x = None
    for cand, other in ((l, rr), (rr, l)):
        rt, conv = root_of(cand)
        if rt == ("param", fi.params[1]) and other[0] == "take":
            y, x = cand, other
    if y is None:
        # the second index array names positions of the array the equality test ran over: when that array is a selection second[j] (probes
        # filtered by a mask, gathered in another order), the bare where() result counts positions inside the selection, not in the caller's array
        for cand, other in ((l, rr), (rr, l)):
            g, j = cand, None
            while isinstance(g, tuple) and g and g[0] == "take" and root_of(g)[0] is None:
                g, j = g[1], g[2]
            if j is None or root_of(g)[0] != ("param", fi.params[1]) or other[0] != "take":
                continue
            sel = cand[2]
            dep = any(contains(sel, ("param", q_)) for q_ in fi.params[:2])
            ident = any(k is None or k == "noexceed" for _, _, k in kinds) or any(end_fact(t, v) is not None for t, v, _ in kinds)
            V.add("second-indices-name-the-second-array" + tag, False if dep and not is_scalar(sel) and not ident else None,
                  "the second index array holds positions in the caller's second array: where(<found> == second) over the whole array, or the "
                  "positions inside a selection second[j] mapped back through j; found the bare positions of where() over the selection `%s` "
                  "(selected by `%s`, which depends on the data and is not known to keep every element on the path returning at line %d), so every "
                  "pair after a dropped / moved element names the wrong element of the second array" % (short(cand, 70), short(sel, 90), p.line), w)
            return
        V.add(key, None, msg + "; operands not recognised: %s" % short(i2[1]), w)
        return
    kv = "compared-values-are-the-inputs::"
    mv = "the %s array keeps the caller's values and type up to the search and the equality test (no conversion in between)"
    if y == a2:
        V.add(kv + "second", True, mv % "second", w)
        V.add("scalars-accepted::second", True, "the second input passes numpy.atleast_1d (scalars accepted)", wf)
    elif root_of(y)[1]:
        V.add(kv + "second", False, (mv % "second") + ": compared as %s" % short(y), w)
    elif y[0] == "asarr" or y[0] == "param":
        V.add("scalars-accepted::second", False, "the second input passes numpy.atleast_1d (scalars accepted); found %s" % short(y), wf)
    else:
        V.add(kv + "second", None, (mv % "second") + ": compared as %s" % short(y), w)
    b, c = x[1], x[2]
    rt, conv = root_of(b)
    if b == a1:
        V.add(kv + "first", True, mv % "first", w)
        V.add("scalars-accepted::first", True, "the first input passes numpy.atleast_1d (scalars accepted)", wf)
    elif rt == ("param", fi.params[0]) and conv:
        V.add(kv + "first", False, (mv % "first") + ": compared as %s" % short(b), w)
    elif rt == ("param", fi.params[0]):
        V.add("scalars-accepted::first", False, "the first input passes numpy.atleast_1d (scalars accepted); found %s" % short(b), wf)
    else:
        V.add(key, None, msg + "; the subscripted array is %s" % short(b), w)
        return
    # -- a first array of exactly one element: nothing to search ------------------
    sss = {t for t in subterms(r) if isinstance(t, tuple) and t and t[0] == "ss"}
    if not sss and c in (K(0), K(-1)) and b == a1 and any(k is not None and "single" in k.split("+") for _, _, k in kinds):
        # the path has established size(first) == 1: its only element (index 0, which is also index -1) is compared with every element of the
        # second array, and every pair names index 0 of the first array
        V.add(key, True, msg + " (one-element first array: the found index is 0 for every element of the second array)", w)
        n2 = t_size(i2)
        zeros = i1[0] == "alloc" and i1[1] == "zeros" and _alloc_n(i1) == n2
        zeros = zeros or i1 in (("binop", "*", i2, K(0)), ("binop", "*", K(0), i2))
        wrong = i1[0] == "alloc" and (i1[1] != "zeros" or _alloc_n(i1) in (t_size(a1), t_size(a2)))
        V.add("first-indices" + tag, True if zeros else (False if wrong or i1 == i2 else None),
              "for a one-element first array the indices into it are one 0 per matching element of the second array; found %s" % short(i1), w)
        return
    # -- the search ------------------------------------------------------------
    if len(sss) != 1:
        V.add("single-search" + tag, None, "the returned pairs derive from one sorted search (found %d)" % len(sss), w)
        return
    V.add("single-search" + tag, True, "the returned pairs derive from one sorted search", w)
    p0 = next(iter(sss))
    _, sa, sorter, sv, side = p0
    lines = [e[2] for e in events if e[0] == "ss" and e[1] == p0]
    ws = "%s:%s" % (wf.rsplit(":", 1)[0], lines[0]) if lines else w
    if sa == a1 and sv == a2:
        ok = True
    elif (sa == a2 and sv == a1) or root_of(sa)[1] or root_of(sv)[1]:
        ok = False
    else:
        ok = None
    V.add("search-roles" + tag, ok, "searchsorted(first array, second array, ...) on the unconverted inputs: %s" % short(p0), ws)
    if ok is not True:
        return
    V.add("search-side-left" + tag, True if side == K("left") else (False if is_const(side) else None),
          "left-side search (an equal element is found at its own position): side=%s" % show(side), ws)
    stale = state_reads(sorter, state)
    if sorter == s:
        oks = True
    elif sorter == NONE:
        oks = True if pres else False
    elif stale and not contains(sorter, a1) and not contains(sorter, ("param", fi.params[0])):
        oks = False             # a permutation that was not computed from the first array of this call
    else:
        oks = None
    V.add("sorter" + tag, oks, "presorted=%s: the search runs over the first array %s (sorter %s)%s"
          % (pres, "as given or through its argsort" if pres else "through its argsort", show(sorter),
             "" if not stale else " -- the sorter is read from module-level state (%s), not computed from the first array of this call: after the array "
             "was changed in place it no longer sorts it" % ", ".join("`%s` %s" % (n, state.get(n.split(".")[0], "")) for n in stale)), ws)
    if oks is not True:
        return
    mapped = sorter == s
    pc = ("clamp", p0, a1)
    found = None
    for cand in (pc, p0):
        if c == (t_take(s, cand) if mapped else cand):
            found = cand
    if found is None:
        # the positions are element k <-> probe k: a search over re-ordered probes must be brought back to the order of the second array
        inner = c[2] if (mapped and c[0] == "take" and c[1] == s) else (None if mapped else c)
        core, j = _gathered(inner) if inner is not None else (None, None)
        if j is not None and core in (pc, p0) and y == a2:
            V.add("positions-aligned-with-second-array" + tag, False if is_perm_term(j) else None,
                  "entry k of the search result is the position found for element k of the second array (a search over re-ordered probes p = v[j] is "
                  "undone by scattering, out[j] = found, or by gathering with the inverse permutation); found the positions re-ordered by `%s` and "
                  "compared with the second array in its own order, so positions are attached to the wrong probes and genuine matches are dropped"
                  % short(j), ws)
            return
        if any(isinstance(t, tuple) and t and t[0] == "badclamp" for t in subterms(c)):
            V.add("high-end-clamp" + tag, False, "positions equal to the array size are clamped to size-1 before use; found %s" % short(c), w)
        elif mapped and c in (pc, p0):
            V.add(key, False, msg + "; the first array is subscripted with sorted positions that were not mapped through the sorter: %s" % short(x), w)
        else:
            V.add(key, None, msg + "; the subscript of the first array is %s" % short(c), w)
        return
    V.add(key, True, msg, w)
    V.add("positions-aligned-with-second-array" + tag, True, "entry k of the search result is the position found for element k of the second array "
          "(searchsorted(a, v[j]) = searchsorted(a, v)[j]; re-orderings of the probes cancel)", ws)
    # -- first indices -------------------------------------------------------
    kf = "first-indices" + tag
    mf = "indices into the first array are the found %s filtered by the equality test" % ("positions mapped through the sorter" if mapped else "positions")
    if i1 == t_take(c, i2):
        V.add(kf, True, mf, w)
    elif i1 in (c, found, t_take(found, i2)):
        V.add(kf, False, mf + "; found %s" % short(i1), w)
    else:
        V.add(kf, None, mf + "; found %s" % short(i1), w)
    # -- the clamp -----------------------------------------------------------
    kc = "high-end-clamp" + tag
    mc = "positions equal to the array size are clamped to size-1 before they subscript the first array or its sorter, unless no element of the " \
         "second array can exceed the first array's maximum"
    if found == pc:
        V.add(kc, True, mc, w)
        early = [e for e in events if e[0] == "take" and e[1][0] == "take" and e[1][1] in (a1, s) and raw_occurs(e[1][2], p0)]
        V.add("clamp-before-use" + tag, not early, "the search result subscripts the first array / its sorter only after the clamp%s"
              % ("" if not early else ": `%s` at line %d" % (short(early[0][1]), early[0][2])), w)
    else:
        if any(k == "noexceed" for _, _, k in kinds):
            V.add("clamp-guard" + tag, True, "the clamp is skipped only when no element of the second array can exceed the first array's maximum", w)
        elif any(end_fact(t, v) == (p0, a1, True) for t, v, _ in kinds):
            V.add("clamp-guard" + tag, True, "the clamp is skipped only when the path has established that no position found by the search equals the array "
                  "size (no element of the second array exceeds the first array's maximum)", w)
        else:
            # a test that looks at the search result itself and is not one of the forms end_fact knows may be what makes the clamp unnecessary
            unk = [t for t, v, k in kinds if k is None or (contains(t, p0) and end_fact(t, v) is None)]
            esc = [e for e in events if e[0] == "escape" and contains(e[1], p0)]
            if esc:
                V.add(kc, None, mc + "; the search result is handed to `%s` at line %d, which this check has no model for (it may clamp in place)"
                      % (esc[0][4], esc[0][2]), w)
            else:
                V.add(kc, None if unk else False, mc + ("; not understood: %s" % short(unk[0]) if unk else
                                                      "; the path returning at line %d uses the unclamped search result" % p.line), w)


# ---------------------------------------------------------------------------
# de-duplication helpers
# ---------------------------------------------------------------------------
_ONE_VALUE = ("take", "uniqidx", "argsort", "where0", "alloc", "setitem", "sorted", "concat", "arr", "asarr", "a1d", "param", "unique", "binop",
              "clamp", "ss", "size", "roll", "max", "min", "arange")


def _arrangement(t):
    """how many things a returned term hands to the caller: 'a sequence of N', 'one value', 'nothing (None)'; None when that cannot be told"""
    if not isinstance(t, tuple) or not t:
        return None
    if t[0] in ("tuple", "list"):
        return "a sequence of %d" % (len(t) - 1)
    if t == NONE:
        return "nothing (None)"
    if t[0] in _ONE_VALUE or t[0] == "const":
        return "one value"
    return None


def _return_arrangement(chk, mod, fi, narr):
    """what the caller gets back depends on the `values` switch alone, never on the data: with the switch fixed, every returning path hands back
    the same arrangement (the indices alone, or the same number of things beside them).  A path that returns one array where the others return
    (indices, values) leaves the caller unpacking the wrong thing -- no index per distinct value reaches it"""
    q = fi.qualname
    vflag = "values" if "values" in fi.params else (fi.params[narr] if len(fi.params) > narr else None)
    for vals in (False, True):
        try:
            paths = SX(mod.defs, consts=mod.consts, skip_loops=True).run(fi.node, {vflag: K(vals)} if vflag else {})
        except (Unsupported, RecursionError):
            return
        known = [(_arrangement(p.value), p) for p in paths if p.kind == "return"]
        known = [(sh, p) for sh, p in known if sh is not None]
        groups = {}
        for sh, p in known:
            groups.setdefault(sh, []).append(p)
        if len(known) >= 2:
            main = max(groups, key=lambda k: (len(groups[k]), max(p.line for p in groups[k])))
            odd = [(sh, p) for sh, p in known if sh != main]
            tag = "[%s=%s]" % (vflag, vals) if vflag else ""
            msg = "with the %s every returning path hands back the same arrangement (here: %s, as the path returning at line %d does)" % (
                "switch `%s` set to %s" % (vflag, vals) if vflag else "same arguments", main, max(p.line for p in groups[main]))
            if odd:
                sh, p = odd[0]
                msg += "; the path returning at line %d hands back %s: `%s` -- which of the two the caller receives depends on the data" % (p.line, sh, short(p.value))
            chk.ob("R06.1", q + "::return-arrangement" + tag, not odd, "%s:%s" % (fi.where().rsplit(":", 1)[0], odd[0][1].line) if odd else fi.where(), msg)
        if not vflag:
            break


def dedup_rules(chk, mod, fi, narr):
    _return_arrangement(chk, mod, fi, narr)
    helpers = _run_helper_names(mod)
    if _uses_run_helper(mod, fi.node, helpers):
        # the runs of equal values come from a shared helper that emits their bounds: the helper and its user are decided separately
        _runs_dedup(chk, mod, fi, narr, helpers)
        return
    loops = [x for x in walk_no_nested(fi.node) if isinstance(x, (ast.For, ast.While, ast.AsyncFor))]
    if loops:
        split = _fast_split(fi.node)
        if split is not None:
            # `if <cond>: <loop-free computation> else: <scan>`: every execution runs one of the two arms, so the function is decided as two
            # functions -- the one with the loop-free arm on the terms it returns, the one with the scan by the scan rules
            _fast_path(chk, mod, fi, narr, split)
            fi = FuncInfo(fi.qualname, fi.module, None, _without(fi.node, [split]), fi.path)
        early = _early_exits(fi.node)
        if early:
            # paths that return an array computed without entering the scan are decided on the returned term; the scan rules then look at
            # the function without these branches (their definitions never reach the loop)
            _early_paths(chk, mod, fi, narr, early)
            fi = FuncInfo(fi.qualname, fi.module, None, _without(fi.node, early), fi.path)
        _scan_dedup(chk, fi, narr)
    else:
        _vector_dedup(chk, mod, fi, narr)


def _terminates(stmts):
    if not stmts:
        return False
    last = stmts[-1]
    if isinstance(last, (ast.Return, ast.Raise)):
        return True
    return isinstance(last, ast.If) and _terminates(last.body) and _terminates(last.orelse)


def _has_loop(stmts):
    return any(isinstance(x, (ast.For, ast.While, ast.AsyncFor)) for st in stmts for x in ast.walk(st))


def _computes(stmts):
    """does the branch compute what it returns (assignments, or a returned expression with a subscript / call) -- as opposed to returning
    constants and arguments (the one-element shortcut the scan rules know)"""
    for st in stmts:
        for x in ast.walk(st):
            if isinstance(x, (ast.Assign, ast.AugAssign, ast.AnnAssign, ast.NamedExpr)):
                return True
            if isinstance(x, ast.Return) and x.value is not None and any(isinstance(y, (ast.Subscript, ast.Call)) for y in ast.walk(x.value)):
                return True
    return False


def _early_exits(fn):
    """[(index in fn.body, 'body' | 'orelse')]: top-level `if` statements before the scan loop with a loop-free arm that always returns / raises
    and computes its result"""
    out = []
    for k, st in enumerate(fn.body):
        if _has_loop([st]):
            break
        if isinstance(st, ast.If):
            for arm in ("body", "orelse"):
                b = getattr(st, arm)
                if _terminates(b) and _computes(b) and any(isinstance(x, ast.Return) for y in b for x in ast.walk(y)):
                    out.append((k, arm))
                    break
    return out


def _fast_split(fn):
    """(index in fn.body, arm) of the first top-level `if` that holds the scan loop in one arm and a loop-free computation in the other"""
    for k, st in enumerate(fn.body):
        if isinstance(st, ast.If):
            lb, lo = _has_loop(st.body), _has_loop(st.orelse)
            if lb != lo:
                fast = st.orelse if lb else st.body
                if fast and _computes(fast) and not _has_loop(fn.body[:k] + fn.body[k + 1:]):
                    return (k, "orelse" if lb else "body")
            if lb or lo:
                return None
        elif _has_loop([st]):
            return None
    return None


def _fast_variant(fn, split):
    """copy of fn in which the arm with the scan is replaced by a `raise`: its returning paths are the executions that take the loop-free arm"""
    fn = copy.deepcopy(fn)
    k, arm = split
    st = fn.body[k]
    stop = ast.copy_location(ast.Raise(exc=ast.copy_location(ast.Name(id="_ScanArmNotTaken", ctx=ast.Load()), st), cause=None), st)
    if arm == "body":
        st.orelse = [stop]
    else:
        st.body = [stop]
    return fn


def _without(fn, early):
    """copy of fn in which each early-exit `if` is replaced by its other arm (what the paths that go on to the loop execute)"""
    fn = copy.deepcopy(fn)
    arms = dict(early)
    body = []
    for k, st in enumerate(fn.body):
        if k in arms:
            body.extend(st.orelse if arms[k] == "body" else st.body)
        else:
            body.append(st)
    fn.body = body or [ast.Pass()]
    return fn


def _early_paths(chk, mod, fi, narr, early):
    q = fi.qualname + "::early-exit"
    spans = []
    for k, arm in early:
        b = getattr(fi.node.body[k], arm)
        spans.append((b[0].lineno, max(getattr(x, "end_lineno", b[0].lineno) or b[0].lineno for x in b)))
    a = ("param", fi.params[0])
    vflag = "values" if "values" in fi.params else (fi.params[narr] if len(fi.params) > narr else None)
    V = Verdicts()
    for vals in (False, True):
        try:
            paths = SX(mod.defs, stop_at_loops=True, consts=mod.consts).run(fi.node, {vflag: K(vals)} if vflag else {})
        except Unsupported as e:
            chk.ob("R06.1", q + "::recognised", None, fi.where(fi.node.body[early[0][0]]),
                   "%s returns before its scan on some paths; they could not be executed symbolically (%s)" % (fi.name, e))
            return
        rets = [p for p in paths if p.kind == "return" and any(lo <= p.line <= hi for lo, hi in spans)]
        for p in rets:
            w = "%s:%s" % (fi.where().rsplit(":", 1)[0], p.line)
            r = p.value
            if narr != 1:
                _flagged_early(V, r, a, ("param", fi.params[1]), p.facts, w)
                continue
            if r[0] == "take" and r[1] == a:
                r = r[2]                 # the values at the kept indices
            if _single_element_result(V, r, a, p.facts, w):
                continue
            _vector_kept(V, r, a, w)
            boundary_tests(V, r, a, p.facts, w)
        if not vflag:
            break
    V.emit(chk, "R06.1", q)


def _size_is_one(facts, a):
    """has the path established that the input holds exactly one element (size(a) == 1 decided true, or != 1 decided false)"""
    n = t_size(a)
    for t, v, _ in facts:
        if isinstance(t, tuple) and t and t[0] == "cmp" and {t[2], t[3]} == {n, K(1)} and len({t[2], t[3]}) == 2:
            if (t[1] == "eq" and v) or (t[1] == "ne" and not v):
                return True
    return False


def _single_element_result(V, r, a, facts, w):
    """a path that returns without sorting anything after it has established that the input holds exactly one element: the one index per
    distinct value is then input index 0 (which is also sorted position 0), whatever the value (and the flag) is.  Known spellings of the
    one-entry index array [0]: zeros(n) / zeros(1) (n the input size, 1 on this path), [0], arange(n) / arange(1), argsort(input).
    True when the path was decided here"""
    if not _size_is_one(facts, a):
        return False
    n = t_size(a)
    key = "one-element-input-keeps-index-0"
    msg = "on a path that has established that the input holds exactly one element the returned index array is the single index 0"
    t = r[1] if r[0] in ("arr", "asarr") and len(r) == 2 else r
    if t[0] == "alloc" and _alloc_n(t) in (n, K(1)):
        V.add(key, True if t[1] == "zeros" else False, msg + "; found %s%s" % (short(r), "" if t[1] == "zeros" else
              " -- a one-entry array that does not hold 0 (index 1 does not exist, an uninitialised entry is arbitrary)"), w)
        return True
    if t in (("list", K(0)), ("tuple", K(0)), ("argsort", a), ("arange", n), ("arange", K(1))):
        V.add(key, True, msg + "; found %s" % short(r), w)
        return True
    if t[0] == "setitem" and len(t) == 4 and t[1][0] == "alloc" and _alloc_n(t[1]) in (n, K(1)) and t[2] in (K(0), K(-1)):
        # a fresh one-entry array whose only entry (index 0, which is also index -1) is overwritten: with 0, or with the only entry of the
        # argsort of the one-element input (which is 0)
        s = ("argsort", a)
        if t[3] in (K(0), t_take(s, K(0)), t_take(s, K(-1))):
            V.add(key, True, msg + "; found %s" % short(r), w)
            return True
        if is_const(t[3]):
            V.add(key, False, msg + "; found %s" % short(r), w)
            return True
    return False


def _all_flags_equal(t, v, fl):
    """the decided test `t is v` establishes that all entries of the flag array are equal: min == max, all(flag == flag[0]), one distinct flag"""
    if not isinstance(t, tuple) or not t:
        return False
    lo, hi = ("min", fl), ("max", fl)
    if t[0] == "cmp":
        op, l, r = t[1:]
        if {l, r} == {lo, hi}:
            return (op == "eq" and bool(v)) or (op == "ne" and not v) or (op == "lt" and l == lo and not v) or (op == "le" and l == hi and bool(v))
        one = [("size", ("unique", fl)), ("size", ("uniqidx", fl))]
        if (l in one and r == K(1)) or (r in one and l == K(1)):
            return (op == "eq" and bool(v)) or (op == "ne" and not v) or (op == "le" and r == K(1) and bool(v)) or (op == "lt" and l == K(1) and not v)
        return False
    if t[0] == "all" and v:
        return t[1] in (t_cmp("eq", fl, t_take(fl, K(0))), t_cmp("eq", fl, t_take(fl, K(-1))), t_cmp("eq", t_take(fl, SL_NEXT), t_take(fl, SL_PREV)))
    if t[0] == "any" and not v:
        return t[1] in (t_cmp("ne", fl, t_take(fl, K(0))), t_cmp("ne", fl, t_take(fl, K(-1))), t_cmp("ne", t_take(fl, SL_NEXT), t_take(fl, SL_PREV)))
    return False


def _flagged_early(V, r, a, fl, facts, w):
    """a path of the flagged de-duplication that returns before the scan.  Known form: the plain de-duplication of the values (the package's own
    unique) on a path that has established that all flags are equal -- then whichever index of a value is kept carries the largest flag"""
    idx = r
    if r[0] == "tuple" and len(r) == 3 and r[2] == t_take(a, r[1]):
        idx = r[1]              # (indices, values at those indices)
    elif r[0] == "take" and r[1] == a:
        idx = r[2]              # the values at the kept indices; whether indices must come with them is the return-arrangement rule
    while idx[0] == "sorted":
        idx = idx[1]
    if r[0] == "tuple" and len(r) == 3 and r[1] == t_take(a, r[2]) and r[1] != r[2]:
        V.add("indices-before-values", False, "the indices come first and the values at those indices second; found %s" % short(r), w)
        return
    if _single_element_result(V, idx, a, facts, w):
        return
    if idx == ("uniqidx", a):
        eq = any(_all_flags_equal(t, v, fl) for t, v, _ in facts)
        V.add("plain-dedup-only-when-flags-cannot-decide", True if eq else (None if facts else False),
              "a path that keeps one index per value without looking at the flags is taken only when the flags cannot decide between duplicates "
              "(all flags equal)%s" % ("" if eq else "; tests passed on this path: %s" % ("; ".join("%s is %s" % (short(t, 60), v) for t, v, _ in facts) or "none")), w)
        return
    V.add("recognised", None, "a path of the flagged de-duplication that returns without scanning is not a form this check knows; found %s" % short(r), w)


def _fast_path(chk, mod, fi, narr, split):
    q = fi.qualname + "::fast-path"
    node = fi.node.body[split[0]]
    fn = _fast_variant(fi.node, split)
    a = ("param", fi.params[0])
    fl = ("param", fi.params[1]) if narr == 2 else None
    vflag = "values" if "values" in fi.params else (fi.params[narr] if len(fi.params) > narr else None)
    V = Verdicts()
    for vals in (False, True):
        try:
            paths = SX(mod.defs, consts=mod.consts).run(fn, {vflag: K(vals)} if vflag else {})
        except Unsupported as e:
            chk.ob("R06.1", q + "::recognised", None, fi.where(node),
                   "%s has a loop-free arm beside its scan; it could not be executed symbolically (%s)" % (fi.name, e))
            return
        rets = [p for p in paths if p.kind == "return" and p.line >= node.lineno]
        V.add("returns[values=%s]" % vals, bool(rets) or None, "the loop-free arm has a returning path", fi.where(node))
        for p in rets:
            w = "%s:%s" % (fi.where().rsplit(":", 1)[0], p.line)
            _vector_result(V, p, a, fl, w)
        if not vflag:
            break
    V.emit(chk, "R06.1", q)


def _vector_result(V, p, a, fl, w):
    """one returning path of a loop-free de-duplication: the index array it returns, alone or beside / instead of the values at those indices"""
    r = p.value
    if r[0] == "tuple" and len(r) == 3:
        idx = [x for x in r[1:] if not (x[0] == "take" and x[1] == a)]
        vals = [x for x in r[1:] if x[0] == "take" and x[1] == a]
        if len(idx) == 1 and len(vals) == 1:
            V.add("values-at-returned-indices", vals[0][2] == idx[0] or None, "the values returned beside the indices are the input at exactly those indices", w)
            r = idx[0]
    elif r[0] == "take" and r[1] == a:
        r = r[2]                 # the values at the kept indices
    while r[0] == "sorted":
        r = r[1]                 # the kept indices in ascending order: the same set of indices
    if _single_element_result(V, r, a, p.facts, w):
        return
    if fl is None:
        _vector_kept(V, r, a, w)
        boundary_tests(V, r, a, p.facts, w)
    else:
        _vector_flagged(V, r, a, fl, p.facts, w)


# -- loop-free (vectorised) form: decided on the terms of the returned arrays --------------------------------------------------
def _vector_dedup(chk, mod, fi, narr):
    q = fi.qualname
    if narr != 1:
        chk.ob("R06.1", q + "::recognised", None, fi.where(), "a loop-free flagged de-duplication is not a form this check knows")
        return
    a = ("param", fi.params[0])
    vflag = "values" if "values" in fi.params else (fi.params[narr] if len(fi.params) > narr else None)
    V = Verdicts()
    for vals in (False, True):
        try:
            paths = SX(mod.defs, consts=mod.consts).run(fi.node, {vflag: K(vals)} if vflag else {})
        except Unsupported as e:
            chk.ob("R06.1", q + "::recognised", None, fi.where(), "%s could not be executed symbolically (%s)" % (fi.name, e))
            return
        rets = [p for p in paths if p.kind == "return"]
        V.add("returns[values=%s]" % vals, bool(rets) or None, "has a returning path", fi.where())
        for p in rets:
            w = "%s:%s" % (fi.where().rsplit(":", 1)[0], p.line)
            r = p.value
            if r[0] == "take" and r[1] == a:
                r = r[2]                 # the values at the kept indices
            if _single_element_result(V, r, a, p.facts, w):
                continue
            _vector_kept(V, r, a, w)
            boundary_tests(V, r, a, p.facts, w)
        if not vflag:
            break
    V.emit(chk, "R06.1", q)


def _pos_runstarts(t, a):
    """what sorted positions does t denote: 'all' run starts (position 0 included), 'rest' (run starts other than position 0),
    'offby1' (the positions *before* a value change), None"""
    if not isinstance(t, tuple) or not t:
        return None
    m = t[1] if t[0] == "where0" else t         # x[where(mask)[0]] and x[mask] are the same selection
    cy = _cyclic_mask(m, a)
    if cy is not None:
        rel, base, which = cy
        if base == "raw":
            return "unsorted"
        if which == "prev":
            if rel == "ne":
                return "cyclic0"            # run starts p >= 1, and position 0 only when the smallest value differs from the largest
            if rel == "lt":
                return "rest"               # entry 0 asks largest < smallest: never true
        else:
            if rel == "ne":
                return "cyclicN"            # the last position of every run but the last, which is kept only when largest != smallest
            if rel == "lt":
                return "offby1"             # the last entry asks largest < smallest: never true
        return None
    if t[0] == "setitem" and t[2] == K(0) and t[3] == K(True):
        cy = _cyclic_mask(t[1], a)
        if cy is not None and cy[1:] == ("sorted", "prev") and cy[0] in ("ne", "lt"):
            return "all"                    # the wrap-around entry overwritten: position 0 is kept whatever the values are
    if _change_mask(m, a) == "sorted":
        return "offby1"
    if _change_mask(m, a) == "raw":
        return "unsorted"
    if t[0] == "binop" and t[1] == "+" and t[3] == K(1) and _pos_runstarts(t[2], a) in ("offby1", "unsorted"):
        return "rest" if _pos_runstarts(t[2], a) == "offby1" else "unsorted"
    if t[0] == "concat" and len(t) == 3:
        first = t[1][1] if t[1][0] == "arr" else t[1]
        if first in (("list", K(0)), ("tuple", K(0))) and _pos_runstarts(t[2], a) == "rest":
            return "all"
        if first in (("list", K(True)), ("tuple", K(True))) and _change_mask(t[2], a) == "sorted":
            return "all"             # boolean mask over sorted positions
    if t[0] == "setitem" and t[1][0] == "alloc" and t[2] == SL_NEXT and _alloc_n(t[1]) == t_size(a) and t[1][1] in ("ones", "zeros"):
        # a boolean mask over all sorted positions whose entries 1.. are the value changes; entry 0 is what the mask was created with
        c = _change_mask(t[3], a)
        if c == "sorted":
            return "all" if t[1][1] == "ones" else "rest"
        if c == "raw":
            return "unsorted"
    if t[0] == "where0":
        return "all" if _pos_runstarts(t[1], a) == "all" and t[1][0] in ("concat", "setitem") else None
    return None


def _change_mask(m, a):
    """m is true exactly where an element differs from its predecessor, looking at `a` in sorted order ('sorted') or as given ('raw').  In
    ascending order predecessor < successor says the same as predecessor != successor.  Whether the test is computed soundly for every
    element type is a separate rule (boundary_tests)"""
    r = neighbour_test(m, a)
    if r is None:
        return None
    if r[0] == "ne" or (r[0] == "lt" and r[1] == "sorted"):
        return r[1]
    return None


def boundary_tests(V, r, a, facts, w):
    """run boundaries are found by comparing neighbouring values with each other.  The sign / zero test of their arithmetic difference says the
    same only for some element types: next - prev > 0 is exact for unsigned integers and floats (for signed integers the difference of two
    distant values wraps round and comes out negative, so two distinct values count as one run); next - prev != 0 is exact for integers only
    (inf - inf is nan, and strings cannot be subtracted at all).  Such a test is accepted on paths that have restricted the element type
    accordingly"""
    key = "run-boundaries-by-comparison"
    msg = "a run ends where neighbouring values in sorted order differ, decided by comparing the values themselves (or by the sign / zero test of " \
          "their difference only for element types where that is exact)"
    tests = []
    for t in subterms(r):
        nt = neighbour_test(t, a)
        if nt is not None and nt[2] == "diff" and not (isinstance(t, tuple) and _diff_of(t, a) is not None and any(
                x is not t and isinstance(x, tuple) and x and x[0] == "cmp" and t in x[2:] for x in subterms(r))):
            tests.append((t, nt))
    if not tests:
        V.add(key, True, msg, w)
        return
    kinds = element_kinds(facts, a)
    for t, (rel, base, via) in tests:
        exact = set("uf") if rel in ("lt", "le", "gt", "ge") else set("iu")
        what = "an ordered test of a difference" if rel in ("lt", "le", "gt", "ge") else "a zero test of a difference"
        if kinds is None:
            V.add(key, None, msg + "; `%s` is %s and a test on the element type on this path is not understood" % (short(t), what), w)
        elif kinds <= exact:
            V.add(key, True, msg, w)
        elif not (kinds - exact) & set("ifSUO"):
            V.add(key, None, msg + "; `%s` is %s reached by element kinds '%s', for which this check has no rule" % (short(t), what, "".join(sorted(kinds - exact))), w)
        else:
            wrong = "".join(sorted(kinds - exact))
            why = []
            if "i" in kinds - exact:
                why.append("signed integers: the difference of two distant values wraps round, changes sign, and two distinct values are taken for one run "
                           "(a distinct value gets no index)")
            if "f" in kinds - exact:
                why.append("floats: inf - inf is nan, so equal infinities are taken for distinct values")
            if set("SUO") & (kinds - exact):
                why.append("strings cannot be subtracted")
            V.add(key, False, msg + "; `%s` is %s reached by element kinds '%s' (exact only for '%s') -- %s"
                  % (short(t), what, wrong, "".join(sorted(exact)), "; ".join(why) or "not exact for these kinds"), w)


def _vector_kept(V, r, a, w):
    s = ("argsort", a)
    k0 = "slot0-seeded-from-sorted-position-0"
    m0 = "the first kept index is the sorter's first entry (the index of the smallest element), not input index 0"
    kr = "run-starts"
    mr = "the other kept entries are the sorted positions p >= 1 whose value differs from the value at p-1, mapped through the sorter"
    ki = "returns-Idx"
    mi = "the returned index array holds input indices (sorted positions mapped through the sorter)"

    def rest_of(t):
        """verdict for a term that must be sorter[<run starts other than 0>]"""
        if t[0] == "take" and t[1] == s:
            k = _pos_runstarts(t[2], a)
            if k == "rest":
                return True, True
            if k in ("offby1", "unsorted"):
                return False, True
            return None, True
        k = _pos_runstarts(t, a)
        if k in ("rest", "offby1", "unsorted"):
            return (True if k == "rest" else False), False     # positions, not mapped through the sorter
        return None, None

    # sorter[<all run starts>]
    if r[0] == "take" and r[1] == s:
        k = _pos_runstarts(r[2], a)
        if k == "all":
            V.add(k0, True, m0, w)
            V.add(kr, True, mr, w)
            V.add(ki, True, mi, w)
            return
        if k == "cyclic0":
            V.add(k0, False, m0 + " and it is kept whatever the values are; found %s: entry 0 of the mask compares the smallest element with the LAST "
                  "sorted element (the shift wraps around), so sorted position 0 is kept only when the input holds two different values -- for a constant "
                  "or one-element input no index at all is returned" % short(r[2]), w)
            return
        if k == "cyclicN":
            V.add(kr, False, mr + "; found %s: every element is compared with its successor and the last one with the FIRST sorted element (the shift "
                  "wraps around), so the last run is kept only when the input holds two different values -- for a constant or one-element input no "
                  "index at all is returned" % short(r[2]), w)
            return
        V.add(kr, False if k in ("rest", "offby1", "unsorted") else None, mr + "; found %s" % short(r), w)
        return
    if _pos_runstarts(r, a) is not None:
        V.add(ki, False, mi + "; found sorted positions %s" % short(r), w)
        return
    slot0 = rest = None
    alloc = None
    if r[0] == "concat" and len(r) == 3:
        first = r[1][1] if r[1][0] == "arr" else r[1]
        if first[0] in ("list", "tuple") and len(first) == 2:
            slot0, rest = first[1], r[2]
        elif first == ("take", s, ("slice", NONE, K(1), NONE)) or first == ("take", s, ("slice", K(0), K(1), NONE)):
            slot0, rest = ("take", s, K(0)), r[2]
    else:
        t = r
        stores = []
        while t[0] == "setitem":
            stores.append((t[2], t[3]))
            t = t[1]
        if t[0] == "alloc" and stores:
            alloc = t
            for idx, val in stores:
                if idx == K(0) and slot0 is None:
                    slot0 = val
                elif idx == SL_NEXT and rest is None:
                    rest = val
                else:
                    rest = rest or ("opaque", "store")
                    slot0 = slot0
            if slot0 is None:
                slot0 = K(0) if alloc[1] == "zeros" else ("uninitialised",)
    if rest is None:
        V.add("recognised", None, "the returned array is one index per run of equal values in sorted order; found %s" % short(r), w)
        return
    ok, mapped = rest_of(rest)
    if ok is None:
        V.add(kr, None, mr + "; found %s" % short(rest), w)
        return
    V.add(kr, ok, mr + ("" if ok else "; found %s (value changes must be looked for between neighbours in sorted order, and the run starts one "
                             "position after the change)" % short(rest)), w)
    V.add(ki, bool(mapped), mi + ("" if mapped else "; found %s" % short(rest)), w)
    if slot0 == ("take", s, K(0)):
        V.add(k0, True, m0, w)
    elif is_const(slot0) or slot0 == ("uninitialised",):
        V.add(k0, (not mapped) and slot0 == K(0), m0 + "; found %s" % short(slot0), w)
    else:
        V.add(k0, None, m0 + "; found %s" % short(slot0), w)
    if alloc is not None:
        n = alloc[2]
        if n[0] == "tuple" and len(n) == 2:
            n = n[1]
        want = rest[2] if rest[0] == "take" else rest
        V.add("kept-array-size", True if n == t_binop("+", t_size(want), K(1)) or (n[0] == "binop" and n[1] == "+" and n[3] == K(1) and n[2][0] == "size") else None,
              "the kept array has one slot per run (number of value changes + 1); found %s" % short(n), w)


# -- scan loops: index-space typing over expression descriptors -----------------------------------------------------------------
class _Ren(ast.NodeTransformer):
    def __init__(self, cur):
        self.cur = cur

    def visit_Name(self, n):
        if isinstance(n.ctx, (ast.Load, ast.Del)) and n.id in self.cur:
            n.id = self.cur[n.id]
        return n

    def visit_Lambda(self, n):
        return n


def ssa_toplevel(fn):
    """copy of fn in which names that are only ever (re)bound by plain assignments at the top level of the body get one name per binding
    (x, x@2, ...): a straight-line re-binding such as `keep = keep[0:n]` then introduces a fresh single-definition name"""
    fn = copy.deepcopy(fn)
    top, nested, other = {}, set(), set()
    for st in fn.body:
        if isinstance(st, ast.Assign) and len(st.targets) == 1 and isinstance(st.targets[0], ast.Name):
            top[st.targets[0].id] = top.get(st.targets[0].id, 0) + 1
            kids = [st.value]
        else:
            kids = [st]
        for k in kids:
            for x in walk_no_nested(k):
                if isinstance(x, ast.Name) and isinstance(x.ctx, (ast.Store, ast.Del)):
                    other.add(x.id)
                elif isinstance(x, ast.ExceptHandler) and x.name:
                    other.add(x.name)
    params = {x.arg for x in fn.args.posonlyargs + fn.args.args + fn.args.kwonlyargs}
    multi = {n for n, c in top.items() if n not in other and (c >= 2 or (n in params and c >= 1))}
    cur = {}
    count = {n: (1 if n in params else 0) for n in multi}
    for st in fn.body:
        _Ren(cur).visit(st)
        if isinstance(st, ast.Assign) and len(st.targets) == 1 and isinstance(st.targets[0], ast.Name) and st.targets[0].id in multi:
            n = st.targets[0].id
            count[n] += 1
            if count[n] > 1:
                cur[n] = "%s@%d" % (n, count[n])
                st.targets[0].id = cur[n]
    return fn


class _Fwd(ast.NodeTransformer):
    """forward substitution of single-definition temporaries"""

    def __init__(self, sd, depth):
        self.sd = sd
        self.depth = depth

    def visit_Name(self, n):
        if isinstance(n.ctx, ast.Load) and n.id in self.sd and self.depth > 0:
            return _Fwd({k: w for k, w in self.sd.items() if k != n.id}, self.depth - 1).visit(copy.deepcopy(self.sd[n.id]))
        return n

    def visit_Lambda(self, n):
        return n


_ALLOC = ("zeros", "empty", "ones", "zeros_like", "empty_like")


def _cname(c):
    f = c.func
    return f.id if isinstance(f, ast.Name) else (f.attr if isinstance(f, ast.Attribute) else None)


def _is_np(c):
    return isinstance(c.func, ast.Attribute) and isinstance(c.func.value, ast.Name) and c.func.value.id in ("np", "numpy")


class Scan:
    def __init__(self, fi, narr):
        self.fi = fi
        self.fn = ssa_toplevel(fi.node)
        self.key = fi.params[0]
        self.flagp = fi.params[1] if narr == 2 else None
        self.inputs = set(fi.params[:narr])
        self.loop = None
        self.counter = None
        self.start = None
        self.loopvars = {}      # loop variable -> descriptor, for scans that walk the sorter / the sorted values themselves
        # single-definition temporaries are substituted forward, except index containers (their identity matters: they are stored into)
        self.sd = {k: v for k, v in rules.single_defs(self.fn).items()
                   if not ((isinstance(v, ast.Call) and (_cname(v) in _ALLOC or (_cname(v) == "list" and not v.args))) or isinstance(v, ast.List))}
        self.inloop = set()
        self.defs = {}          # name -> [(value expr | ('aug', op, expr) | None, stmt)]
        for x in walk_no_nested(self.fn):
            if isinstance(x, ast.Assign):
                for t in x.targets:
                    if isinstance(t, ast.Name):
                        v = x.value
                        # `c = c + k` / `c = k + c` / `c = c - k` is the augmented assignment `c += k` / `c -= k`
                        if len(x.targets) == 1 and isinstance(v, ast.BinOp) and isinstance(v.op, (ast.Add, ast.Sub)):
                            if isinstance(v.left, ast.Name) and v.left.id == t.id and not any(
                                    isinstance(y, ast.Name) and y.id == t.id for y in ast.walk(v.right)):
                                v = ("aug", type(v.op).__name__, v.right)
                            elif isinstance(v.op, ast.Add) and isinstance(v.right, ast.Name) and v.right.id == t.id and not any(
                                    isinstance(y, ast.Name) and y.id == t.id for y in ast.walk(v.left)):
                                v = ("aug", "Add", v.left)
                        self.defs.setdefault(t.id, []).append((v, x))
                    elif isinstance(t, (ast.Tuple, ast.List)):
                        for tt in ast.walk(t):
                            if isinstance(tt, ast.Name):
                                self.defs.setdefault(tt.id, []).append((None, x))
            elif isinstance(x, ast.AugAssign) and isinstance(x.target, ast.Name):
                self.defs.setdefault(x.target.id, []).append((("aug", type(x.op).__name__, x.value), x))
            elif isinstance(x, (ast.For, ast.comprehension)):
                for tt in ast.walk(x.target):
                    if isinstance(tt, ast.Name):
                        self.defs.setdefault(tt.id, []).append((None, x))
        self._cls = {}
        self._busy = set()
        self.tiebreaks = {}     # (direction, stable) -> text: composite sorters (value order, ties in flag order) met while typing

    def X(self, e):
        return _Fwd(self.sd, 6).visit(copy.deepcopy(e))

    def where(self, node=None):
        return self.fi.where(node)

    # -- the scan loop ---------------------------------------------------
    def find_loop(self):
        loops = [x for x in walk_no_nested(self.fn) if isinstance(x, (ast.For, ast.While))]
        if len(loops) != 1:
            return "%d loops" % len(loops)
        lp = loops[0]
        self.loop = lp
        self.inloop = {id(x) for st in lp.body for x in ast.walk(st)}
        if isinstance(lp, ast.For):
            it = self.X(lp.iter)
            if not (isinstance(lp.target, ast.Name) and isinstance(it, ast.Call) and _cname(it) in ("range", "xrange", "arange") and 1 <= len(it.args) <= 2
                    and not it.keywords):
                return self.parallel_loop(lp, it)
            self.counter = lp.target.id
            self.start = 0 if len(it.args) == 1 else (it.args[0].value if isinstance(it.args[0], ast.Constant) else None)
            self.bound = it.args[-1]
        else:
            t = self.X(lp.test)
            if not (isinstance(t, ast.Compare) and len(t.ops) == 1):
                return "the loop test is not a comparison"
            l, r, op = lp.test.left, lp.test.comparators[0], t.ops[0]
            if isinstance(l, ast.Name) and isinstance(op, (ast.Lt, ast.NotEq)) and len(self.defs.get(l.id, [])) >= 2:
                self.counter, self.bound = l.id, t.comparators[0]
            elif isinstance(r, ast.Name) and isinstance(op, (ast.Gt, ast.NotEq)) and len(self.defs.get(r.id, [])) >= 2:
                self.counter, self.bound = r.id, t.left
            else:
                return "the loop test does not compare a counter with a bound"
            ins = [d for d in self.defs[self.counter] if id(d[1]) in self.inloop]
            outs = [d for d in self.defs[self.counter] if id(d[1]) not in self.inloop]
            if not (len(ins) == 1 and isinstance(ins[0][0], tuple) and ins[0][0][1] == "Add" and isinstance(ins[0][0][2], ast.Constant) and ins[0][0][2].value == 1):
                return "the counter is not advanced by exactly one `+= 1`"
            if not (len(outs) == 1 and isinstance(outs[0][0], ast.AST)):
                return "the counter has no single initialisation"
            v = self.X(outs[0][0])
            self.start = v.value if isinstance(v, ast.Constant) and isinstance(v.value, int) else None
            # the counter may be advanced before or after the body uses it
            uses = [x.lineno for st in lp.body for x in ast.walk(st) if isinstance(x, ast.Name) and x.id == self.counter and isinstance(x.ctx, ast.Load)
                    and not (st is ins[0][1])]
            inc = ins[0][1]
            if inc not in lp.body:
                return "the counter is advanced conditionally"
            if uses and inc.lineno < min(uses):
                self.start = None if self.start is None else self.start + 1
            elif uses and not inc.lineno > max(uses):
                return "the counter is advanced in the middle of the loop body"
        return None

    def parallel_loop(self, lp, it):
        """a scan that walks the sorted order itself instead of counting positions: `for ind in s[1:]`, `for ind, v in zip(s[1:], a[s][1:])`,
        `for p, v in enumerate(a[s][1:], 1)`, `for p, ind in zip(range(1, n), s[1:])`.  Every sequence walked must be the sorter, an input gathered
        through the sorter, or range(), all starting at the same sorted position and running to the end; the loop variables then are the input
        index / the value / the position of the *current* sorted position"""
        no = "the loop is neither a counted loop over range(...) nor a walk over the sorter / the sorted values from one common start to the end"
        seqs = []           # (target node, iterable expr)
        first = None        # start position declared by enumerate

        def pairs(target, e):
            if isinstance(e, ast.Call) and _cname(e) == "zip" and isinstance(e.func, ast.Name) and not e.keywords and isinstance(target, (ast.Tuple, ast.List)) \
                    and len(target.elts) == len(e.args):
                return all(pairs(t, a) for t, a in zip(target.elts, e.args))
            if isinstance(target, ast.Name):
                seqs.append((target, e))
                return True
            return False

        if isinstance(it, ast.Call) and _cname(it) == "enumerate" and isinstance(it.func, ast.Name) and isinstance(lp.target, (ast.Tuple, ast.List)) \
                and len(lp.target.elts) == 2 and isinstance(lp.target.elts[0], ast.Name) and 1 <= len(it.args) + len(it.keywords) <= 2 and it.args:
            st = it.args[1] if len(it.args) == 2 else (it.keywords[0].value if it.keywords and it.keywords[0].arg == "start" else None)
            if it.keywords and st is None:
                return no
            first = 0 if st is None else (st.value if isinstance(st, ast.Constant) and isinstance(st.value, int) else None)
            if first is None:
                return no
            if not pairs(lp.target.elts[1], it.args[0]):
                return no
        elif not pairs(lp.target, it):
            return no
        if not seqs:
            return no
        starts = set()
        lv = {}
        for target, e in seqs:
            lo = 0
            if isinstance(e, ast.Subscript) and isinstance(e.slice, ast.Slice):
                sl = e.slice
                if sl.step is not None or sl.upper is not None:
                    return no
                if sl.lower is not None:
                    if not (isinstance(sl.lower, ast.Constant) and isinstance(sl.lower.value, int) and sl.lower.value >= 0):
                        return no
                    lo = sl.lower.value
                e = e.value
            if isinstance(e, ast.Call) and _cname(e) in ("range", "xrange") and isinstance(e.func, ast.Name) and len(e.args) == 2 and not e.keywords \
                    and isinstance(e.args[0], ast.Constant) and isinstance(e.args[0].value, int) and lo == 0:
                if self.D(e.args[1]) != ("size", ("in", self.key)):
                    return no           # zip stops with its shortest sequence
                lo, d = e.args[0].value, ("pos", "cur")
            else:
                b = self.D(e)
                if b == ("sorter",):
                    d = ("idx", "cur")
                elif b[0] == "sv":
                    d = ("val", b[1], "cur")
                else:
                    return no
            starts.add(lo)
            if target.id in lv or len(self.defs.get(target.id, [])) != 1:
                return no
            lv[target.id] = d
        if first is not None:
            # enumerate(seq[k:], k): the counter is the sorted position only when it starts where the sequence starts
            c = lp.target.elts[0].id
            if c in lv or len(self.defs.get(c, [])) != 1:
                return no
            lv[c] = ("pos", "cur")
            starts.add(first)
        if len(starts) != 1:
            return no + " (the sequences start at different positions: %s)" % sorted(starts)
        if not any(d[0] in ("idx", "val") for d in lv.values()):
            return no
        self.loopvars = lv
        self.counter = None
        self.start = starts.pop()
        self.bound = None
        return None

    # -- state variables -----------------------------------------------------
    def cls(self, name):
        """class of a multiply-defined local: ('pos',) position variable, ('count',) slot counter, ('runval', p) running value of input p,
        ('kept', kind) index container, None"""
        if name in self._cls:
            return self._cls[name]
        if name in self._busy:
            return None
        self._busy.add(name)
        try:
            ds = self.defs.get(name, [])
            r = None
            vals = []
            for v, st in ds:
                if v is None:
                    vals.append(("opaque",))
                elif isinstance(v, tuple):
                    vals.append(("aug", v[1], self.D(self.X(v[2]))))
                else:
                    vals.append(self.D(self.X(v)))
            if vals:
                plain = [v for v in vals if v[0] != "aug"]
                augs = [v for v in vals if v[0] == "aug"]
                if augs and all(v[1] == "Add" and v[2][0] == "lit" for v in augs) and plain and all(v[0] == "lit" for v in plain):
                    r = ("count",)
                elif not augs and all(v[0] in ("lit", "pos") for v in plain) and any(v[0] == "pos" for v in plain):
                    r = ("pos",)
                elif not augs and any(v[0] in ("val", "inval") for v in plain) and all(v[0] in ("val", "inval", "lit", "konst") for v in plain) \
                        and len({v[1] for v in plain if v[0] in ("val", "inval")}) == 1:
                    # a running value; it may start as a constant ("nothing seen yet": None) -- whether that seed is sound is a rule of its own
                    r = ("runval", [v for v in plain if v[0] in ("val", "inval")][0][1])
                elif plain and plain[0][0] == "alloc" and all(v[0] == "alloc" or v == ("kept", name) for v in plain) and not augs:
                    r = ("kept", plain[0][1])
            self._cls[name] = r
            return r
        finally:
            self._busy.discard(name)

    def count_at(self, c, line, since=None):
        """the literal value the slot counter c holds on reaching the top-level statement at `line`, from its straight-line definitions outside
        the loop (`c = 0`, `c += 1` at the top level of the function); with `since`, the amount added to it between the two lines.  None when
        a definition in that range is not of this kind"""
        lo = since if since is not None else 0
        val = 0 if since is not None else None
        for v, st in sorted((d for d in self.defs.get(c, []) if id(d[1]) not in self.inloop), key=lambda d: d[1].lineno):
            if not lo < st.lineno < line:
                continue
            if not any(st is b for b in self.fn.body):
                return None
            if isinstance(v, ast.AST) and since is None:
                d = self.D(self.X(v))
                if d[0] != "lit":
                    return None
                val = d[1]
            elif isinstance(v, tuple) and v[1] in ("Add", "Sub") and val is not None:
                d = self.D(self.X(v[2]))
                if d[0] != "lit":
                    return None
                val += d[1] if v[1] == "Add" else -d[1]
            else:
                return None
        return val

    # -- descriptors -----------------------------------------------------------
    def D(self, e):
        """index-space descriptor of an (expanded) expression"""
        if isinstance(e, ast.Constant):
            if isinstance(e.value, int) and not isinstance(e.value, bool):
                return ("lit", e.value)
            return ("konst", repr(e.value))
        if isinstance(e, ast.UnaryOp) and isinstance(e.op, ast.USub) and isinstance(e.operand, ast.Constant) and isinstance(e.operand.value, int):
            return ("lit", -e.operand.value)
        if isinstance(e, ast.UnaryOp) and isinstance(e.op, ast.USub) and self.flagp is not None and self.D(e.operand) == ("in", self.flagp):
            return ("negin", self.flagp)
        if isinstance(e, ast.Name):
            if e.id in self.inputs:
                return ("in", e.id)
            if e.id == self.counter:
                return ("pos", "cur")
            if e.id in self.loopvars:
                return self.loopvars[e.id]
            c = self.cls(e.id)
            if c == ("pos",):
                return ("pos", ("var", e.id))
            if c == ("count",):
                return ("count", e.id)
            if c is not None and c[0] == "runval":
                return ("runval", e.id, c[1])
            if c is not None and c[0] == "kept":
                return ("kept", e.id)
            return ("opaque", e.id)
        if isinstance(e, ast.BinOp) and isinstance(e.op, (ast.Add, ast.Sub)):
            l, r = self.D(e.left), self.D(e.right)
            if l == ("pos", "cur") and r[0] == "lit":
                k = r[1] if isinstance(e.op, ast.Add) else -r[1]
                return ("pos", "cur") if k == 0 else ("pos", ("cur", k))
            if l[0] == "count" and r[0] == "lit":
                return ("count+", l[1], r[1] if isinstance(e.op, ast.Add) else -r[1])
            return ("opaque", norm(e))
        if isinstance(e, ast.Attribute):
            if e.attr == "size":
                return ("size", self.D(e.value))
            return ("opaque", norm(e))
        if isinstance(e, ast.Call):
            n = _cname(e)
            recv = e.func.value if isinstance(e.func, ast.Attribute) and not _is_np(e) else None
            a0 = recv if recv is not None else (e.args[0] if e.args else None)
            d0 = self.D(a0) if a0 is not None else None
            if n == "argsort" and d0 is not None and d0 == ("in", self.key):
                return ("sorter",)
            if n == "argsort" and d0 is not None and self.flagp is not None:
                # two-stage orders of the flagged variant: a permutation that orders by flag, then the values gathered through it are sorted
                kinds = [k.value for k in e.keywords if k.arg == "kind"]
                stable = len(kinds) == 1 and isinstance(kinds[0], ast.Constant) and kinds[0].value in ("stable", "mergesort")
                if d0 == ("in", self.flagp):
                    return ("fperm", "asc")
                if d0 == ("negin", self.flagp):
                    return ("fperm", "desc-neg")        # decreasing only where negation reverses the order (not for unsigned / boolean flags)
                if d0[0] == "fv" and d0[1] == self.key:
                    return ("vperm", d0[2], stable, norm(e))
            if n == "lexsort" and _is_np(e) and self.flagp is not None and len(e.args) == 1 and not e.keywords and isinstance(e.args[0], (ast.Tuple, ast.List)) \
                    and len(e.args[0].elts) == 2 and self.D(e.args[0].elts[1]) == ("in", self.key):
                # lexsort((secondary, primary)) is a stable sort by the last key with ties in the order of the key before it
                sec = self.D(e.args[0].elts[0])
                if sec in (("in", self.flagp), ("negin", self.flagp)):
                    self.tiebreaks[("asc" if sec[0] == "in" else "desc-neg", True)] = norm(e)
                    return ("sorter",)
            if n == "sort" and _is_np(e) and d0 == ("in", self.key):
                return ("sv", self.key)
            if (n == "sort" and _is_np(e) or n == "sorted" and recv is None) and len(e.args) == 1 and d0 is not None and d0[0] == "idxarr":
                return d0               # the same indices in ascending order: re-ordering an index array does not change what its entries index
            if n in _ALLOC and _is_np(e):
                return ("alloc", n)
            if n == "list" and not e.args and recv is None:
                return ("alloc", "list")
            if n in ("array", "asarray", "asanyarray", "copy") and d0 is not None and d0[0] in ("kept", "in", "sorter", "sv", "idxarr"):
                return d0
            if n in ("len", "size") and d0 is not None:
                return ("size", d0)
            if n == "take" and len(e.args) + (1 if recv is not None else 0) == 2:
                return self.sub(d0, self.D(e.args[-1]), e)
            return ("opaque", norm(e))
        if isinstance(e, ast.List):
            if not e.elts:
                return ("alloc", "list")
            return ("alloc", "list", tuple(self.D(x) for x in e.elts))
        if isinstance(e, ast.Subscript):
            b = self.D(e.value)
            if isinstance(e.slice, ast.Slice):
                if b[0] in ("kept", "idxarr"):
                    return b
                sl = e.slice
                if b[0] == "fperm" and b[1] in ("asc", "desc") and sl.lower is None and sl.upper is None and sl.step is not None \
                        and self.D(sl.step) == ("lit", -1):
                    return ("fperm", "desc" if b[1] == "asc" else "asc")       # the reversed order
                return ("slice-of", b)
            return self.sub(b, self.D(e.slice), e)
        return ("opaque", norm(e))

    def sub(self, b, i, e):
        if b[0] == "fperm" and i[0] == "vperm" and i[1] == b[1]:
            # o[argsort(a[o])]: sorted by value; equal values stay in the order of o only when the second sort is stable
            self.tiebreaks[(b[1], i[2])] = i[3]
            return ("sorter",)
        if b[0] == "in":
            if i == ("sorter",):
                return ("sv", b[1])
            if i[0] == "fperm":
                return ("fv", b[1], i[1])           # an input gathered in flag order
            if i[0] == "idx":
                return ("val", b[1], i[1])
            if i[0] == "lit":
                return ("inval", b[1], i[1])
            if i[0] == "pos":
                return ("bad", "a sorted position is used to index the unsorted input")
            if i[0] in ("kept", "idxarr"):
                return ("vals", b[1], i)
            return ("unk", "index of unknown space")
        if b[0] in ("sorter", "sv"):
            if i[0] == "pos" or i[0] == "lit":
                p = i[1] if i[0] == "pos" else ("lit", i[1])
                return ("idx", p) if b[0] == "sorter" else ("val", b[1], p)
            if i[0] == "idx" or i[0] == "idxarr":
                return ("bad", "an input index is used to index a sorted-order array")
            if i[0] == "kept":
                return ("idxarr", "via", i[1]) if b[0] == "sorter" else ("vals", b[1], i)
            return ("unk", "index of unknown space")
        if b[0] == "kept":
            return ("keptslot", b[1], i)
        return ("opaque", norm(e))


def _scan_dedup(chk, fi, narr):
    q = fi.qualname
    sc = Scan(fi, narr)
    fn = sc.fn
    why = sc.find_loop()
    chk.ob("R06.1", q + "::scan-recognised", None if why else True, fi.where(), "the de-duplication is one counted scan over the argsort of the input%s"
           % ("" if not why else " -- " + why))
    if why:
        return
    lp = sc.loop
    # the sorter
    has_sorter = any(sc.D(sc.X(x)) == ("sorter",) for x in walk_no_nested(fn) if isinstance(x, (ast.Call, ast.Subscript)))
    chk.ob("R06.1", q + "::sorter-found", True if has_sorter else None, fi.where(), "the scan is driven by an argsort of the input")
    if not has_sorter:
        return
    chk.ob("R06.1", q + "::scan-starts-at-sorted-position-1", None if sc.start is None else sc.start in (0, 1), fi.where(lp),
           "the scan visits every sorted position after the seed (it starts at position %s; position 0 is the seed)" % sc.start)
    # every subscript is applied in the matching space
    n_sub = 0
    for x in walk_no_nested(fn):
        if not isinstance(x, ast.Subscript):
            continue
        xe = sc.X(x) if isinstance(x.ctx, ast.Load) else ast.Subscript(value=sc.X(x.value), slice=sc.X(x.slice), ctx=ast.Load())
        if not isinstance(xe, ast.Subscript) or isinstance(xe.slice, ast.Slice):
            continue
        b = sc.D(xe.value)
        if b[0] not in ("in", "sorter", "sv"):
            continue
        n_sub += 1
        d = sc.D(xe)
        i = sc.D(xe.slice)
        txt = norm(xe)
        if b[0] == "in":
            key = "%s::input-indexed-in-Idx-space::%s" % (q, txt)
            msg = "`%s`: the input array must be indexed by an input index (sorter[position] or an array of such)" % txt
            if d[0] == "inval":
                chk.ob("R06.1", key, False, fi.where(x), msg + " -- a literal index into the *unsorted* input is not the element at sorted position %s: the scan "
                       "compares against the wrong seed unless the input happens to start with its minimum" % d[2])
            elif d[0] == "bad":
                chk.ob("R06.1", key, False, fi.where(x), msg + " -- " + d[1])
            elif d[0] == "unk":
                chk.ob("R06.1", key, None, fi.where(x), msg + " -- " + d[1])
            elif d[0] == "vals":
                sp = _space_of_index(sc, d[2])
                chk.ob("R06.1", key, None if sp is None else sp == "Idx", fi.where(x), msg + " (index array space: %s)" % sp)
            else:
                chk.ob("R06.1", key, True, fi.where(x), msg)
        else:
            key = "%s::sorted-indexed-in-Pos-space::%s" % (q, txt)
            msg = "`%s`: sorted-order arrays are indexed by sorted positions" % txt
            if d[0] == "bad":
                chk.ob("R06.1", key, False, fi.where(x), msg + " -- " + d[1])
            elif d[0] == "unk":
                chk.ob("R06.1", key, None, fi.where(x), msg + " -- " + d[1])
            elif d[0] in ("idxarr", "vals") and i[0] == "kept":
                sp = _space_of_index(sc, i)
                chk.ob("R06.1", key, None if sp is None else sp == "Pos", fi.where(x), msg + " (index array space: %s)" % sp)
            else:
                chk.ob("R06.1", key, True, fi.where(x), msg)
    chk.ob("R06.1", q + "::subscripts-typed", True if n_sub >= 3 else None, fi.where(), "%d subscripts of the input / sorted arrays were typed" % n_sub)
    # no decision may hang on the truth value of an element: 0, 0.0, False and the empty string are values like any other
    truthy = [(x, d) for x, d in ((x, sc.D(sc.X(x))) for x in _truth_contexts(fn)) if d[0] in ("val", "inval", "runval")]
    chk.ob("R06.1", q + "::no-element-truth-test", not truthy, fi.where(truthy[0][0]) if truthy else fi.where(),
           "no test of the scan uses the truth value of an element of the input (zero, False and the empty string are falsy, yet they are values that "
           "must get exactly one index like any other)%s" % ("" if not truthy else "; `%s` is %s used as a condition: whenever it is falsy the test "
                                                           "takes the same arm whatever the comparison of the values says" % (
               norm(truthy[0][0]), {"runval": "the running value of the run", "val": "an element of `%s`" % truthy[0][1][1],
                                    "inval": "an element of `%s`" % truthy[0][1][1]}[truthy[0][1][0]])))
    _scan_logic(chk, sc, narr)


def _truth_contexts(fn):
    """expressions whose truth value is taken: tests of if / while / conditional expressions / assert, operands of and / or / not, bool(x)"""
    out = []
    for x in walk_no_nested(fn):
        if isinstance(x, (ast.If, ast.While, ast.IfExp, ast.Assert)):
            out.append(x.test)
        elif isinstance(x, ast.BoolOp):
            out.extend(x.values)
        elif isinstance(x, ast.UnaryOp) and isinstance(x.op, ast.Not):
            out.append(x.operand)
        elif isinstance(x, ast.Call) and isinstance(x.func, ast.Name) and x.func.id == "bool" and len(x.args) == 1:
            out.append(x.args[0])
        elif isinstance(x, ast.comprehension):
            out.extend(x.ifs)
    return [e for e in out if not isinstance(e, (ast.BoolOp, ast.Compare)) and not (isinstance(e, ast.UnaryOp) and isinstance(e.op, ast.Not))]


def _kept_stores(sc):
    """{container: [(slot descriptor | 'append', value descriptor, stmt)]}"""
    out = {}
    for x in walk_no_nested(sc.fn):
        if isinstance(x, ast.Assign) and len(x.targets) == 1 and isinstance(x.targets[0], ast.Subscript):
            t = x.targets[0]
            b = sc.D(sc.X(t.value))
            if b[0] == "kept":
                slot = ("slice",) if isinstance(t.slice, ast.Slice) else sc.D(sc.X(t.slice))
                out.setdefault(b[1], []).append((slot, sc.D(sc.X(x.value)), x))
        elif isinstance(x, ast.Expr) and isinstance(x.value, ast.Call) and _cname(x.value) == "append" and isinstance(x.value.func, ast.Attribute) \
                and len(x.value.args) == 1:
            b = sc.D(sc.X(x.value.func.value))
            if b[0] == "kept":
                out.setdefault(b[1], []).append(("append", sc.D(sc.X(x.value.args[0])), x))
    return out


def _space_of_value(v):
    if v[0] == "idx":
        return "Idx"
    if v[0] == "pos":
        return "Pos"
    return None


def _space_of_index(sc, i):
    """space of the entries of an index container descriptor"""
    if i[0] == "idxarr":
        return "Idx"
    if i[0] == "kept":
        sp = set()
        for slot, v, st in _kept_stores(sc).get(i[1], []):
            s_ = _space_of_value(v)
            if s_ is None and v[0] == "lit":
                continue
            sp.add(s_)
        ds = sc.defs.get(i[1], [])
        for v, st in ds:
            d = sc.D(sc.X(v)) if isinstance(v, ast.AST) else None
            if d is not None and d[0] == "alloc" and len(d) == 3:
                for el in d[2]:
                    if el[0] != "lit":
                        sp.add(_space_of_value(el))
        if len(sp) == 1 and None not in sp:
            return next(iter(sp))
        return "mixed" if len(sp) > 1 and None not in sp else None
    return None


def _scan_logic(chk, sc, narr):
    fi, fn, lp, q = sc.fi, sc.fn, sc.loop, sc.fi.qualname
    key, flagp = sc.key, sc.flagp
    cfg = CFG(fn)
    view = cfg.view()
    cur = ("pos", "cur")

    def ctrl(st):
        n = rules.node_of_stmt(cfg, st)
        return {id(b.ast): lab for b, lab in view.controlling_branches(n)} if n is not None else {}

    def inloop(st):
        return id(st) in sc.inloop

    # -- the new-run test ----------------------------------------------------
    runs = []

    def value_change(t):
        """(reference value, True for `!=`) when t compares the value at the current sorted position with another value of the same input"""
        if isinstance(t, ast.Compare) and len(t.ops) == 1 and isinstance(t.ops[0], (ast.NotEq, ast.Eq)):
            a, b = sc.D(t.left), sc.D(t.comparators[0])
            for me, ref in ((a, b), (b, a)):
                if me == ("val", key, "cur") and (ref[0] == "runval" and ref[2] == key or ref == ("val", key, ("cur", -1))
                                                  or (ref[0] in ("val", "inval") and ref[1] == key and ref != me)):
                    return ref, isinstance(t.ops[0], ast.NotEq)
        return None

    def beside(t, ref, new):
        """an operand beside the value comparison that this check can place: the running value tested for 'nothing seen yet' (`val is None` in a
        disjunction that opens a run, `val is not None` in a conjunction that continues one), or the truth value of an element (which the rule
        no-element-truth-test reports)"""
        if isinstance(t, ast.UnaryOp) and isinstance(t.op, ast.Not):
            return not new and beside(t.operand, ref, True) or sc.D(t.operand)[0] in ("val", "inval", "runval")
        if isinstance(t, ast.Compare) and len(t.ops) == 1 and isinstance(t.ops[0], ast.Is if new else ast.IsNot):
            a, b = sc.D(t.left), sc.D(t.comparators[0])
            return ref[0] == "runval" and {a, b} == {ref, ("konst", "None")}
        return sc.D(t)[0] in ("val", "inval", "runval")

    for x in ast.walk(lp):
        if isinstance(x, ast.If):
            t = sc.X(x.test)
            parts = list(t.values) if isinstance(t, ast.BoolOp) else [t]
            found = [(p_, value_change(p_)) for p_ in parts]
            hits = [(p_, vc) for p_, vc in found if vc is not None]
            if len(hits) != 1:
                continue
            ref, new = hits[0][1]
            # `A or v != val` opens a run, `A and v == val` continues one; any other combination is not a form this check knows
            if isinstance(t, ast.BoolOp) and not (isinstance(t.op, ast.Or) == new and all(vc is not None or beside(p_, ref, new) for p_, vc in found)):
                continue
            runs.append((x, ref, "T" if new else "F"))
    chk.ob("R06.1", q + "::new-run-test", True if len(runs) == 1 else None, fi.where(lp),
           "a new run starts where the value at the current sorted position differs from the running value of the run (found %d such test(s))" % len(runs))
    if len(runs) != 1:
        return
    runif, ref, newlab = runs[0]
    samelab = "F" if newlab == "T" else "T"

    def arm(st):
        c = ctrl(st)
        return {newlab: "new", samelab: "same"}.get(c.get(id(runif)))

    # -- the running value is seeded from sorted position 0 and replaced at each new run
    def seeds_of(var):
        """the definitions of var outside the loop that can reach it: of straight-line definitions at the top level of the function only the last"""
        outs = [(v, st) for v, st in sc.defs.get(var, []) if not inloop(st)]
        if len(outs) > 1 and all(any(st is b for b in fn.body) and st.lineno < lp.lineno for v, st in outs):
            outs = [max(outs, key=lambda d: d[1].lineno)]
        return outs

    def seed_rule(var, p, what):
        for v, st in seeds_of(var):
            d = sc.D(sc.X(v)) if isinstance(v, ast.AST) else ("opaque",)
            if True:
                ok = True if d == ("val", p, ("lit", 0)) else (False if d[0] == "inval" or (d[0] == "val" and d[2] != ("lit", 0)) else None)
                why = ""
                if d == ("konst", "None") and what == "value":
                    # 'nothing seen yet': sound when the scan itself visits sorted position 0 (its value differs from None, so it opens the first run)
                    ok = None if sc.start is None else sc.start == 0
                    why = "; it starts as None, which stands for 'nothing seen yet' only when the scan begins at sorted position 0 (it begins at %s)" % sc.start
                elif d[0] in ("lit", "konst"):
                    ok = False
                    why = "; it starts as the constant %s, which can itself be an element: the first run is then mistaken for a continuation, or split" % d[1]
                chk.ob("R06.1", "%s::seed-from-sorted-position-0::%s" % (q, what), ok, fi.where(st),
                       "the running %s is seeded from sorted position 0 (`%s`)%s" % (what, norm(sc.X(st)), why))
    if ref[0] in ("val", "inval") and ref != ("val", key, ("cur", -1)):
        chk.ob("R06.1", q + "::running-value-replaced-at-new-run", False, fi.where(runif),
               "at a new run the running value becomes the value at the current sorted position; the scan compares every element with the fixed element `%s`"
               % norm(sc.X(runif.test)))
        return
    if ref[0] == "runval":
        seed_rule(ref[1], key, "value")
        ins = [(sc.D(sc.X(v)) if isinstance(v, ast.AST) else ("opaque",), st) for v, st in sc.defs[ref[1]] if inloop(st)]
        ok = bool(ins) and all(d == ("val", key, "cur") and arm(st) == "new" for d, st in ins)
        chk.ob("R06.1", q + "::running-value-replaced-at-new-run", True if ok else (False if not ins else None), fi.where(runif),
               "at a new run the running value becomes the value at the current sorted position")
    # the running value starts as None and the scan begins at sorted position 0: the first iteration opens the first run
    outseeds = [sc.D(sc.X(v)) if isinstance(v, ast.AST) else ("opaque",) for v, st in seeds_of(ref[1])] if ref[0] == "runval" else []
    sentinel = bool(outseeds) and all(d == ("konst", "None") for d in outseeds) and sc.start == 0
    # -- the larger-flag test (flagged variant) ------------------------------
    flagif = fref = None
    if flagp is not None:
        fl = []
        for x in ast.walk(lp):
            if isinstance(x, ast.If):
                t = sc.X(x.test)
                if isinstance(t, ast.Compare) and len(t.ops) == 1 and isinstance(t.ops[0], (ast.Gt, ast.GtE, ast.Lt, ast.LtE)):
                    a, b = sc.D(t.left), sc.D(t.comparators[0])
                    for me, r_, left in ((a, b, True), (b, a, False)):
                        if me == ("val", flagp, "cur") and (r_[0] == "runval" and r_[2] == flagp or (r_[0] == "val" and r_[1] == flagp and r_[2] != "cur")):
                            larger = isinstance(t.ops[0], (ast.Gt, ast.GtE)) == left
                            fl.append((x, r_, larger))
        ok = True if len(fl) == 1 and fl[0][2] and ctrl(fl[0][0]).get(id(runif)) == samelab else (False if len(fl) == 1 and not fl[0][2] else None)
        extra = ""
        if not fl:
            # no flag comparison in the scan: the flags can only decide through the order in which equal values are visited
            recs = [v for stl in _kept_stores(sc).values() for slot, v, st in stl if inloop(st)]
            first_of_run = bool(recs) and all(v in (cur, ("idx", "cur")) for v in recs)
            reads = [x for x in walk_no_nested(fn) if isinstance(x, ast.Name) and x.id == flagp and isinstance(x.ctx, ast.Load)]
            if len(sc.tiebreaks) == 1:
                (direction, stable), txt = next(iter(sc.tiebreaks.items()))
                if not stable:
                    ok = False
                    extra = ("; the scan compares no flags and relies on the visiting order, but `%s` is not a stable sort (no kind='stable' / 'mergesort'): it "
                             "does not keep elements with equal values in the flag order established before it, so the entry kept for a value need not carry "
                             "its largest flag" % txt)
                elif first_of_run and direction == "desc-neg":
                    extra = ("; the scan keeps the first entry of every run and `%s` visits equal values by increasing negated flag, which is decreasing flag "
                             "only for element types whose negation reverses the order (not unsigned integers or booleans): not decided" % txt)
                elif first_of_run:
                    ok = direction == "desc"
                    extra = "; the scan keeps the first entry of every run and `%s` visits equal values by %s flag" % (
                        txt, "decreasing" if ok else "increasing (the smallest flag is kept)")
            elif not reads:
                ok = False
                extra = "; the flag array `%s` is never read" % flagp
        chk.ob("R06.1", q + "::largest-flag-wins", ok, fi.where(fl[0][0]) if fl else fi.where(lp),
               "within a run the kept position is replaced only when the flag at the current position is larger than the largest flag seen in the run" + extra)
        if ok is not True:
            return
        if fl:
            flagif, fref = fl[0][0], fl[0][1]

    def where_arm(st):
        a = arm(st)
        if a == "same" and flagif is not None and ctrl(st).get(id(flagif)) == "T":
            return "larger"
        return a

    # -- the kept container --------------------------------------------------
    stores = _kept_stores(sc)
    live = [k for k, v in stores.items() if any(inloop(st) for _, _, st in v)]
    chk.ob("R06.1", q + "::kept-container", True if len(live) == 1 else None, fi.where(),
           "kept entries are recorded in one index container filled by the scan (found %s)" % sorted(live))
    if len(live) != 1:
        return
    kname = live[0]
    st_all = stores[kname]
    space = _space_of_index(sc, ("kept", kname))
    chk.ob("R06.1", "%s::kept-array-single-space" % q, None if space is None else space in ("Idx", "Pos"), fi.where(),
           "all entries recorded in the kept container are in one index space (%s)" % space)
    if space not in ("Idx", "Pos"):
        return
    want_cur = ("idx", "cur") if space == "Idx" else cur

    def lit_slot(slot, st):
        """a slot named through a slot counter in the straight-line code before the scan is the literal slot the counter stands for there"""
        if isinstance(slot, tuple) and slot[0] in ("count", "count+"):
            v = sc.count_at(slot[1], st.lineno)
            if v is not None:
                return ("lit", v + (slot[2] if slot[0] == "count+" else 0))
        return slot

    in_st = [(slot, v, st) for slot, v, st in st_all if inloop(st)]
    pre_st = [(lit_slot(slot, st), v, st) for slot, v, st in st_all if not inloop(st) and st.lineno < lp.lineno]
    post_st = [(slot, v, st) for slot, v, st in st_all if not inloop(st) and st.lineno > lp.lineno]
    posvars = {v[1][1] for _, v, _ in in_st if v[0] in ("pos", "idx") and isinstance(v[1], tuple) and v[1][0] == "var"}
    mode = "B" if posvars else "A"
    alloc = [(sc.D(sc.X(v)), st) for v, st in sc.defs.get(kname, []) if isinstance(v, ast.AST)]
    alloc = [(d, st) for d, st in alloc if d[0] == "alloc"]
    k0 = "%s::slot0-seeded-from-sorted-position-0" % q
    if mode == "A":
        # every store in the loop happens at a new run, or for a larger flag within the run
        for slot, v, st in in_st:
            a = where_arm(st)
            chk.ob("R06.1", "%s::store-guard::%s" % (q, norm(sc.X(st))), a in ("new", "larger"), fi.where(st),
                   "`%s` happens when the value changes (new run) or a larger flag is seen" % norm(st))
            okv = v == want_cur
            chk.ob("R06.1", "%s::store-records-current-position::%s" % (q, norm(sc.X(st))), True if okv else None, fi.where(st),
                   "the recorded entry is the current sorted position%s" % (" mapped through the sorter" if space == "Idx" else ""))
        news = [(slot, v, st) for slot, v, st in in_st if where_arm(st) == "new"]
        ok = None
        slot_new = None
        # the slot arithmetic is decided on the relation between the slot counter c and the number U of slots in use: c = U + slot_k throughout
        # the scan (slot_k = -1: c is the last slot used, `c += 1; keep[c] = p`, result keep[:c + 1]; slot_k = 0: c counts the slots used,
        # `keep[c] = p; c += 1`, the entry of the current run is keep[c - 1], result keep[:c]).  U starts at 1 (slot 0 holds the seed) unless the
        # first run is recorded by the scan itself (sentinel)
        slot_c = slot_k = None
        extra = ""
        if len(news) == 1:
            slot_new = news[0][0]
            if slot_new == "append":
                ok = True
            elif slot_new[0] == "lit":
                ok = False              # every run overwrites one fixed slot
            elif slot_new[0] in ("count", "count+"):
                c = slot_new[1]
                off = slot_new[2] if slot_new[0] == "count+" else 0
                incs = [(v, st) for v, st in sc.defs.get(c, []) if inloop(st)]
                c0 = sc.count_at(c, lp.lineno)          # what the counter holds when the scan begins
                if not incs:
                    ok = False          # the slot counter never advances: every run overwrites the same slot
                elif len(incs) == 1 and isinstance(incs[0][0], tuple) and where_arm(incs[0][1]) == "new" and incs[0][0][1] == "Add" \
                        and sc.D(sc.X(incs[0][0][2])) == ("lit", 1) and c0 is not None:
                    k = c0 - (0 if sentinel else 1)
                    advanced_first = incs[0][1].lineno < news[0][2].lineno
                    # the store must hit slot U (the first free one): with c = U + k before the arm that is c - k, or (c + 1) - k - 1 once advanced
                    extra = " (`%s` starts at %d with %d slot(s) in use, is advanced %s the store into slot `%s`)" % (
                        c, c0, 0 if sentinel else 1, "before" if advanced_first else "after", norm(news[0][2].targets[0].slice))
                    hit = off + k + (1 if advanced_first else 0)       # the slot written, relative to the first free one
                    ok = hit == 0
                    if ok:
                        slot_c, slot_k = c, k
                    else:
                        extra += ": the store goes to %s" % ("a slot already in use, whose entry is lost" if hit < 0 else "the slot after the first free one, "
                                                             "which is left holding its initial value")
        chk.ob("R06.1", q + "::new-run-takes-a-fresh-slot", ok, fi.where(runif),
               "each new run is recorded in the next free slot (slot 0 belongs to the seed)" + extra)
        if slot_c is not None:
            _kept_extent(chk, sc, q, kname, slot_c, slot_k)
        # slot 0
        seeds = [(slot, v, st) for slot, v, st in pre_st if slot == ("lit", 0) or slot == "append"]
        first = None
        if sentinel:
            # the first iteration (sorted position 0) takes the new-run arm: what it records is the first entry
            if not seeds and len(news) == 1 and not (alloc and len(alloc[0][0]) == 3 and alloc[0][0][2]):
                first = {("idx", "cur"): ("idx", ("lit", 0)), cur: ("lit", 0)}.get(news[0][1])
        elif seeds:
            first = seeds[0][1]
        elif alloc and len(alloc[0][0]) == 3 and alloc[0][0][2]:
            first = alloc[0][0][2][0]
        elif alloc and alloc[0][0][1] in ("zeros", "zeros_like"):
            first = ("lit", 0)
        elif alloc:
            first = ("uninitialised",)
        if space == "Idx":
            ok = True if first == ("idx", ("lit", 0)) else (False if first is not None and first[0] in ("lit", "uninitialised") else None)
            chk.ob("R06.1", k0, ok, fi.where(alloc[0][1]) if alloc else fi.where(),
                   "the kept container holds input indices, so its first entry must be sorter[0] (the index of the smallest element); a zero-initialised "
                   "slot names input index 0, which is only right when the first element is the minimum (found %s)" % (first,))
        else:
            ok = True if first == ("lit", 0) else (False if first is not None and first[0] in ("lit", "uninitialised", "idx") else None)
            chk.ob("R06.1", k0, ok, fi.where(), "the kept container holds sorted positions; its first entry is position 0 (found %s)" % (first,))
    else:
        if len(posvars) != 1:
            chk.ob("R06.1", q + "::kept-container", None, fi.where(), "one position variable is recorded per run (found %s)" % sorted(posvars))
            return
        b = next(iter(posvars))
        want_b = ("idx", ("var", b)) if space == "Idx" else ("pos", ("var", b))
        for slot, v, st in in_st:
            chk.ob("R06.1", "%s::store-guard::%s" % (q, norm(sc.X(st))), True if (arm(st) == "new" and v == want_b and slot == "append") else
                   (False if arm(st) != "new" else None), fi.where(st), "`%s`: the position remembered for the finished run is recorded when the value changes" % norm(st))
        bdefs = [(sc.D(sc.X(v)) if isinstance(v, ast.AST) else ("opaque",), st) for v, st in sc.defs.get(b, [])]
        outs = [(d, st) for d, st in bdefs if not inloop(st)]
        ok = True if outs and all(d == ("lit", 0) for d, st in outs) else (False if outs and all(d[0] == "lit" for d, st in outs) else None)
        chk.ob("R06.1", k0, ok, fi.where(outs[0][1]) if outs else fi.where(), "the remembered position starts at sorted position 0 (the first run)")
        rec = [st for slot, v, st in in_st if arm(st) == "new"]
        newdefs = [st for d, st in bdefs if inloop(st) and arm(st) == "new" and d == cur]
        ok = True if len(rec) == 1 and len(newdefs) == 1 and rec[0].lineno < newdefs[0].lineno else None
        chk.ob("R06.1", q + "::new-run-takes-a-fresh-slot", ok, fi.where(runif),
               "at a new run the finished run's position is recorded first and the remembered position then restarts at the current position")
        closing = [st for slot, v, st in post_st if slot == "append" and v == want_b
                   and all(getattr(x, "lineno", 0) < lp.lineno for x in walk_no_nested(fn) if isinstance(x, ast.If) and id(x) in ctrl(st))]
        chk.ob("R06.1", q + "::last-run-recorded", True if closing else False, fi.where(lp), "after the scan the position remembered for the last run is recorded")
    # -- running maximum (flagged variant) -----------------------------------
    if flagif is not None:
        kk = q + "::running-maximum-updated-with-kept-position"
        mm = "when a larger flag is seen both the remembered largest flag and the kept position are replaced, and a new run resets the remembered flag; " \
             "otherwise a later, smaller flag can still displace the largest one"
        upd = reset = None
        if fref[0] == "runval":
            f = fref[1]
            seed_rule(f, flagp, "largest flag")
            ins = [(sc.D(sc.X(v)) if isinstance(v, ast.AST) else ("opaque",), st) for v, st in sc.defs[f] if inloop(st)]
            upd = any(d == ("val", flagp, "cur") and where_arm(st) == "larger" for d, st in ins)
            reset = any(d == ("val", flagp, "cur") and where_arm(st) == "new" for d, st in ins)
            strange = [st for d, st in ins if not (d == ("val", flagp, "cur") and where_arm(st) in ("larger", "new"))]
            if strange:
                chk.ob("R06.1", kk, None, fi.where(strange[0]), mm + " -- `%s` is not understood" % norm(strange[0]))
                return
        elif fref[0] == "val" and isinstance(fref[2], tuple) and fref[2][0] == "var":
            bv = fref[2][1]
            bdefs = [(sc.D(sc.X(v)) if isinstance(v, ast.AST) else ("opaque",), st) for v, st in sc.defs.get(bv, [])]
            upd = any(d == cur and inloop(st) and where_arm(st) == "larger" for d, st in bdefs)
            reset = any(d == cur and inloop(st) and where_arm(st) == "new" for d, st in bdefs)
            outs = [d for d, st in bdefs if not inloop(st)]
            if mode == "A" or (mode == "B" and bv not in posvars) or outs != [("lit", 0)]:
                chk.ob("R06.1", kk, None, fi.where(flagif), mm + " -- the position variable `%s` the flag is read through is not the recorded one" % bv)
                return
        else:
            chk.ob("R06.1", kk, None, fi.where(flagif), mm + " -- the comparand %s is not understood" % (fref,))
            return
        if mode == "A":
            # the entry of the current run is the last slot in use: slot c - slot_k - 1 of a counted container, slot -1 of a list
            lar = [(slot, v, st) for slot, v, st in in_st if where_arm(st) == "larger"]
            news = [(slot, v, st) for slot, v, st in in_st if where_arm(st) == "new"]
            kept = None
            if not lar:
                kept = False            # the largest flag is remembered, the position that carries it is not
            elif len(lar) == 1 and len(news) == 1:
                lslot, lv = lar[0][0], lar[0][1]
                if lslot == "append":
                    kept = False        # a second entry for the same value
                elif lv != want_cur:
                    kept = False if lv[0] in ("pos", "idx", "lit") else None
                elif news[0][0] == "append":
                    kept = True if lslot == ("lit", -1) else (False if lslot[0] == "lit" else None)
                elif slot_c is not None and lslot[0] in ("count", "count+") and lslot[1] == slot_c:
                    kept = (lslot[2] if lslot[0] == "count+" else 0) + slot_k == -1
                    if any(isinstance(v, tuple) and inloop(st) and where_arm(st) == "larger" for v, st in sc.defs.get(slot_c, [])):
                        kept = False    # a larger flag must not open a new slot
                elif slot_c is not None and lslot[0] == "lit":
                    kept = False        # one fixed slot, whatever run the scan is in
        else:
            kept = bool(upd)
        chk.ob("R06.1", kk, None if kept is None and upd and reset else bool(upd and reset and kept), fi.where(flagif),
               mm + " (largest flag updated: %s, reset at a new run: %s, kept position replaced: %s)"
               % (bool(upd), bool(reset), "not decided" if kept is None else bool(kept)))
    # -- returned indices are in Idx space -------------------------------------
    for r_ in [x for x in walk_no_nested(fn) if isinstance(x, ast.Return) and x.value is not None]:
        vals = []
        todo = [r_.value]
        while todo:
            v = todo.pop(0)
            if isinstance(v, ast.IfExp):
                todo[:0] = [v.body, v.orelse]
            elif isinstance(v, ast.Tuple):
                todo[:0] = list(v.elts)
            else:
                vals.append(v)
        one = _size_one_guard(sc, r_, ctrl)
        for n, v in enumerate(vals):
            d = sc.D(sc.X(v))
            kr = "%s::returns-Idx::%d@%s" % (q, n, norm(sc.X(v))[:60])
            if d[0] == "kept":
                sp = _space_of_index(sc, d)
                chk.ob("R06.1", kr, None if sp is None else sp == "Idx", fi.where(r_), "the returned index array holds input indices (%s)" % sp)
            elif d[0] == "idxarr":
                sp = _space_of_index(sc, ("kept", d[2])) if len(d) == 3 else "Idx"
                chk.ob("R06.1", kr, None if sp is None else sp == "Pos", fi.where(r_),
                       "kept sorted positions are mapped back through the sorter before being returned (container space: %s)" % sp)
            elif d[0] == "vals":
                continue            # the values at the kept indices: typed by the subscript rule
            elif d == ("sorter",):
                chk.ob("R06.1", kr, False, fi.where(r_), "the whole sorter is returned: the kept positions were never selected from it")
            elif (d == ("lit", 0) or d[0] == "in") and one:
                chk.ob("R06.1", kr, True, fi.where(r_), "a one-element input returns index 0")
            else:
                chk.ob("R06.1", kr, None, fi.where(r_), "the returned value `%s` is not a recognised index array" % norm(sc.X(v)))
    srt = [x for x in walk_no_nested(fn) if isinstance(x, ast.Call) and _cname(x) == "sort" and isinstance(x.func, ast.Attribute) and not _is_np(x)]
    bad = [c for c in srt if sc.D(sc.X(c.func.value))[0] == "in"]
    chk.ob("R06.1", q + "::sorts-own-array", not bad, fi.where(bad[0]) if bad else fi.where(), "an in-place sort is applied to a local index array, never to an argument")


def _kept_extent(chk, sc, q, kname, c, k):
    """a counted container is allocated with one slot per element; what is handed on after the scan must be exactly the slots in use.  With the
    slot counter c = U + k (U slots in use) that is the slice [0 : c - k]: every use of the container after the loop is looked at"""
    fi, fn, lp = sc.fi, sc.fn, sc.loop
    key = q + "::kept-slice-covers-recorded-slots"
    msg = "after the scan the kept container is cut to exactly the slots in use (`%s[:%s]`)" % (kname, c if k == 0 else "%s %s %d" % (c, "+" if k < 0 else "-", abs(k)))
    end = getattr(lp, "end_lineno", lp.lineno)
    parent = {}
    for x in walk_no_nested(fn):
        for y in ast.iter_child_nodes(x):
            parent[id(y)] = x
    uses = []
    for x in walk_no_nested(fn):
        if isinstance(x, ast.Name) and isinstance(x.ctx, ast.Load) and getattr(x, "lineno", 0) > end and id(x) not in sc.inloop:
            e = sc.X(x)
            if isinstance(e, ast.Name) and e.id == kname:
                uses.append(x)
    if not uses:
        chk.ob("R06.1", key, None, fi.where(lp), msg + "; the container is not used after the scan")
        return
    verdict, at, why = True, uses[0], ""
    for x in uses:
        pa = parent.get(id(x))
        v = None
        if isinstance(pa, ast.Subscript) and pa.value is x and isinstance(pa.slice, ast.Slice) and isinstance(pa.ctx, ast.Load):
            sl = pa.slice
            lo = None if sl.lower is None else sc.D(sc.X(sl.lower))
            stp = None if sl.step is None else sc.D(sc.X(sl.step))
            up = None if sl.upper is None else sc.D(sc.X(sl.upper))
            if lo in (None, ("lit", 0), ("konst", "None")) and stp in (None, ("lit", 1), ("konst", "None")) and up is not None \
                    and up[0] in ("count", "count+") and up[1] == c:
                e = up[2] if up[0] == "count+" else 0
                adj = sc.count_at(c, x.lineno, since=end)       # `c += 1` between the scan and the slice
                if adj is None:
                    verdict, at = None, x
                    why = "; `%s` is re-defined between the scan and `%s` in a way this check does not know" % (c, norm(pa))
                    break
                e += adj
                v = (e + k == 0)
                if not v:
                    why = "; found `%s`: %s" % (norm(pa), "the entry of the last run is cut off" if e + k < 0 else
                                                "%d slot(s) that no run was recorded in (still holding their initial value) are handed on as indices" % (e + k))
            elif up is None and lo in (None, ("lit", 0)) and stp in (None, ("lit", 1)):
                v = False
                why = "; found `%s`: the whole allocation, unused slots included, is handed on" % norm(pa)
        if v is False:
            verdict, at = False, x
            break
        if v is None and verdict is True:
            verdict, at = None, x
            why = "; `%s` is used in a form this check does not know (`%s`)" % (kname, norm(parent.get(id(x), x))[:80])
    chk.ob("R06.1", key, verdict, fi.where(at), msg + why)


def _size_one_guard(sc, st, ctrl):
    """is the statement reached only when the input has exactly one element"""
    c = ctrl(st)
    for x in walk_no_nested(sc.fn):
        if isinstance(x, ast.If) and id(x) in c:
            t = sc.X(x.test)
            if isinstance(t, ast.Compare) and len(t.ops) == 1 and isinstance(t.ops[0], ast.Eq) and c[id(x)] == "T":
                a, b = sc.D(t.left), sc.D(t.comparators[0])
                if {a, b} == {("size", ("in", sc.key)), ("lit", 1)}:
                    return True
    return False


def _first_of_runs_mask(m, x, monotone):
    """m is a boolean array with one entry per entry of the sequence x (as given), true at entry 0 and at every entry k >= 1 with
    x[k] != x[k-1] (x[k-1] < x[k] says the same when x is known to be non-decreasing): the first entry of every run of equal values"""
    if not isinstance(m, tuple) or not m:
        return False
    nxt, prv = t_take(x, SL_NEXT), t_take(x, SL_PREV)
    change = [t_cmp("ne", nxt, prv)] + ([t_cmp("lt", prv, nxt)] if monotone else [])
    if m[0] == "concat" and len(m) == 3:
        first = m[1][1] if m[1][0] == "arr" else m[1]
        return first in (("list", K(True)), ("tuple", K(True))) and m[2] in change
    t = m
    stores = {}
    while t[0] == "setitem":
        stores.setdefault(t[2], t[3])        # outermost = latest store wins
        t = t[1]
    sizes = [t_size(x)]
    if x[0] == "take" and not is_indexlike(x[2]) and x[2][0] in ("cmp", "and", "or", "inv"):
        sizes.append(t_size(("where0", x[2])))          # y[mask] has as many entries as where(mask)[0]
    if t[0] != "alloc" or _alloc_n(t) not in sizes or not set(stores) <= {K(0), SL_NEXT} or stores.get(SL_NEXT) not in change:
        return False
    return stores.get(K(0)) == K(True) or (K(0) not in stores and t[1] == "ones")


_NO_NAN_KINDS = frozenset("biuSU")


def _vector_flagged(V, r, a, fl, facts, w):
    """the loop-free flagged de-duplication: in sorted order, M marks the first entry of every run of equal values; the largest flag of every run
    is maximum.reduceat(flags in sorted order, run starts); an entry is a candidate when its flag equals the largest flag of its own run
    (run number = cumsum(M) - 1); exactly one candidate per run is kept, and kept positions are mapped through the sorter"""
    s = ("argsort", a)
    sa, sf = t_take(a, s), t_take(fl, s)
    ki, mi = "returns-Idx", "the returned index array holds input indices (kept sorted positions mapped through the sorter)"
    if not (r[0] == "take" and r[1] == s):
        V.add(ki, None, mi + "; found %s" % short(r), w)
        return
    V.add(ki, True, mi, w)
    keep = r[2]
    kb, mb = "run-boundaries", "runs of equal values are found in sorted order: a run starts at sorted position 0 and wherever a value differs from its predecessor"
    masks = {t for t in subterms(keep) if _first_of_runs_mask(t, sa, True)}
    if len(masks) != 1:
        V.add(kb, None, mb + "; found %d such masks in %s" % (len(masks), short(keep)), w)
        return
    V.add(kb, True, mb, w)
    m0 = next(iter(masks))
    starts = ("where0", m0)
    run_id = t_binop("-", ("call", "np.cumsum", (m0,), ()), K(1))
    runmax = ("mcall", ("npattr", "maximum"), "reduceat", (sf, starts), ())
    km, mm = "largest-flag-of-each-run", "the largest flag of every run is the maximum of the flags (gathered through the sorter) from one run start up to the next"
    red = [t for t in subterms(keep) if isinstance(t, tuple) and t and t[0] == "mcall" and t[2] == "reduceat"]
    if runmax not in red:
        wrong = [t for t in red if t[1] == ("npattr", "minimum") and t[3] == (sf, starts)]
        V.add(km, False if wrong else None, mm + ("; found the smallest flag: %s" % short(wrong[0]) if wrong else "; found %s" % short(red[0] if red else keep)), w)
        return
    V.add(km, True, mm, w)
    kinds = element_kinds(facts, fl)
    ke = "largest-flag-is-attained"
    me = "the arm is reached only for flag types in which the maximum of a run equals one of its flags (no NaN / NaT: booleans, integers, strings)"
    V.add(ke, True if kinds is not None and kinds <= _NO_NAN_KINDS else None, me + "; flag kinds on this path: %s"
          % ("not understood" if kinds is None else "".join(sorted(kinds))), w)
    kc, mc = "kept-position-carries-largest-flag", "a position is a candidate when its flag equals the largest flag of its own run (run number = cumsum(run starts) - 1)"
    ismax = t_cmp("eq", sf, t_take(runmax, run_id))
    cand = ("where0", ismax)
    if not (keep[0] == "take" and keep[1] == cand):
        V.add(kc, None, mc + "; found %s" % short(keep), w)
        return
    V.add(kc, True, mc, w)
    ko, mo = "one-kept-per-run", "exactly one candidate of every run is kept: the first one, found where the run number of a candidate differs from that of the candidate before"
    V.add(ko, True if _first_of_runs_mask(keep[2], t_take(run_id, cand), True) else None, mo + ("" if _first_of_runs_mask(keep[2], t_take(run_id, cand), True)
                                                                                         else "; found %s" % short(keep[2])), w)


# ---------------------------------------------------------------------------
# de-duplication written over a shared run helper: a generator that walks the sorted values once and yields the bounds (start, stop) of every
# run of equal values; the public functions keep one position per run
# ---------------------------------------------------------------------------
def _emits(fn):
    """[(statement, emitted expression)] of a run helper: `yield v`, or `L.append(v)` for a helper that builds and returns a list L; None when
    the helper is neither"""
    ys = [x for x in walk_no_nested(fn) if isinstance(x, (ast.Yield, ast.YieldFrom))]
    stmts = [x for x in walk_no_nested(fn) if isinstance(x, ast.Expr)]
    if ys:
        out = [(st, st.value.value) for st in stmts if isinstance(st.value, ast.Yield) and st.value.value is not None]
        rets = [x for x in walk_no_nested(fn) if isinstance(x, ast.Return) and x.value is not None]
        return out if len(out) == len(ys) and not rets else None
    rets = [x for x in walk_no_nested(fn) if isinstance(x, ast.Return) and x.value is not None]
    if not rets or not all(isinstance(r.value, ast.Name) for r in rets) or len({r.value.id for r in rets}) != 1:
        return None
    name = rets[0].value.id
    binds = [x for x in walk_no_nested(fn) if isinstance(x, ast.Name) and x.id == name and isinstance(x.ctx, (ast.Store, ast.Del))]
    init = [st for st in fn.body if isinstance(st, ast.Assign) and len(st.targets) == 1 and isinstance(st.targets[0], ast.Name) and st.targets[0].id == name]
    if len(binds) != 1 or len(init) != 1 or not ((isinstance(init[0].value, ast.List) and not init[0].value.elts)
                                                  or (isinstance(init[0].value, ast.Call) and _cname(init[0].value) == "list" and not init[0].value.args)):
        return None
    out = []
    uses = 0
    for x in walk_no_nested(fn):
        if isinstance(x, ast.Name) and x.id == name and isinstance(x.ctx, ast.Load):
            uses += 1
    for st in stmts:
        c = st.value
        if isinstance(c, ast.Call) and isinstance(c.func, ast.Attribute) and c.func.attr == "append" and isinstance(c.func.value, ast.Name) \
                and c.func.value.id == name and len(c.args) == 1 and not c.keywords:
            out.append((st, c.args[0]))
    # the list is only ever appended to and returned
    return out if out and uses == len(out) + len(rets) and rets[-1] is fn.body[-1] else None


def _run_helper_names(mod):
    """module-level functions of one array that emit pairs (candidates for a run helper; whether they emit the run bounds is a rule)"""
    out = set()
    for name, fn in mod.defs.items():
        if name in ("unique", "rem_dup", "match", "match_multi"):
            continue
        a = fn.args
        if len(a.posonlyargs + a.args) != 1 or a.vararg or a.kwarg or a.kwonlyargs:
            continue
        em = _emits(fn)
        if em and all(isinstance(v, ast.Tuple) and len(v.elts) == 2 for _, v in em):
            out.add(name)
    return out


def _strip_seq(e):
    while isinstance(e, ast.Call) and isinstance(e.func, ast.Name) and e.func.id in ("list", "tuple", "iter") and len(e.args) == 1 and not e.keywords:
        e = e.args[0]
    return e


def _uses_run_helper(mod, fn, helpers):
    if not helpers:
        return False
    return any(isinstance(x, ast.Call) and isinstance(x.func, ast.Name) and x.func.id in helpers for x in walk_no_nested(fn))


def _type_subscripts(ob, sc, fi):
    """every subscript of the input / the sorter / a sorted-order array is applied in the matching index space"""
    n_sub = 0
    for x in walk_no_nested(sc.fn):
        if not isinstance(x, ast.Subscript):
            continue
        xe = sc.X(x) if isinstance(x.ctx, ast.Load) else ast.Subscript(value=sc.X(x.value), slice=sc.X(x.slice), ctx=ast.Load())
        if not isinstance(xe, ast.Subscript) or isinstance(xe.slice, ast.Slice):
            continue
        b = sc.D(xe.value)
        if b[0] not in ("in", "sorter", "sv"):
            continue
        n_sub += 1
        d = sc.D(xe)
        txt = norm(xe)
        if b[0] == "in":
            key = "input-indexed-in-Idx-space::%s" % txt
            msg = "`%s`: the input array must be indexed by an input index (sorter[position] or an array of such)" % txt
        else:
            key = "sorted-indexed-in-Pos-space::%s" % txt
            msg = "`%s`: sorted-order arrays are indexed by sorted positions" % txt
        if d[0] == "inval":
            ob(key, False, fi.where(x), msg + " -- a literal index into the *unsorted* input is not the element at sorted position %s" % d[2])
        elif d[0] == "bad":
            ob(key, False, fi.where(x), msg + " -- " + d[1])
        elif d[0] == "unk":
            ob(key, None, fi.where(x), msg + " -- " + d[1])
        else:
            ob(key, True, fi.where(x), msg)
    return n_sub


class GenScan(Scan):
    """a helper that walks an array which is already in sorted order: its parameter is indexed by sorted positions"""

    def __init__(self, fi):
        Scan.__init__(self, fi, 1)
        self.inputs = set()

    def D(self, e):
        if isinstance(e, ast.Name) and e.id == self.key:
            return ("sv", self.key)
        return Scan.D(self, e)


_HELPER_VERDICT = {}


def _verify_run_helper(chk, mod, name):
    """decide that the helper emits, for the Pos-indexed array x it is given, exactly the pairs (b_k, b_k+1) with b_0 = 0, b_k the positions
    p >= 1 with x[p] != x[p-1] in ascending order, and size(x) after the last: the bounds of every maximal run of equal neighbours.
    Returns True (all rules passed) / False (a rule is contradicted) / None (not recognised); the rule instances are reported once"""
    ck = (id(chk), name)
    if ck in _HELPER_VERDICT:
        return _HELPER_VERDICT[ck]
    fi = mod.func(name)
    chk.analysed_unit(fi.qualname)
    q = fi.qualname + "::runs"
    res = []

    keys = set()

    def ob(key, ok, where, msg):
        if key in keys:
            return
        keys.add(key)
        res.append(ok)
        chk.ob("R06.1", q + "::" + key, ok, where, msg)

    def done():
        v = False if any(r is False for r in res) else (None if any(r is None for r in res) else True)
        _HELPER_VERDICT[ck] = v
        return v

    sc = GenScan(fi)
    fn = sc.fn
    key = sc.key
    why = sc.find_loop()
    lp = sc.loop
    if not why and sc.counter is None:
        why = "the loop does not count sorted positions"
    if not why and lp not in fn.body:
        why = "the loop is nested in another statement"
    if not why and any(isinstance(x, (ast.Break, ast.Continue, ast.Return, ast.Try, ast.With)) for st in lp.body for x in ast.walk(st)):
        why = "the loop can be left or cut short (break / continue / return)"
    if not why and lp.orelse:
        why = "the loop has an else clause"
    ob("scan-recognised", None if why else True, fi.where(), "the run helper is one counted scan over the sorted values it is given%s" % ("" if not why else " -- " + why))
    if why:
        return done()
    ob("scan-starts-at-sorted-position-1", None if sc.start is None else sc.start in (0, 1), fi.where(lp),
       "the scan visits every sorted position after the seed (it starts at position %s; position 0 is the seed)" % sc.start)
    bd = sc.D(sc.X(sc.bound))
    ob("scan-runs-to-the-end", True if bd == ("size", ("sv", key)) else None, fi.where(lp),
       "the scan runs up to the last sorted position (bound `%s`)" % norm(sc.X(sc.bound)))
    cur = ("pos", "cur")
    # -- the new-run test: a direct child of the loop body ------------------
    runs = []
    for x in lp.body:
        if not isinstance(x, ast.If):
            continue
        t = sc.X(x.test)
        if isinstance(t, ast.Compare) and len(t.ops) == 1 and isinstance(t.ops[0], (ast.NotEq, ast.Eq, ast.Lt, ast.Gt)):
            a, b = sc.D(t.left), sc.D(t.comparators[0])
            op = t.ops[0]
            for me, ref, me_left in ((a, b, True), (b, a, False)):
                if me == ("val", key, "cur") and ref != me and ((ref[0] == "runval" and ref[2] == key) or (ref[0] in ("val", "inval") and ref[1] == key)):
                    if isinstance(op, (ast.NotEq, ast.Eq)):
                        runs.append((x, ref, "T" if isinstance(op, ast.NotEq) else "F"))
                    elif isinstance(op, ast.Gt) == me_left:
                        runs.append((x, ref, "T"))      # predecessor < current: in ascending order the same as !=
    nested = [x for st in lp.body for x in ast.walk(st) if isinstance(x, ast.If)]
    ob("new-run-test", True if len(runs) == 1 and len(nested) == 1 else None, fi.where(lp),
       "a new run starts where the value at the current sorted position differs from the value of the run (found %d such test(s) among %d tests of the loop)"
       % (len(runs), len(nested)))
    if not (len(runs) == 1 and len(nested) == 1):
        return done()
    runif, ref, newlab = runs[0]
    arm = runif.body if newlab == "T" else runif.orelse
    # -- what is emitted ------------------------------------------------------
    em = _emits(fi.node)
    em = _emits(fn) if em is not None else None
    if em is None:
        ob("emits-recognised", None, fi.where(), "the helper yields its pairs (or appends them to the one list it returns)")
        return done()
    inl = [(st, v) for st, v in em if id(st) in sc.inloop]
    post = [(st, v) for st, v in em if id(st) not in sc.inloop and st.lineno > lp.lineno]
    pre = [(st, v) for st, v in em if id(st) not in sc.inloop and st.lineno < lp.lineno]
    if pre or len(inl) != 1 or inl[0][0] not in arm or len(post) > 1 or (post and post[0][0] not in fn.body):
        ob("emits-recognised", None, fi.where(), "one pair is emitted where a new run starts and one after the scan (found %d before, %d in, %d after the loop)"
           % (len(pre), len(inl), len(post)))
        return done()
    ist, iv = inl[0]
    d0, d1 = sc.D(sc.X(iv.elts[0])), sc.D(sc.X(iv.elts[1]))
    bvar = d0[1][1] if d0[0] == "pos" and isinstance(d0[1], tuple) and d0[1][0] == "var" else None
    ob("finished-run-emitted-at-a-value-change", True if bvar and d1 == cur else (False if bvar and d1[0] == "pos" and d1 != cur else None), fi.where(ist),
       "where the value changes the finished run is emitted as (remembered start, current position): `%s`" % norm(iv))
    if not (bvar and d1 == cur):
        return done()
    if not post:
        ob("last-run-emitted", False, fi.where(lp), "after the scan the last run is emitted as (remembered start, size); nothing is emitted after the loop, "
           "so the largest value never gets a run")
        return done()
    pst, pv = post[0]
    e0, e1 = sc.D(sc.X(pv.elts[0])), sc.D(sc.X(pv.elts[1]))
    later = [x for x in walk_no_nested(fn) if isinstance(x, ast.Return) and lp.lineno < x.lineno < pst.lineno]
    okp = e0 == d0 and e1 == ("size", ("sv", key)) and not later
    ob("last-run-emitted", True if okp else (False if e0 == d0 and e1[0] in ("pos", "lit") else None), fi.where(pst),
       "after the scan the last run is emitted as (remembered start, size): `%s`" % norm(pv))
    # -- the remembered start ---------------------------------------------------
    bdefs = [(sc.D(sc.X(v)) if isinstance(v, ast.AST) else ("opaque",), st) for v, st in sc.defs.get(bvar, [])]
    outs = [(d, st) for d, st in bdefs if id(st) not in sc.inloop]
    ins = [(d, st) for d, st in bdefs if id(st) in sc.inloop]
    ok = True if len(outs) == 1 and outs[0][0] == ("lit", 0) and outs[0][1] in fn.body and outs[0][1].lineno < lp.lineno else \
        (False if outs and all(d[0] == "lit" and d[1] != 0 for d, st in outs) else None)
    ob("slot0-seeded-from-sorted-position-0", ok, fi.where(outs[0][1]) if outs else fi.where(), "the remembered start of the first run is sorted position 0")
    ok = None
    if len(ins) == 1 and ins[0][0] == cur and ins[0][1] in arm:
        ok = True if arm.index(ins[0][1]) > arm.index(ist) else False
    elif not ins:
        ok = False
    ob("start-restarts-after-the-emit", ok, fi.where(runif), "at a value change the finished run is emitted first and the remembered start then becomes the "
       "current position")
    # -- the value the current element is compared with ---------------------------
    kk = "running-value-replaced-at-new-run"
    mm = "at a new run the value compared against becomes the value at the current sorted position"
    if ref[0] == "runval":
        vdefs = [(sc.D(sc.X(v)) if isinstance(v, ast.AST) else ("opaque",), st) for v, st in sc.defs.get(ref[1], [])]
        vouts = [(d, st) for d, st in vdefs if id(st) not in sc.inloop]
        vins = [(d, st) for d, st in vdefs if id(st) in sc.inloop]
        for d, st in vouts:
            ok = True if d == ("val", key, ("lit", 0)) and st in fn.body and st.lineno < lp.lineno else \
                (False if d[0] in ("lit", "konst", "inval") or (d[0] == "val" and d[2] != ("lit", 0)) else None)
            ob("seed-from-sorted-position-0::value", ok, fi.where(st), "the running value is seeded from sorted position 0 (`%s`)" % norm(sc.X(st)))
        ob(kk, True if vins and all(d == ("val", key, "cur") and st in arm for d, st in vins) else (False if not vins else None), fi.where(runif), mm)
    elif ref == ("val", key, ("cur", -1)) or ref == ("val", key, ("var", bvar)):
        ob(kk, True, fi.where(runif), mm + " (the comparison is with %s)" % ("the preceding element" if ref[2] != ("var", bvar) else "the first element of the run"))
    else:
        ob(kk, False if ref[0] == "inval" or (ref[0] == "val" and ref[2][0] == "lit") else None, fi.where(runif),
           mm + "; the scan compares every element with `%s`" % norm(sc.X(runif.test)))
    truthy = [x for x in _truth_contexts(fn) if sc.D(sc.X(x))[0] in ("val", "inval", "runval")]
    ob("no-element-truth-test", not truthy, fi.where(truthy[0]) if truthy else fi.where(),
       "no test of the helper uses the truth value of an element (zero, False and the empty string are values like any other)")
    _type_subscripts(ob, sc, fi)
    return done()


class RunScan(Scan):
    """a de-duplication that takes its runs from a run helper: the loop / comprehension variables bound to an emitted pair are the first sorted
    position of a run ('rs') and the position after its last ('re')"""

    def __init__(self, fi, narr, helpers):
        Scan.__init__(self, fi, narr)
        self.helpers = helpers
        self.runvars = {}
        self.sources = []       # descriptors of the arrays handed to the helper

    def helper_call(self, e):
        e = _strip_seq(self.X(e))
        if isinstance(e, ast.Call) and isinstance(e.func, ast.Name) and e.func.id in self.helpers and len(e.args) == 1 and not e.keywords:
            return e
        return None

    @staticmethod
    def targets(t):
        if isinstance(t, (ast.Tuple, ast.List)) and len(t.elts) == 2 and all(isinstance(x, ast.Name) for x in t.elts):
            out = {}
            for x, d in zip(t.elts, (("pos", "rs"), ("pos", "re"))):
                if x.id != "_":
                    out[x.id] = d
            return out
        return None

    def D(self, e):
        if isinstance(e, ast.Name) and e.id in self.runvars:
            return self.runvars[e.id]
        if isinstance(e, (ast.ListComp, ast.GeneratorExp)) and len(e.generators) == 1 and not e.generators[0].is_async:
            g = e.generators[0]
            c = self.helper_call(g.iter)
            tv = self.targets(g.target)
            if c is not None and tv is not None:
                saved = dict(self.runvars)
                self.runvars.update(tv)
                try:
                    d = self.D(self.X(e.elt))
                finally:
                    self.runvars = saved
                return ("runlist", d, len(g.ifs), self.D(c.args[0]), c.func.id)
            return ("opaque", norm(e))
        if isinstance(e, ast.BinOp) and isinstance(e.op, (ast.Add, ast.Sub)):
            l, r = self.D(e.left), self.D(e.right)
            if l[0] == "pos" and l[1] in ("rs", "re") and r[0] == "lit":
                k = r[1] if isinstance(e.op, ast.Add) else -r[1]
                return l if k == 0 else ("pos", (l[1], k))
            if isinstance(e.op, ast.Add) and ("pos", "rs") in (l, r):
                o = r if l == ("pos", "rs") else l
                if o[0] == "runarg":
                    return ("pos", (o[1], o[2]))
        if isinstance(e, ast.Call):
            n = _cname(e)
            recv = e.func.value if isinstance(e.func, ast.Attribute) and not _is_np(e) else None
            a0 = recv if recv is not None else (e.args[0] if e.args else None)
            if n in ("argmax", "argmin") and a0 is not None and len(e.args) == (0 if recv is not None else 1) and not e.keywords \
                    and isinstance(a0, ast.Subscript) and isinstance(a0.slice, ast.Slice) and a0.slice.step is None \
                    and a0.slice.lower is not None and a0.slice.upper is not None:
                b = self.D(a0.value)
                if b[0] == "sv" and self.D(a0.slice.lower) == ("pos", "rs") and self.D(a0.slice.upper) == ("pos", "re"):
                    return ("runarg", n, b[1])      # offset, from the run start, of the first largest / smallest element of the run
            if n in ("array", "asarray", "asanyarray", "list", "tuple", "fromiter") and a0 is not None:
                d0 = self.D(a0)
                if d0[0] == "runlist":
                    return d0
            if n == "take" and len(e.args) + (1 if recv is not None else 0) == 2:
                return self.sub(self.D(a0), self.D(e.args[-1]), e)
        return Scan.D(self, e)

    def sub(self, b, i, e):
        if i[0] == "runlist":
            el = i[1]
            if b == ("sorter",):
                if el[0] == "pos":
                    return ("runlist", ("idx", el[1])) + i[2:]
                return ("bad", "an input index is used to index a sorted-order array")
            if b[0] == "in":
                return ("vals", b[1], i)
            return ("unk", "index of unknown space")
        return Scan.sub(self, b, i, e)


_RUN_MEMBERS = ("rs", ("re", -1))


def _runs_dedup(chk, mod, fi, narr, helpers):
    q = fi.qualname
    sc = RunScan(fi, narr, helpers)
    fn = sc.fn
    key, flagp = sc.key, sc.flagp
    kr = q + "::runs-form-recognised"
    mr = "the de-duplication takes the runs of equal values from one run helper, in one loop or comprehension over the pairs it emits"
    calls = [x for x in walk_no_nested(fn) if isinstance(x, ast.Call) and isinstance(x.func, ast.Name) and x.func.id in helpers]
    loops = [x for x in walk_no_nested(fn) if isinstance(x, ast.For) and sc.helper_call(x.iter) is not None]
    comps = [x for x in walk_no_nested(fn) if isinstance(x, (ast.ListComp, ast.GeneratorExp)) and len(x.generators) == 1
             and sc.helper_call(x.generators[0].iter) is not None]
    whiles = [x for x in walk_no_nested(fn) if isinstance(x, (ast.While, ast.AsyncFor))]
    if len(calls) != 1 or len(loops) + len(comps) != 1 or whiles:
        chk.ob("R06.1", kr, None, fi.where(), mr + " (found %d call(s) of a run helper, %d loop(s) and %d comprehension(s) over one)" % (len(calls), len(loops), len(comps)))
        return
    call = sc.helper_call(loops[0].iter if loops else comps[0].generators[0].iter)
    hv = _verify_run_helper(chk, mod, call.func.id)
    chk.ob("R06.1", kr, True, fi.where(), mr)
    if hv is not True:
        return          # the helper's own rule instances carry the verdict
    src = sc.D(call.args[0])
    chk.ob("R06.1", q + "::runs-of-the-sorted-values", True if src == ("sv", key) else (False if src == ("in", key) else None), fi.where(call),
           "the run helper is given the input in sorted order (the input gathered through its argsort): `%s`" % norm(call.args[0]))
    if src != ("sv", key):
        return
    has_sorter = any(sc.D(sc.X(x)) == ("sorter",) for x in walk_no_nested(fn) if isinstance(x, (ast.Call, ast.Subscript)))
    chk.ob("R06.1", q + "::sorter-found", True if has_sorter else None, fi.where(), "the runs are those of an argsort of the input")
    if not has_sorter:
        return
    cfg = CFG(fn)
    view = cfg.view()

    def ctrl(st):
        n = rules.node_of_stmt(cfg, st)
        return {id(b.ast): lab for b, lab in view.controlling_branches(n)} if n is not None else {}

    entry = None            # descriptor of the one entry recorded per run
    kept = None             # the container it is recorded in (loop form)
    seen_keys = set()

    def ob_once(k_, ok_, w_, m_):
        if k_ not in seen_keys:
            seen_keys.add(k_)
            chk.ob("R06.1", q + "::" + k_, ok_, w_, m_)
    if comps:
        tv = sc.targets(comps[0].generators[0].target)
        if tv is not None and not any(len(sc.defs.get(n_, [])) != 1 for n_ in tv):
            sc.runvars = tv         # the comprehension's own variables: bound nowhere else in the function
        _type_subscripts(ob_once, sc, fi)
    if loops:
        outer = loops[0]
        tv = sc.targets(outer.target)
        bad = [x for st in outer.body for x in ast.walk(st) if isinstance(x, (ast.Break, ast.Continue, ast.Return, ast.Try, ast.With, ast.While))]
        inner = [x for st in outer.body for x in ast.walk(st) if isinstance(x, ast.For)]
        if tv is None or bad or outer.orelse or len(inner) > 1 or (inner and inner[0] not in outer.body):
            chk.ob("R06.1", q + "::run-loop-recognised", None, fi.where(outer), "every emitted pair is unpacked into (start, stop) and the loop body runs once, "
                   "to its end, for every run")
            return
        sc.runvars = tv
        sc.inloop = {id(x) for st in outer.body for x in ast.walk(st)}
        rng = None
        if inner:
            it = sc.X(inner[0].iter)
            if isinstance(inner[0].target, ast.Name) and isinstance(it, ast.Call) and _cname(it) in ("range", "xrange") and isinstance(it.func, ast.Name) \
                    and len(it.args) == 2 and not it.keywords and not inner[0].orelse:
                sc.counter = inner[0].target.id
                rng = (sc.D(it.args[0]), sc.D(it.args[1]))
        chk.ob("R06.1", q + "::run-loop-recognised", True, fi.where(outer), "every emitted pair is unpacked into (start, stop) and the loop body runs once, "
               "to its end, for every run")
        _type_subscripts(ob_once, sc, fi)
        stores = _kept_stores(sc)
        live = [k for k, v in stores.items() if any(id(st) in sc.inloop for _, _, st in v)]
        okc = None
        if len(live) == 1:
            sts = stores[live[0]]
            alloc = [sc.D(sc.X(v)) for v, st in sc.defs.get(live[0], []) if isinstance(v, ast.AST)]
            if len(sts) == 1 and sts[0][0] == "append" and sts[0][2] in outer.body and alloc == [("alloc", "list")] \
                    and all(st.lineno < outer.lineno for v, st in sc.defs.get(live[0], [])):
                okc = True
                kept, entry = live[0], sts[0][1]
                rec = sts[0][2]
        chk.ob("R06.1", q + "::kept-container", okc, fi.where(outer), "one entry per run is appended, unconditionally, to one list that starts empty (found %s)" % sorted(live))
        if okc is not True:
            return
        if narr == 2:
            entry = _run_argmax(chk, sc, q, outer, inner, rng, entry, rec)
            if entry is None:
                return
    # -- the entry kept for a run -------------------------------------------------
    decided = {}

    def entry_rule(el, where):
        if el not in decided:
            decided[el] = _entry_rule(el, where)
        return decided[el]

    def _entry_rule(el, where):
        ke = q + "::one-member-of-every-run" + ("" if not decided else "::%d" % len(decided))
        if narr == 1:
            me = "the entry kept for a run is one of its members: the run's first sorted position (or its last, stop-1)"
            ok = True if el[0] in ("idx", "pos") and el[1] in _RUN_MEMBERS else (False if el[0] in ("idx", "pos") and el[1] in ("re", ("rs", -1)) else None)
        else:
            me = "the entry kept for a run is the position of the largest flag among the run's members"
            ok = True if el[0] in ("idx", "pos") and el[1] == ("argmax", flagp) else \
                (False if el[0] in ("idx", "pos") and (el[1] == ("argmin", flagp) or el[1] in _RUN_MEMBERS) else None)
        chk.ob("R06.1", ke, ok, where, me + "; found %s" % (el,))
        return ok is True

    if loops and not entry_rule(entry, fi.where(outer)):
        return

    # -- what is returned ------------------------------------------------------------
    def space(d):
        """index space of an index-array descriptor: 'Idx' / 'Pos' / None; runlists are checked by the entry rule on the way"""
        if d[0] == "runlist":
            if d[2] or d[3] != ("sv", key):
                return None
            if not entry_rule(d[1], fi.where()):
                return "unrecognised"
            return "Idx" if d[1][0] == "idx" else "Pos"
        if d[0] == "kept" and d[1] == kept:
            return "Idx" if entry[0] == "idx" else "Pos"
        if d[0] == "idxarr" and len(d) == 3 and d[2] == kept:
            return "Idx" if entry[0] == "pos" else "bad"
        return None

    seen = 0
    for r_ in [x for x in walk_no_nested(fn) if isinstance(x, ast.Return) and x.value is not None]:
        vals = []
        todo = [r_.value]
        while todo:
            v = todo.pop(0)
            if isinstance(v, ast.IfExp):
                todo[:0] = [v.body, v.orelse]
            elif isinstance(v, ast.Tuple):
                todo[:0] = list(v.elts)
            else:
                vals.append(v)
        one = _size_one_guard(sc, r_, ctrl)
        for n, v in enumerate(vals):
            d = sc.D(sc.X(v))
            kk = "%s::returns-Idx::%d@%s" % (q, n, norm(sc.X(v))[:60])
            if d[0] == "vals" and d[1] == key:
                sp = space(d[2])
                if sp == "unrecognised":
                    return
                chk.ob("R06.1", kk, None if sp is None else sp == "Idx", fi.where(r_), "the returned values are the input at the kept input indices (index space: %s)" % sp)
                seen += sp == "Idx"
            elif (d == ("lit", 0) or d[0] == "in") and one:
                chk.ob("R06.1", kk, True, fi.where(r_), "a one-element input returns index 0")
            elif d == ("sorter",):
                chk.ob("R06.1", kk, False, fi.where(r_), "the whole sorter is returned: the kept positions were never selected from it")
            else:
                sp = space(d)
                if sp == "unrecognised":
                    return
                chk.ob("R06.1", kk, None if sp is None else sp == "Idx", fi.where(r_),
                       "the returned index array holds input indices (kept sorted positions mapped through the sorter; found space: %s)" % sp
                       if sp is not None else "the returned value `%s` is not a recognised index array" % norm(sc.X(v)))
                seen += sp == "Idx"
    chk.ob("R06.1", q + "::returns-kept-entries", True if seen else None, fi.where(), "the kept entries reach a return statement (%d returned value(s) typed)" % seen)
    srt = [x for x in walk_no_nested(fn) if isinstance(x, ast.Call) and _cname(x) == "sort" and isinstance(x.func, ast.Attribute) and not _is_np(x)]
    bad = [c for c in srt if sc.D(sc.X(c.func.value))[0] == "in"]
    chk.ob("R06.1", q + "::sorts-own-array", not bad, fi.where(bad[0]) if bad else fi.where(), "an in-place sort is applied to a local index array, never to an argument")
    truthy = [x for x in _truth_contexts(fn) if sc.D(sc.X(x))[0] in ("val", "inval", "runval")]
    chk.ob("R06.1", q + "::no-element-truth-test", not truthy, fi.where(truthy[0]) if truthy else fi.where(),
           "no test uses the truth value of an element of the input (zero, False and the empty string are values like any other)")


def _run_argmax(chk, sc, q, outer, inner, rng, entry, rec):
    """the flagged variant over runs: inside the loop over (start, stop) the recorded position is that of the largest flag among the run's
    members -- found by a scan `best = start; for i in range(start+1, stop): if flag_sorted[i] > flag_sorted[best]: best = i` (or with a
    running largest flag), or by start + argmax(flag_sorted[start:stop]).  Returns the entry descriptor with the position replaced by
    ('argmax', flag) / ('argmin', flag), or None when a verdict other than 'holds' was reported"""
    fi, flagp = sc.fi, sc.flagp
    kk = q + "::largest-flag-wins"
    mm = "within a run the kept position is that of the largest flag: it starts at the run's first position and is replaced only when the flag at the " \
         "position visited is larger than the largest flag seen in the run"
    if entry[0] in ("pos", "idx") and isinstance(entry[1], tuple) and entry[1][0] in ("argmax", "argmin") and entry[1][1] == flagp and not inner:
        chk.ob("R06.1", kk, entry[1][0] == "argmax", fi.where(rec), "within a run the kept position is start + argmax(flags of the run in sorted order); found %s" % entry[1][0])
        return entry if entry[1][0] == "argmax" else None
    if not (entry[0] in ("pos", "idx") and isinstance(entry[1], tuple) and entry[1][0] == "var"):
        if entry[0] in ("pos", "idx") and entry[1] in _RUN_MEMBERS:
            # a fixed member of every run is recorded whatever the flags say: right only when equal values were put in flag order by the sort
            chk.ob("R06.1", kk, None if sc.tiebreaks else False, fi.where(rec), mm + "; the %s member of every run is recorded whatever its flag is%s"
                   % ("first" if entry[1] == "rs" else "last", "" if not sc.tiebreaks else " (the sort orders equal values by flag: not decided in this form)"))
            return None
        chk.ob("R06.1", kk, None, fi.where(rec), mm + "; the recorded entry %s is not a position variable" % (entry,))
        return None
    b = entry[1][1]
    if not inner or rng is None:
        chk.ob("R06.1", kk, None, fi.where(outer), mm + "; no counted scan over the members of the run was found")
        return None
    lp = inner[0]
    lo, hi = rng
    okr = True if lo in (("pos", "rs"), ("pos", ("rs", 1))) and hi == ("pos", "re") else \
        (False if lo[0] == "pos" and hi[0] == "pos" and (hi == ("pos", ("re", -1)) or (isinstance(lo[1], tuple) and lo[1][0] == "rs" and lo[1][1] > 1)) else None)
    chk.ob("R06.1", q + "::run-scan-visits-every-member", okr, fi.where(lp), "the scan inside a run visits every member after the first: range(start [+1], stop); found "
           "range(%s, %s)" % (norm(sc.X(lp.iter.args[0])) if isinstance(lp.iter, ast.Call) and lp.iter.args else "?",
                             norm(sc.X(lp.iter.args[-1])) if isinstance(lp.iter, ast.Call) and lp.iter.args else "?"))
    if okr is not True:
        return None
    if rec.lineno < lp.lineno or any(isinstance(x, (ast.Break, ast.Continue)) for st in lp.body for x in ast.walk(st)):
        chk.ob("R06.1", kk, None, fi.where(rec), mm + "; the entry is recorded before the scan of the run has finished")
        return None
    cur = ("pos", "cur")
    inl = {id(x) for st in lp.body for x in ast.walk(st)}
    ifs = [x for st in lp.body for x in ast.walk(st) if isinstance(x, ast.If)]
    fl = []
    for x in lp.body:
        if isinstance(x, ast.If):
            t = sc.X(x.test)
            if isinstance(t, ast.Compare) and len(t.ops) == 1 and isinstance(t.ops[0], (ast.Gt, ast.GtE, ast.Lt, ast.LtE)):
                a, c = sc.D(t.left), sc.D(t.comparators[0])
                for me, r_, left in ((a, c, True), (c, a, False)):
                    if me == ("val", flagp, "cur") and ((r_[0] == "runval" and r_[2] == flagp) or r_ in (("val", flagp, ("var", b)), ("val", flagp, "rs"))):
                        fl.append((x, r_, isinstance(t.ops[0], (ast.Gt, ast.GtE)) == left))
    if len(fl) != 1 or len(ifs) != 1:
        chk.ob("R06.1", kk, None, fi.where(lp), mm + "; found %d flag comparison(s) among %d test(s) of the scan" % (len(fl), len(ifs)))
        return None
    flagif, fref, larger = fl[0]
    bdefs = [(sc.D(sc.X(v)) if isinstance(v, ast.AST) else ("opaque",), st) for v, st in sc.defs.get(b, [])]
    seeds = [(d, st) for d, st in bdefs if id(st) not in inl]
    upd = [(d, st) for d, st in bdefs if id(st) in inl]
    ok_seed = len(seeds) == 1 and seeds[0][0] == ("pos", "rs") and seeds[0][1] in outer.body and seeds[0][1].lineno < lp.lineno
    ok_upd = len(upd) == 1 and upd[0][0] == cur and upd[0][1] in flagif.body
    if not larger:
        chk.ob("R06.1", kk, False, fi.where(flagif), mm + "; `%s` replaces the kept position when a SMALLER flag is seen" % norm(sc.X(flagif.test)))
        return None
    if not (ok_seed and ok_upd) or flagif.orelse:
        chk.ob("R06.1", kk, None, fi.where(flagif), mm + "; the position variable `%s` is not seeded with the run's first position and replaced in the arm of the "
               "flag comparison only" % b)
        return None
    chk.ob("R06.1", kk, True, fi.where(flagif), mm)
    k2 = q + "::running-maximum-updated-with-kept-position"
    m2 = "when a larger flag is seen both the remembered largest flag and the kept position are replaced, and every run starts from its own first flag; " \
         "otherwise a later, smaller flag can still displace the largest one"
    if fref[0] == "runval":
        f = fref[1]
        fdefs = [(sc.D(sc.X(v)) if isinstance(v, ast.AST) else ("opaque",), st) for v, st in sc.defs.get(f, [])]
        fseeds = [(d, st) for d, st in fdefs if id(st) not in inl]
        fupd = [(d, st) for d, st in fdefs if id(st) in inl]
        seed_ok = len(fseeds) == 1 and fseeds[0][0] == ("val", flagp, "rs") and fseeds[0][1] in outer.body and fseeds[0][1].lineno < lp.lineno
        upd_ok = len(fupd) == 1 and fupd[0][0] == ("val", flagp, "cur") and fupd[0][1] in flagif.body
        wrong = (not fupd) or any(d[0] == "inval" or (d[0] == "val" and d[2] != "rs") or id(st) not in sc.inloop for d, st in fseeds)
        chk.ob("R06.1", k2, True if seed_ok and upd_ok else (False if wrong else None), fi.where(flagif),
               m2 + " (largest flag seeded per run from its first member: %s, updated with the position: %s)" % (seed_ok, upd_ok))
        if not (seed_ok and upd_ok):
            return None
    elif fref == ("val", flagp, "rs"):
        chk.ob("R06.1", k2, False, fi.where(flagif), m2 + "; every member is compared with the flag of the run's FIRST member (`%s`), which is never replaced: "
               "the last member whose flag exceeds it is kept, not the one with the largest flag" % norm(sc.X(flagif.test)))
        return None
    else:
        chk.ob("R06.1", k2, True, fi.where(flagif), m2 + " (the largest flag seen is read through the kept position itself)")
    return (entry[0], ("argmax", flagp))
