"""C16 -- byte-order conversion preserves values and declares the requested order.

R16.1 copy / in-place discipline per (converter x inplace x keep_dtype) via the
effect analysis; R16.2 swap <-> dtype-flip pairing; R16.3 swap decision on
structured arrays; R16.4 predicate decision tables over the four machine-order
spellings x host order; R16.5 descriptor strippers; R16.6 the two to-native
implementations agree.

R16.2 - R16.6 are decided by evaluating the parsed functions (nothing of /repo
is imported or run) on a finite model of numpy's dtype / ndarray objects, for
every input of a finite domain: the rule is a statement about what the function
does to the model, so it does not depend on how the function is laid out
(loop vs any(), early return vs if/else, helpers extracted or inlined, named
temporaries).  Code that leaves the model gives "not recognised" (no verdict).
"""
import ast
import copy as _c
import re as _re

from vcheck import effects, rules
from vcheck.core import PyRepo, FuncInfo, AnalysisError, call_name, kwarg, norm, walk_no_nested
from vcheck.ctable import c_summaries

MANIFEST = dict(
    text="Structural rule checking (not a behavioural proof): (1) effect/alias analysis specialised on every (converter, inplace, "
         "keep_dtype) combination decides that inplace=False returns a fresh object on every path (including the nothing-to-swap "
         "path) and never writes the argument, and that inplace=True returns the argument itself on every path; (2)-(6) the parsed "
         "functions (and the private helpers they call) are evaluated on a finite model of dtype / ndarray objects (declared order "
         "character per field, sub-array and structured dtypes, a buffer that records how often it was swapped) for every declared "
         "order spelling x host order x field layout x option flags x element-count class (no empty axis / empty first axis / empty later "
         "axis; the empty classes are evaluated when the code looks at size, nbytes, len() or shape, and then the result must still "
         "declare the requested order unless the dtype is kept): (2) byteswap swaps the bytes once, in the caller's buffer "
         "exactly when inplace, and flips the dtype of the object holding them exactly when keep_dtype is off; (3) on structured "
         "arrays each converter leaves the data in the requested order wherever the first field with a byte order sits, string and "
         "one-byte fields being neither order and sub-array fields counting with the order of their items; (4) the endianness "
         "predicates reproduce the decision table over {'<','>','=','|'} x host order; (5) the three descriptor strippers drop "
         "exactly the order character and keep name and shape; (6) both to-native implementations swap iff machine order xor data "
         "order.",
    note="Not decided: numpy's byteswap/newbyteorder semantics (trusted), value preservation numerically. Arrays whose multi-byte "
         "fields share one order are assumed (property quantifier).",
    technique="static analysis: flag-specialised alias/effect analysis, exhaustive abstract evaluation of the parsed functions over a finite model domain",
)

NU = "esutil.numpy_util."
CONVERTERS = ["to_native", "to_big_endian", "to_little_endian", "byteswap"]


# rules that keep their verdict however the code is laid out (decided by the effect analysis or by evaluation over the finite
# model: a failing instance is a completed evaluation that contradicts the rule, code outside the model gives "not recognised");
# every other rule of this check is a template rule (vcheck.core.Check.obt)
SEMANTIC = ('R16.1a', 'R16.1b', 'R16.1c', 'R16.1d', 'R16.2', 'R16.3', 'R16.4', 'R16.5', 'R16.6')


def run(chk):
    repo = PyRepo()
    chk.set_templates(repo, semantic=SEMANTIC)
    eng = _Effects(repo, c_summaries())
    chk.explanation = MANIFEST["text"]
    chk.trusted = ["ndarray.byteswap / dtype.newbyteorder semantics (the dtype / ndarray model of this module)", "library semantics table", "CPython ast",
                   "isstring(x) is 'x is a (byte) string'",
                   "functools.lru_cache / cache return what the wrapped function returns for hashable arguments (immutable results only)"]
    chk.assume("multi-byte fields of a structured array share one byte order (property quantifier)")
    chk.floor = 60
    r16_1(chk, repo, eng)
    r16_2(chk, repo)
    r16_3(chk, repo)
    r16_4(chk, repo)
    r16_5(chk, repo)
    r16_6(chk, repo)


_lowered = {}


def _cond_arms(e):
    """(test, value-if-true, value-if-false) when the expression picks one of two values by a test: `a if t else b`"""
    if isinstance(e, ast.IfExp):
        return e.test, e.body, e.orelse
    return None


def _lower_stmts(stmts):
    """`return a if t else b` is `if t: return a / else: return b`, the same for a single-target assignment: the statement
    form is what the flag specialisation of the control-flow graph (and the per-return alias tags) can tell apart"""
    out = []
    for st in stmts:
        for f in ("body", "orelse", "finalbody"):
            if isinstance(getattr(st, f, None), list) and not isinstance(st, _SCOPES):
                setattr(st, f, _lower_stmts(getattr(st, f)))
        for h in getattr(st, "handlers", []) or []:
            h.body = _lower_stmts(h.body)
        arms = None
        if isinstance(st, ast.Return) and st.value is not None:
            arms = _cond_arms(st.value)
            mk = lambda v, st=st: ast.copy_location(ast.Return(value=v), st)
        elif isinstance(st, ast.Assign) and len(st.targets) == 1 and isinstance(st.targets[0], ast.Name):
            arms = _cond_arms(st.value)
            mk = lambda v, st=st: ast.copy_location(ast.Assign(targets=[_c.deepcopy(st.targets[0])], value=v, type_comment=None), st)
        if arms is None:
            out.append(st)
            continue
        t, a, b = arms
        node = ast.copy_location(ast.If(test=t, body=_lower_stmts([mk(a)]), orelse=_lower_stmts([mk(b)])), st)
        out.append(ast.fix_missing_locations(node))
    return out


def _lower(fi):
    """the function with conditional expressions at statement level written as if / else (same line numbers, same meaning)"""
    k = id(fi.node)
    if k not in _lowered:
        if not any(isinstance(x, ast.IfExp) for x in ast.walk(fi.node)):
            _lowered[k] = (fi, fi)
        else:
            node = _c.deepcopy(fi.node)
            node.body = _lower_stmts(node.body)
            _lowered[k] = (fi, FuncInfo(fi.qualname, fi.module, fi.cls, node, fi.path))
    return _lowered[k][1]


class _Effects(effects.Effects):
    """the effect engine on the lowered form of every function it summarises (callees included)"""

    def summary(self, fi, flags=None):
        return effects.Effects.summary(self, _lower(fi), flags)


def r16_1(chk, repo, eng):
    import checks.C15 as C15
    for name in CONVERTERS:
        fi = _lower(repo.func(NU + name))
        chk.analysed_unit(fi.qualname)
        for inplace in (False, True):
            for keep in (False, True):
                flags = {"inplace": inplace, "keep_dtype": keep}
                rets = effects.return_tags_per_return(eng, fi, flags)
                s = C15.analyse_with_arrays(eng, fi, ["array"], flags)
                tag = "%s[inplace=%s,keep_dtype=%s]" % (name, inplace, keep)
                if not rets:
                    raise AnalysisError("no return found in %s" % fi.qualname)
                for n, tags in rets:
                    ptags = [t for t in tags if t[0] == "P" and t[1] == "array"]
                    if not inplace:
                        chk.ob("R16.1a", "%s::return-fresh::%s" % (tag, norm(n.ast.value)), not ptags, fi.where(n.ast),
                               "with inplace off `return %s` yields an independent copy on this path%s"
                               % (norm(n.ast.value), "" if not ptags else ": it may be (a view of) the argument"))
                    else:
                        same = bool(ptags) and all(t[2] == "same" for t in ptags) and effects.FRESH not in tags
                        chk.ob("R16.1b", "%s::return-is-argument::%s" % (tag, norm(n.ast.value)), same, fi.where(n.ast),
                               "with inplace on `return %s` is the caller's object itself on this path (tags %s)" % (norm(n.ast.value), sorted(tags)))
                sites = [st for st in s.mut.get("array", []) if st.kind in ("data", "meta")]
                if not inplace:
                    chk.ob("R16.1c", "%s::argument-unmodified" % tag, not sites, fi.where(),
                           "with inplace off nothing writes the argument%s" % ("" if not sites else ": " + sites[0].describe()))
                else:
                    # in place: the swap (when needed) happens in the caller's buffer
                    if name == "byteswap":
                        chk.ob("R16.1d", "%s::swaps-in-callers-buffer" % tag, any(st.kind == "data" for st in sites), fi.where(),
                               "with inplace on the swap is applied to the caller's buffer")
                        if not keep:
                            chk.ob("R16.1d", "%s::flips-callers-dtype" % tag, any(st.kind == "meta" for st in sites), fi.where(),
                                   "with inplace on and keep_dtype off the caller's dtype is updated")
                        else:
                            chk.ob("R16.1d", "%s::keeps-callers-dtype" % tag, not any(st.kind == "meta" for st in sites), fi.where(),
                                   "with keep_dtype on the dtype is left alone")
    # forwarding of the two options into the shared swapper
    for name in CONVERTERS[:3]:
        fi = repo.func(NU + name)
        if not any(isinstance(x, ast.Call) and call_name(x) == "byteswap" and isinstance(x.func, ast.Name) for x in walk_no_nested(fi.node)):
            # the swap call sits in a helper: decide the forwarding by evaluation over the model
            _forwarding_by_model(chk, repo, name)
        for x in walk_no_nested(fi.node):
            if isinstance(x, ast.Call) and call_name(x) == "byteswap" and isinstance(x.func, ast.Name):
                a_ok = x.args and norm(x.args[0]) == "array"
                ip = x.args[1] if len(x.args) > 1 else kwarg(x, "inplace")
                kd = x.args[2] if len(x.args) > 2 else kwarg(x, "keep_dtype")
                chk.ob("R16.1e", "%s::forwards-options" % name, bool(a_ok) and ip is not None and norm(ip) == "inplace" and kd is not None and norm(kd) == "keep_dtype",
                       fi.where(x), "%s forwards (array, inplace, keep_dtype) to byteswap unchanged" % name)


# ---------------------------------------------------------------------------
# Finite model of the numpy objects the byte-order code handles, and an evaluator of the repository's (parsed, never
# imported) functions over that model.  Rules R16.2 - R16.6 are stated on what a function *does* to the model on every
# input of a finite domain (declared order spelling x host order x field layout x option flags), not on how it is
# written: loops, any()/comprehensions, early returns, swapped arms, named temporaries and private helpers (calls are
# followed) all evaluate to the same thing.  Anything outside the model raises _Unrec: "construct not recognised", no
# verdict.  A verdict False is only given when the evaluation ran to completion and contradicts the rule.
# ---------------------------------------------------------------------------

class _Unrec(Exception):
    """the code uses something the model does not cover: no verdict"""


class _Raised(Exception):
    """the analysed code raises on this input; etype = name of the builtin exception class when it is known (what a
    try / except of the analysed code is matched against), None when it is not"""

    def __init__(self, msg="", etype=None):
        Exception.__init__(self, msg)
        if etype is None:
            m = _re.match(r"([A-Z][A-Za-z]*(?:Error|Exception|Iteration))\b", str(msg))
            if m and _exc_class(m.group(1)) is not None:
                etype = m.group(1)
        self.etype = etype


def _exc_class(name):
    import builtins
    c = getattr(builtins, name, None) if isinstance(name, str) else None
    return c if isinstance(c, type) and issubclass(c, BaseException) else None


class MExc:
    """an exception object bound by `except ... as e`: opaque"""

    def __init__(self, raised):
        self.raised = raised


class _Return(Exception):
    def __init__(self, value):
        self.value = value


class _Break(Exception):
    pass


class _Continue(Exception):
    pass


def _resolve(order, host_little):
    """'L' / 'B' / None (no byte order) for an order character on the given host"""
    if order == "<":
        return "L"
    if order == ">":
        return "B"
    if order == "=":
        return "L" if host_little else "B"
    return None


def _other(o):
    return {"L": "B", "B": "L"}.get(o)


class _Fn:
    """a callable the evaluator is allowed to call natively (model methods, whitelisted builtins)"""

    def __init__(self, fn, name=""):
        self.fn = fn
        self.name = name

    def __call__(self, *a, **k):
        return self.fn(*a, **k)


class MType:
    """a numpy class used as constructor and/or isinstance() class"""

    def __init__(self, name, ctor=None, check=None):
        self.name = name
        self.ctor = ctor
        self.check = check or (lambda v: False)

    def __call__(self, *a, **k):
        if self.ctor is None:
            raise _Unrec("numpy.%s() is not modelled" % self.name)
        return self.ctor(*a, **k)


# library answers given during the current evaluation that differ from what the name of the attribute suggests (message text only)
_LIB_NOTES = []


def _lib_notes(a):
    n = getattr(a, "lib_notes", None)
    return " [%s]" % "; ".join(n) if n else ""


class MDtype:
    """numpy dtype: plain (order character + type code), sub-array (base, shape) or structured (ordered fields)"""

    def __init__(self, host, order="|", code="S4", sub=None, fields=None):
        self.host = host
        self.order = order
        self.code = code
        self.sub = sub            # (MDtype, shape)
        self.fields = fields      # [(name, MDtype)]

    # -- helpers (not visible to the analysed code)
    def key(self):
        if self.fields is not None:
            return ("struct", tuple((n, d.key()) for n, d in self.fields))
        if self.sub is not None:
            return ("sub", self.sub[0].key(), tuple(self.sub[1]))
        return ("plain", _resolve(self.order, self.host), self.code)

    def leaves(self):
        if self.fields is not None:
            return [x for _, d in self.fields for x in d.leaves()]
        if self.sub is not None:
            return self.sub[0].leaves()
        return [self]

    def orders(self):
        """resolved orders of the multi-byte leaves"""
        return {_resolve(x.order, self.host) for x in self.leaves()} - {None}

    def typestr(self):
        if self.fields is not None or self.sub is not None:
            return "|V%d" % self.nbytes()
        o = self.order
        if o == "=":
            o = "<" if self.host else ">"
        return o + self.code

    def nbytes(self):
        if self.fields is not None:
            return sum(d.nbytes() for _, d in self.fields)
        if self.sub is not None:
            n = self.sub[0].nbytes()
            for s in self.sub[1]:
                n *= s
            return n
        return int(self.code[1:])

    def __eq__(self, other):
        if isinstance(other, MDtype):
            return self.key() == other.key()
        if other is None or isinstance(other, (bool, int)):
            return False
        raise _Unrec("comparison of a dtype with %r" % (other,))

    def __ne__(self, other):
        return not self.__eq__(other)

    def __hash__(self):
        return hash(self.key())

    def __len__(self):
        return len(self.fields) if self.fields is not None else 0

    def __repr__(self):
        if self.fields is not None:
            return "dtype(%s)" % self.descr()
        if self.sub is not None:
            return "dtype((%r, %r))" % (self.sub[0].typestr(), tuple(self.sub[1]))
        return "dtype(%r)" % (self.order + self.code)

    def descr(self):
        if self.fields is None:
            raise _Unrec("descr of a dtype without fields")
        out = []
        for n, d in self.fields:
            if d.sub is not None:
                out.append((n, d.sub[0].typestr(), tuple(d.sub[1])))
            else:
                out.append((n, d.typestr()))
        return out

    def newbyteorder(self, new_order="S"):
        if not isinstance(new_order, str) or not new_order:
            raise _Unrec("newbyteorder(%r)" % (new_order,))
        c = new_order[0].lower()
        act = {"s": "S", "<": "<", "l": "<", ">": ">", "b": ">", "=": "=", "n": "=", "|": "|", "i": "|"}.get(c)
        if act is None:
            raise _Raised("newbyteorder(%r) is not a valid order" % new_order, "ValueError")
        return self._nbo(act)

    def _nbo(self, act):
        if self.fields is not None:
            return MDtype(self.host, fields=[(n, d._nbo(act)) for n, d in self.fields])
        if self.sub is not None:
            return MDtype(self.host, sub=(self.sub[0]._nbo(act), self.sub[1]))
        if self.order == "|" or act == "|":
            return self
        if act == "S":
            new = {"<": ">", ">": "<", "=": ">" if self.host else "<"}[self.order]
        else:
            new = act
        return MDtype(self.host, new, self.code)

    def item(self, idx):
        if self.fields is None:
            raise _Raised("indexing a dtype without fields", "KeyError")
        if isinstance(idx, bool):
            raise _Unrec("dtype[bool]")
        if isinstance(idx, int):
            try:
                return self.fields[idx][1]
            except IndexError:
                raise _Raised("dtype field index out of range", "IndexError")
        if isinstance(idx, str):
            for n, d in self.fields:
                if n == idx:
                    return d
            raise _Raised("no field %r" % idx, "KeyError")
        raise _Unrec("dtype[%r]" % (idx,))

    def _isnative(self):
        if self.fields is not None:
            return all(d._isnative() for _, d in self.fields)
        if self.sub is not None:
            return True
        return _resolve(self.order, self.host) in (None, "L" if self.host else "B")

    # -- what the analysed code may read
    def m_getattr(self, name):
        plain = self.fields is None and self.sub is None
        if name == "byteorder":
            return self.order if plain else "|"
        if name == "base":
            return self.sub[0] if self.sub is not None else self
        if name == "names":
            return tuple(n for n, _ in self.fields) if self.fields is not None else None
        if name == "fields":
            if self.fields is None:
                return None
            off, out = 0, {}
            for n, d in self.fields:
                out[n] = (d, off)
                off += d.nbytes()
            return out
        if name == "descr":
            return self.descr()
        if name == "str":
            return self.typestr()
        if name == "subdtype":
            return (self.sub[0], tuple(self.sub[1])) if self.sub is not None else None
        if name == "shape":
            return tuple(self.sub[1]) if self.sub is not None else ()
        if name == "itemsize":
            return self.nbytes()
        if name == "kind":
            return self.code[0] if plain else "V"
        if name == "isnative":
            # numpy: a dtype without fields answers from its own byteorder attribute, which is '|' (counted as native) for a
            # sub-array dtype whatever the order of its items; a structured dtype asks each of its fields.  So the order of
            # the items of a sub-array field is not seen: [('v', '>f8', (2,))].isnative is True on every host.
            got = self._isnative()
            if got and not all(_resolve(x.order, self.host) in (None, "L" if self.host else "B") for x in self.leaves()):
                note = ("the code reads dtype.isnative of %r, which numpy answers with True although the items of its sub-array "
                        "field(s) are not in host order (isnative does not look inside sub-array fields)" % (self,))
                if note not in _LIB_NOTES:
                    _LIB_NOTES.append(note)
            return got
        if name == "newbyteorder":
            return _Fn(self.newbyteorder, "dtype.newbyteorder")
        raise _Unrec("dtype.%s is not modelled" % name)


class MBuf:
    """a data buffer: the byte order its multi-byte items were created in, and how many times it was swapped since"""

    def __init__(self, origin, swaps=0):
        self.origin = origin
        self.swaps = swaps

    def order(self):
        return self.origin if self.swaps % 2 == 0 else _other(self.origin)


class MNat:
    """an element count known only up to the class the property distinguishes: 0, or some number >= 1.  Comparisons with
    integers are decided where every number of the class gives the same answer; everything else leaves the model."""

    def __init__(self, zero):
        self.zero = bool(zero)

    def bounds(self):
        return (0, 0) if self.zero else (1, None)

    def __bool__(self):
        return not self.zero

    def __eq__(self, other):
        return _nat_compare("eq", self, other)

    def __ne__(self, other):
        return not _nat_compare("eq", self, other)

    __hash__ = object.__hash__

    def __repr__(self):
        return "<count: %s>" % ("0" if self.zero else "at least 1")


def _nat_bounds(v):
    if isinstance(v, MNat):
        return v.bounds()
    if isinstance(v, bool):
        return (int(v), int(v))
    if isinstance(v, int):
        return (v, v)
    if isinstance(v, float) and v == int(v):
        return (int(v), int(v))
    raise _Unrec("comparison of an element count with %r" % (v,))


def _nat_compare(op, a, b):
    """a <op> b for op in eq / lt / le over [low, high] bounds (high None = unbounded): the answer when it is the same for every
    pair of numbers within the bounds"""
    (al, ah), (bl, bh) = _nat_bounds(a), _nat_bounds(b)
    lt_ = lambda x, y: x is not None and y is not None and x < y      # noqa: E731
    le_ = lambda x, y: x is not None and y is not None and x <= y     # noqa: E731
    if op == "eq":
        if al == ah == bl == bh and al is not None:
            return True
        if lt_(ah, bl) or lt_(bh, al):
            return False
    elif op == "lt":
        if lt_(ah, bl):
            return True
        if le_(bh, al):
            return False
    elif op == "le":
        if le_(ah, bl):
            return True
        if lt_(bh, al):
            return False
    raise _Unrec("comparison of an element count (%r) with %r is not the same for every array" % (a, b))


COUNTS = ("pos", "zero-first", "zero-later")
_COUNT_TEXT = {"pos": "", "zero-first": " with no elements (shape (0, ...))", "zero-later": " with no elements (shape (n, 0))"}


class MCount:
    """how many elements an array has, as one of the classes the byte-order code can tell apart: 'pos' every axis has a
    positive length (0-d included), 'zero-first' the first axis is empty, 'zero-later' a later axis is empty (the first is
    not).  Shared by every array derived from one input (copies, views, field views have the same emptiness); `read` records
    that the analysed code looked at it."""

    def __init__(self, cls="pos"):
        if cls not in COUNTS:
            raise ValueError(cls)
        self.cls = cls
        self.read = False

    def size(self):
        self.read = True
        return MNat(self.cls != "pos")

    def first(self):
        """length of the first axis: len(array), array.shape[0]"""
        self.read = True
        if self.cls == "pos":
            raise _Unrec("length of the first axis of an array that may be 0-d")
        return MNat(self.cls == "zero-first")


class MShape:
    """array.shape: its first entry and whether 0 is among its entries"""

    def __init__(self, count):
        self.count = count

    def item(self, idx):
        if isinstance(idx, int) and not isinstance(idx, bool) and idx == 0:
            return self.count.first()
        self.count.read = True
        raise _Unrec("array.shape[%r]" % (idx,))

    def has_zero(self):
        self.count.read = True
        return self.count.cls != "pos"


class MArray:
    def __init__(self, host, dtype, buf, count=None):
        self.host = host
        self.dtype = dtype
        self.buf = buf
        self.count = count if count is not None else MCount()
        self.dtype_sets = 0

    def empty(self):
        return self.count.cls != "pos"

    def __bool__(self):
        raise _Unrec("truth value of an array")

    def __eq__(self, other):
        raise _Unrec("element-wise comparison of arrays")

    __hash__ = object.__hash__

    def __repr__(self):
        return "array<%r, bytes %s>" % (self.dtype, self.buf.order())

    def consistent(self):
        """the declared order of the multi-byte items is the order of the bytes: the values are the original ones"""
        o = self.dtype.orders()
        return not o or o == {self.buf.order()}

    def byteswap(self, inplace=False):
        if not isinstance(inplace, (bool, int)):
            raise _Unrec("byteswap(%r)" % (inplace,))
        if inplace:
            self.buf.swaps += 1
            return self
        return MArray(self.host, self.dtype, MBuf(self.buf.origin, self.buf.swaps + 1), self.count)

    def copy(self, order="C"):
        return MArray(self.host, self.dtype, MBuf(self.buf.origin, self.buf.swaps), self.count)

    def view(self, *a, **k):
        args = list(a) + [k[x] for x in ("dtype", "type") if x in k]
        if set(k) - {"dtype", "type"}:
            raise _Unrec("array.view(%s)" % sorted(k))
        dt = self.dtype
        for x in args:
            if isinstance(x, MDtype):
                if x.nbytes() != self.dtype.nbytes():
                    raise _Unrec("view with another item size")
                dt = x
            elif isinstance(x, MType) and x.name == "ndarray":
                pass
            else:
                raise _Unrec("array.view(%r)" % (x,))
        return MArray(self.host, dt, self.buf, self.count)

    def astype(self, dtype, **k):
        if not isinstance(dtype, MDtype) or set(k) - {"copy"} or k.get("copy", True) is not True:
            raise _Unrec("array.astype(%r, %s)" % (dtype, k))
        if _shape_key(dtype) != _shape_key(self.dtype):
            raise _Unrec("astype to another structure")
        # a value-preserving conversion: the new buffer holds the values in the order the new dtype declares
        if not self.consistent():
            raise _Unrec("astype of re-labelled data")
        o = dtype.orders()
        if len(o) > 1:
            raise _Unrec("astype to a mixed-order dtype")
        return MArray(self.host, dtype, MBuf(next(iter(o)) if o else self.buf.origin, 0), self.count)

    def item(self, idx):
        if isinstance(idx, str):
            d = self.dtype.item(idx)
            if d.sub is not None:
                d = d.sub[0]          # a field view dissolves the sub-array into extra dimensions
            return MArray(self.host, d, self.buf, self.count)
        raise _Unrec("array[%r]" % (idx,))

    def m_getattr(self, name):
        if name == "dtype":
            return self.dtype
        if name in ("byteswap", "copy", "view", "astype"):
            return _Fn(getattr(self, name), "ndarray." + name)
        if name in ("size", "nbytes"):
            return self.count.size()       # every item of the model has a positive item size
        if name == "shape":
            return MShape(self.count)
        raise _Unrec("ndarray.%s is not modelled" % name)

    def m_setattr(self, name, value):
        if name != "dtype" or not isinstance(value, MDtype):
            raise _Unrec("assignment to ndarray.%s" % name)
        if value.nbytes() != self.dtype.nbytes():
            raise _Unrec("dtype assignment with another item size")
        self.dtype = value
        self.dtype_sets += 1


def _shape_key(dt):
    if dt.fields is not None:
        return ("struct", tuple((n, _shape_key(d)) for n, d in dt.fields))
    if dt.sub is not None:
        return ("sub", _shape_key(dt.sub[0]), tuple(dt.sub[1]))
    return ("plain", dt.code)


def _parse_typestr(host, s):
    if not isinstance(s, str) or not s:
        raise _Unrec("dtype(%r)" % (s,))
    order, code = (s[0], s[1:]) if s[0] in "<>=|" else ("=", s)
    if len(code) < 2 or not code[1:].isdigit() or code[0] not in "fiucSUbV":
        raise _Unrec("dtype(%r)" % (s,))
    if code[0] in "SV" or int(code[1:]) == 1:
        order = "|"
    elif order == "|":
        order = "="
    elif _resolve(order, host) == ("L" if host else "B"):
        order = "="               # numpy spells the host's own order '='
    return MDtype(host, order, code)


class MNumpy:
    def __init__(self, host):
        self.host = host
        self.t_dtype = MType("dtype", self._dtype, lambda v: isinstance(v, MDtype))
        self.t_ndarray = MType("ndarray", None, lambda v: isinstance(v, MArray))

    def _dtype(self, x, *a, **k):
        if a or k:
            raise _Unrec("numpy.dtype with options")
        if isinstance(x, MDtype):
            return x
        if isinstance(x, str):
            return _parse_typestr(self.host, x)
        if isinstance(x, list):
            fields = []
            for e in x:
                if not isinstance(e, tuple) or len(e) not in (2, 3) or not isinstance(e[0], str):
                    raise _Unrec("numpy.dtype(%r)" % (x,))
                d = self._dtype(e[1])
                if len(e) == 3:
                    shp = e[2] if isinstance(e[2], tuple) else (e[2],)
                    d = MDtype(self.host, sub=(d, shp))
                fields.append((e[0], d))
            return MDtype(self.host, fields=fields)
        raise _Unrec("numpy.dtype(%r)" % (x,))

    def _array(self, x, dtype=None, copy=True, subok=False, **k):
        if not isinstance(x, MArray) or dtype is not None or k:
            raise _Unrec("numpy.array(...) of this form")
        if copy is True:
            return x.copy()
        if copy is False:
            return x
        raise _Unrec("numpy.array(copy=%r)" % (copy,))

    def _size(self, x, *a, **k):
        if not isinstance(x, MArray) or a or k:
            raise _Unrec("numpy.size(...) of this form")
        return x.count.size()

    def m_getattr(self, name):
        if name == "little_endian":
            return self.host
        if name == "dtype":
            return self.t_dtype
        if name == "ndarray":
            return self.t_ndarray
        if name in ("str_", "bytes_", "string_", "unicode_"):
            return MType(name)
        if name == "array":
            return _Fn(self._array, "numpy.array")
        if name == "asarray":
            return _Fn(lambda x, **k: self._array(x, copy=False, **k), "numpy.asarray")
        if name == "size":
            return _Fn(self._size, "numpy.size")
        raise _Unrec("numpy.%s is not modelled" % name)


class MSys:
    def __init__(self, host):
        self.host = host

    def m_getattr(self, name):
        if name == "byteorder":
            return "little" if self.host else "big"
        raise _Unrec("sys.%s is not modelled" % name)


def _native_only(v, depth=0):
    if depth > 6:
        return False
    if v is None or isinstance(v, (bool, int, float, str, bytes)):
        return True
    if isinstance(v, (tuple, list, set, frozenset)):
        return all(_native_only(x, depth + 1) for x in v)
    if isinstance(v, dict):
        return all(_native_only(a, depth + 1) and _native_only(b, depth + 1) for a, b in v.items())
    return False


class MCopy:
    def m_getattr(self, name):
        import copy as _c
        if name in ("copy", "deepcopy"):
            fn = getattr(_c, name)

            def f(x):
                if _native_only(x):
                    return fn(x)
                if isinstance(x, MDtype):
                    return x
                if isinstance(x, MArray):
                    return x.copy()
                raise _Unrec("copy.%s(%r)" % (name, x))
            return _Fn(f, "copy." + name)
        raise _Unrec("copy.%s is not modelled" % name)


class MSelf:
    """the receiver of a method: only its methods can be used"""

    def __init__(self, interp, fi):
        self.interp = interp
        self.fi = fi

    def m_getattr(self, name):
        f = self.fi.module.funcs.get("%s.%s" % (self.fi.cls, name))
        if f is None:
            raise _Unrec("self.%s" % name)
        return RFunc(self.interp, f, self)


class RFunc:
    """a function of the repository, evaluated on call (bare: the function under its decorators)"""

    def __init__(self, interp, fi, selfobj=None, bare=False):
        self.interp = interp
        self.fi = fi
        self.selfobj = selfobj
        self.bare = bare

    def __call__(self, *a, **k):
        it = self.interp
        if not self.bare:
            return it.call(self.fi, list(a), dict(k), self.selfobj)
        prev, it._undecorated = getattr(it, "_undecorated", None), self.fi.qualname
        try:
            return it.call(self.fi, list(a), dict(k), self.selfobj)
        finally:
            it._undecorated = prev


class _ModCtx:
    """stands for 'module-level code of this module' where the evaluator wants the function a piece of code belongs to"""

    def __init__(self, mod):
        self.module, self.cls, self.node = mod, None, None
        self.qualname, self.name = mod.name, "<module>"


class MModule:
    """a module of the repository as an object: its functions, imports and module-level values"""

    def __init__(self, interp, mod):
        self.interp, self.mod = interp, mod

    def m_getattr(self, name):
        sub = self.interp.repo.modules.get(self.mod.name + "." + name)
        if sub is not None and name not in self.mod.funcs and not _module_binders(self.mod, name):
            return MModule(self.interp, sub)
        return self.interp.global_lookup(self.mod, name, _ModCtx(self.mod))


def _hashable(v):
    if v is None or isinstance(v, (bool, int, float, str, bytes, MDtype, MType, RFunc)):
        return True
    if isinstance(v, (tuple, frozenset)):
        return all(_hashable(x) for x in v)
    if isinstance(v, (MArray, list, dict, set)):
        return False
    raise _Unrec("hashability of %r" % (v,))


def _immutable(v):
    if v is None or isinstance(v, (bool, int, float, str, bytes, MDtype)):
        return True
    return isinstance(v, (tuple, frozenset)) and all(_immutable(x) for x in v)


def _memoised(f):
    """functools.lru_cache(...)(f) / functools.cache(f): the same results as f for hashable arguments (an unhashable one is a
    TypeError), provided what f returns cannot be modified by the callers that share it.  Every call is evaluated afresh: an f
    that answers differently for two equal keys is then judged on each of them."""
    if not isinstance(f, (RFunc, RLambda, _Fn)):
        raise _Unrec("memoisation of %r" % (f,))

    def call(*a, **k):
        if not all(_hashable(x) for x in list(a) + list(k.values())):
            raise _Raised("TypeError: unhashable argument of a memoised function", "TypeError")
        r = f(*a, **k)
        if not _immutable(r):
            raise _Unrec("a memoised function returns a mutable object")
        return r
    return _Fn(call, "memoised")


def _lru_cache(*a, **k):
    if len(a) == 1 and not k and isinstance(a[0], (RFunc, RLambda, _Fn)):
        return _memoised(a[0])
    if len(a) <= 2 and set(k) <= {"maxsize", "typed"} and all(x is None or isinstance(x, (bool, int)) for x in list(a) + list(k.values())):
        return _Fn(_memoised, "functools.cache")
    raise _Unrec("functools.lru_cache with these arguments")


def _partial(f, *a, **k):
    if not isinstance(f, (RFunc, RLambda, _Fn, MType)):
        raise _Unrec("functools.partial of %r" % (f,))
    return _Fn(lambda *b, **kk: f(*(a + b), **dict(k, **kk)), "partial")


_KEEPING_DECORATORS = ("functools.lru_cache", "functools.cache", "functools.wraps-of")


class MFunctools:
    def m_getattr(self, name):
        if name == "lru_cache":
            return _Fn(_lru_cache, "functools.lru_cache")
        if name == "cache":
            return _Fn(_memoised, "functools.cache")
        if name == "partial":
            return _Fn(_partial, "functools.partial")
        if name == "wraps":
            return _Fn(lambda wrapped, **k: _Fn(lambda g: g, "functools.wraps-of"), "functools.wraps")
        raise _Unrec("functools.%s is not modelled" % name)


class RLambda:
    """a lambda or a nested def: evaluated in (a copy of) the environment it was created in"""

    def __init__(self, interp, node, env, fi):
        self.interp, self.node, self.env, self.fi = interp, node, env, fi

    def __call__(self, *a, **k):
        # a function created by a module-level statement has no closure: its free names are globals, read when it is called
        env = {} if isinstance(self.env, _ModEnv) else dict(self.env)
        it = self.interp
        it.bind(self.node.args, list(a), dict(k), env, self.fi, getattr(self.node, "name", "<lambda>"))
        if isinstance(self.node, ast.Lambda):
            return it.ev(self.node.body, env, self.fi)
        it.depth += 1
        try:
            if it.depth > 14:
                raise _Unrec("call depth")
            it.block(self.node.body, env, self.fi)
        except _Return as r:
            return r.value
        finally:
            it.depth -= 1
        return None


_NATIVE_METHODS = {
    dict: {"items", "keys", "values", "get", "pop", "copy", "setdefault", "update"},
    list: {"append", "extend", "insert", "pop", "index", "copy", "count", "reverse"},
    tuple: {"index", "count"},
    str: {"startswith", "endswith", "lstrip", "rstrip", "strip", "format", "join", "replace", "upper", "lower", "split", "find", "isdigit"},
    set: {"add", "discard", "copy"},
}
_NATIVE_TYPES = (str, list, tuple, dict, set, frozenset, int, float, bool, bytes)
_IMPORT_MODELS = {"numpy": "numpy", "copy": "copy", "sys": "sys", "functools": "functools"}


def _truth(v):
    if v is None or isinstance(v, (bool, int, float, str, bytes, tuple, list, dict, set, frozenset, range)):
        return bool(v)
    if isinstance(v, (MDtype, RFunc, RLambda, _Fn, MType, MModule)):
        return True
    if isinstance(v, MNat):
        return not v.zero
    raise _Unrec("truth value of %r" % (v,))


def _len(v):
    if isinstance(v, MArray):
        return v.count.first()
    if isinstance(v, MShape):
        v.count.read = True
        raise _Unrec("number of axes of an array")
    return len(v)


def _isinstance(v, t):
    if isinstance(t, tuple):
        return any(_isinstance(v, x) for x in t)
    if isinstance(t, MType):
        return bool(t.check(v))
    if isinstance(t, type) and t in _NATIVE_TYPES:
        return isinstance(v, t)
    raise _Unrec("isinstance(_, %r)" % (t,))


_SCOPES = (ast.FunctionDef, ast.AsyncFunctionDef, ast.ClassDef, ast.Lambda, ast.ListComp, ast.SetComp, ast.DictComp, ast.GeneratorExp)


def _walk_scope(node):
    """the nodes of a module-level statement that belong to the module's own scope"""
    todo = [node]
    while todo:
        n = todo.pop()
        yield n
        todo.extend(c for c in ast.iter_child_nodes(n) if not isinstance(c, _SCOPES))


def _module_index(mod):
    """name -> indices of the module-level statements that (may) bind it by assignment (plain, tuple, augmented, annotated, loop
    target, with-target, del; at top level or under a module-level if / for / while / try / with), and the names some function
    of the module rebinds through `global`.  Computed once per parsed module."""
    idx = getattr(mod, "_c16_module_index", None)
    if idx is None:
        binders, rebound = {}, set()
        for i, st in enumerate(mod.tree.body):
            if isinstance(st, _SCOPES):
                continue
            for n in _walk_scope(st):
                if isinstance(n, ast.Name) and isinstance(n.ctx, (ast.Store, ast.Del)):
                    b = binders.setdefault(n.id, [])
                    if not b or b[-1] != i:
                        b.append(i)
        for n in ast.walk(mod.tree):
            if isinstance(n, ast.Global):
                rebound.update(n.names)
        idx = mod._c16_module_index = (binders, rebound)
    return idx


def _module_binders(mod, name):
    return _module_index(mod)[0].get(name, [])


class _ModEnv(dict):
    """environment of a module-level statement: a name that is not bound by the statement itself is the module-level value as
    of that statement (the bindings made by the statements before it)"""

    def __init__(self, interp, mod, upto, fi):
        dict.__init__(self)
        self.interp, self.mod, self.upto, self.fi = interp, mod, upto, fi

    def _earlier(self, name):
        return any(i < self.upto for i in _module_binders(self.mod, name))

    def __contains__(self, name):
        return dict.__contains__(self, name) or self._earlier(name)

    def __getitem__(self, name):
        if dict.__contains__(self, name):
            return dict.__getitem__(self, name)
        if self._earlier(name):
            return self.interp.module_value(self.mod, name, self.upto, self.fi)
        raise KeyError(name)


def _copy_env(env):
    if isinstance(env, _ModEnv):
        e = _ModEnv(env.interp, env.mod, env.upto, env.fi)
        for k in dict.keys(env):
            dict.__setitem__(e, k, dict.__getitem__(env, k))
        return e
    return dict(env)


class Interp:
    """evaluates functions of the parsed repository on model values for one host byte order"""

    def __init__(self, repo, host_little, budget=40000):
        self.repo = repo
        self.host = host_little
        self.budget = budget
        self.steps = 0
        self.depth = 0
        self.visited = set()
        self.np = MNumpy(host_little)
        self.models = {"numpy": self.np, "copy": MCopy(), "sys": MSys(host_little), "functools": MFunctools()}
        self.handling = []
        self.builtins = {
            "any": any, "all": all, "len": _len, "range": range, "enumerate": enumerate, "zip": zip, "reversed": reversed,
            "sorted": sorted, "min": min, "max": max, "sum": sum, "repr": repr, "abs": abs,
            "map": lambda f, *xs: list(map(f, *xs)), "filter": lambda f, xs: [x for x in xs if _truth(f(x) if f is not None else x)],
            "isinstance": _isinstance, "bool": _truth, "iter": iter, "next": next,
        }
        self.builtins.update({"getattr": self.b_getattr, "hasattr": self.b_hasattr})
        self.builtins = {k: _Fn(v, k) for k, v in self.builtins.items()}
        for t in _NATIVE_TYPES:
            if t is not bool:
                self.builtins[t.__name__] = t
        import builtins as _b
        for n in dir(_b):
            if _exc_class(n) is not None:
                self.builtins[n] = MType(n)

    # -- entry ----------------------------------------------------------
    def run(self, fi, args=(), kwargs=None, selfobj=None):
        """('ok', value) | ('raise', text) | ('unrec', text)"""
        self.steps = 0
        self.depth = 0
        self.handling = []
        try:
            return ("ok", self.call(fi, list(args), dict(kwargs or {}), selfobj))
        except _Raised as e:
            return ("raise", str(e))
        except _Unrec as e:
            return ("unrec", str(e))
        except RecursionError:
            return ("unrec", "recursion")
        except (_Return, _Break, _Continue):
            return ("unrec", "stray control flow")
        except Exception as e:     # an operation of the model host failed in a way the model does not describe
            return ("unrec", "%s: %s" % (type(e).__name__, e))

    def tick(self):
        self.steps += 1
        if self.steps > self.budget:
            raise _Unrec("evaluation budget exhausted (unbounded loop?)")

    # -- calls ----------------------------------------------------------
    def bind(self, a, args, kwargs, env, fi, what):
        pos = [x.arg for x in a.posonlyargs + a.args]
        defaults = dict(zip(pos[len(pos) - len(a.defaults):], a.defaults))
        for p, d in zip(a.kwonlyargs, a.kw_defaults):
            if d is not None:
                defaults[p.arg] = d
        if len(args) > len(pos):
            if a.vararg is None:
                raise _Raised("%s() takes %d positional arguments, %d given" % (what, len(pos), len(args)), "TypeError")
            env[a.vararg.arg] = tuple(args[len(pos):])
            args = args[:len(pos)]
        elif a.vararg is not None:
            env[a.vararg.arg] = ()
        for p, v in zip(pos, args):
            env[p] = v
        allowed = set(pos[len(a.posonlyargs):]) | {x.arg for x in a.kwonlyargs}
        extra = {}
        for k, v in kwargs.items():
            if k in allowed:
                if k in env and k in pos[:len(args)]:
                    raise _Raised("%s() got multiple values for %s" % (what, k), "TypeError")
                env[k] = v
            elif a.kwarg is not None:
                extra[k] = v
            else:
                raise _Raised("%s() got an unexpected keyword argument %r" % (what, k), "TypeError")
        if a.kwarg is not None:
            env[a.kwarg.arg] = extra
        for p in pos + [x.arg for x in a.kwonlyargs]:
            if p not in env:
                if p in defaults:
                    env[p] = self.ev(defaults[p], {}, fi)
                else:
                    raise _Raised("%s() missing argument %s" % (what, p), "TypeError")

    def call(self, fi, args, kwargs, selfobj=None):
        if fi.name == "isstring" and len(args) == 1 and not kwargs:
            # trusted summary: the repository's isstring() is "is a (byte) string" (python/numpy version switch inside)
            return isinstance(args[0], (str, bytes))
        if isinstance(fi.node, ast.AsyncFunctionDef) or rules.is_generator(fi.node):
            raise _Unrec("%s is a generator" % fi.qualname)
        if fi.node.decorator_list and not getattr(self, "_undecorated", None) == fi.qualname:
            # only decorators that keep what the function computes: memoisation (functools.lru_cache / cache), functools.wraps
            f = RFunc(self, fi, selfobj, bare=True)
            for d in reversed(fi.node.decorator_list):
                dec = self.ev(d, {}, _ModCtx(fi.module))
                if not (isinstance(dec, _Fn) and dec.name in _KEEPING_DECORATORS):
                    raise _Unrec("%s is decorated with %s" % (fi.qualname, norm(d)))
                f = dec(f)
            return f(*args, **kwargs)
        self.visited.add(fi.qualname)
        self.depth += 1
        if self.depth > 14:
            raise _Unrec("call depth")
        try:
            env = {}
            if fi.cls is not None:
                if selfobj is None:
                    selfobj = MSelf(self, fi)
                args = [selfobj] + list(args)
            self.bind(fi.node.args, args, kwargs, env, fi, fi.name)
            try:
                self.block(fi.node.body, env, fi)
            except _Return as r:
                return r.value
            return None
        finally:
            self.depth -= 1

    # -- names ----------------------------------------------------------
    def module_value(self, mod, name, upto, fi):
        """the value a module-level name has after the first `upto` statements of its module ran (for a function called after
        import: all of them): the statements that bind it are evaluated in source order, whole (a module-level `if` that picks
        one of two tables is decided by its test), every other module-level name they read being its value as of that statement"""
        binders, rebound = _module_index(mod)
        if name in rebound:
            raise _Unrec("module-level name %s is rebound by a function (global)" % name)
        self.depth += 1
        try:
            if self.depth > 14:
                raise _Unrec("constant depth")
            env = _ModEnv(self, mod, 0, fi)
            for i in binders.get(name, []):
                if i >= upto:
                    break
                env.upto = i
                try:
                    self.stmt(mod.tree.body[i], env, fi)
                except (_Return, _Break, _Continue):
                    raise _Unrec("stray control flow at module level")
                except _Raised as e:
                    raise _Unrec("module-level code raises: %s" % e)
                for k in [k for k in dict.keys(env) if k != name]:
                    dict.__delitem__(env, k)
            if not dict.__contains__(env, name):
                raise _Unrec("module-level name %s is not bound on this path" % name)
            return dict.__getitem__(env, name)
        finally:
            self.depth -= 1

    def lookup(self, name, env, fi):
        if name in env:
            return env[name]
        return self.global_lookup(fi.module, name, fi)

    def imported(self, mod, name):
        """the object a module-level import of `mod` binds `name` to"""
        tgt = mod.imports[name]
        if tgt in self.models:
            return self.models[tgt]
        parts = tgt.split(".")
        if parts[0] in self.models:
            o = self.models[parts[0]]
            for p in parts[1:]:
                o = self.getattr(o, p)
            return o
        full = self.repo.resolve_name(mod, name)
        if full in self.repo.funcs:
            return RFunc(self, self.repo.funcs[full])
        for t in (full, tgt):
            if t in self.repo.modules:
                return MModule(self, self.repo.modules[t])
        for t in (full, tgt):
            mname, _, attr = t.rpartition(".")
            m2 = self.repo.modules.get(mname)
            if m2 is not None and m2 is not mod and (attr in m2.funcs or attr in m2.imports or _module_binders(m2, attr)):
                self.depth += 1
                try:
                    if self.depth > 14:
                        raise _Unrec("import depth")
                    return MModule(self, m2).m_getattr(attr)
                finally:
                    self.depth -= 1
        raise _Unrec("imported name %s (%s) is not modelled" % (name, tgt))

    def global_lookup(self, mod, name, fi):
        if name in mod.funcs:
            return RFunc(self, mod.funcs[name])
        if name in mod.imports:
            return self.imported(mod, name)
        if _module_binders(mod, name):
            return self.module_value(mod, name, len(mod.tree.body), fi if fi.module is mod else _ModCtx(mod))
        if name in self.builtins:
            return self.builtins[name]
        for sm in mod.star:
            m2 = self.repo.modules.get(sm)
            if m2 is not None and name in m2.funcs:
                return RFunc(self, m2.funcs[name])
        raise _Unrec("name %s is not defined in the model" % name)

    # -- statements -----------------------------------------------------
    def block(self, stmts, env, fi):
        for st in stmts:
            self.stmt(st, env, fi)

    def stmt(self, st, env, fi):
        self.tick()
        if isinstance(st, ast.Expr):
            if not isinstance(st.value, ast.Constant):
                self.ev(st.value, env, fi)
        elif isinstance(st, ast.Assign):
            v = self.ev(st.value, env, fi)
            for t in st.targets:
                self.assign(t, v, env, fi)
        elif isinstance(st, ast.AnnAssign):
            if st.value is not None:
                self.assign(st.target, self.ev(st.value, env, fi), env, fi)
        elif isinstance(st, ast.AugAssign):
            import operator as op
            ops = {ast.Add: op.iadd, ast.Sub: op.isub, ast.Mult: op.imul, ast.BitOr: op.ior, ast.BitAnd: op.iand, ast.BitXor: op.ixor}
            f = ops.get(type(st.op))
            if f is None:
                raise _Unrec("augmented assignment %s" % norm(st))
            load = ast.fix_missing_locations(ast.copy_location(_as_load(st.target), st.target))
            cur = self.ev(load, env, fi)
            val = self.ev(st.value, env, fi)
            if not (_plain(cur) and _plain(val)):
                raise _Unrec("augmented assignment on model objects")
            self.assign(st.target, f(cur, val), env, fi)
        elif isinstance(st, ast.If):
            self.block(st.body if _truth(self.ev(st.test, env, fi)) else st.orelse, env, fi)
        elif isinstance(st, ast.For):
            it = self.iterable(self.ev(st.iter, env, fi))
            broke = False
            for x in it:
                self.tick()
                self.assign(st.target, x, env, fi)
                try:
                    self.block(st.body, env, fi)
                except _Break:
                    broke = True
                    break
                except _Continue:
                    continue
            if not broke:
                self.block(st.orelse, env, fi)
        elif isinstance(st, ast.While):
            broke = False
            while _truth(self.ev(st.test, env, fi)):
                self.tick()
                try:
                    self.block(st.body, env, fi)
                except _Break:
                    broke = True
                    break
                except _Continue:
                    continue
            if not broke:
                self.block(st.orelse, env, fi)
        elif isinstance(st, ast.Return):
            raise _Return(self.ev(st.value, env, fi) if st.value is not None else None)
        elif isinstance(st, ast.Break):
            raise _Break()
        elif isinstance(st, ast.Continue):
            raise _Continue()
        elif isinstance(st, ast.Pass):
            pass
        elif isinstance(st, ast.Raise):
            if st.exc is None:
                if self.handling:
                    raise self.handling[-1]
                raise _Raised("raise outside of a handler", "RuntimeError")
            x = st.exc.func if isinstance(st.exc, ast.Call) else st.exc
            etype = None
            if isinstance(x, ast.Name) and x.id not in env and not _module_binders(fi.module, x.id) and x.id not in fi.module.imports \
                    and x.id not in fi.module.classes and _exc_class(x.id) is not None:
                etype = x.id
            raise _Raised("raise %s" % norm(st.exc)[:80], etype)
        elif isinstance(st, ast.Try):
            self.try_stmt(st, env, fi)
        elif isinstance(st, ast.Assert):
            if not _truth(self.ev(st.test, env, fi)):
                raise _Raised("assert %s" % norm(st.test), "AssertionError")
        elif isinstance(st, ast.Delete):
            for t in st.targets:
                if isinstance(t, ast.Subscript):
                    c = self.ev(t.value, env, fi)
                    if not isinstance(c, (list, dict)):
                        raise _Unrec("del on %r" % (c,))
                    try:
                        del c[self.index(t.slice, env, fi)]
                    except (KeyError, IndexError) as e:
                        raise _Raised("%s: %s" % (type(e).__name__, e))
                elif isinstance(t, ast.Name):
                    env.pop(t.id, None)
                else:
                    raise _Unrec("del %s" % norm(t))
        elif isinstance(st, ast.FunctionDef):
            if st.decorator_list or rules.is_generator(st):
                raise _Unrec("nested generator / decorated function %s" % st.name)
            env[st.name] = RLambda(self, st, env, fi)
        elif isinstance(st, (ast.Import, ast.ImportFrom)):
            for al in st.names:
                top = al.name.split(".")[0] if isinstance(st, ast.Import) else None
                if isinstance(st, ast.Import) and top in self.models:
                    env[al.asname or top] = self.models[top]
                else:
                    raise _Unrec("local import %s" % norm(st))
        else:
            raise _Unrec("statement %s" % type(st).__name__)

    def assign(self, t, v, env, fi):
        if isinstance(t, ast.Name):
            env[t.id] = v
        elif isinstance(t, (ast.Tuple, ast.List)):
            vals = list(self.iterable(v))
            if any(isinstance(e, ast.Starred) for e in t.elts) or len(vals) != len(t.elts):
                raise _Unrec("unpacking %s" % norm(t))
            for e, x in zip(t.elts, vals):
                self.assign(e, x, env, fi)
        elif isinstance(t, ast.Attribute):
            o = self.ev(t.value, env, fi)
            if not hasattr(o, "m_setattr"):
                raise _Unrec("assignment to attribute %s" % norm(t))
            o.m_setattr(t.attr, v)
        elif isinstance(t, ast.Subscript):
            c = self.ev(t.value, env, fi)
            if not isinstance(c, (list, dict)):
                raise _Unrec("item assignment on %r" % (c,))
            try:
                c[self.index(t.slice, env, fi)] = v
            except (IndexError, TypeError) as e:
                raise _Raised("%s: %s" % (type(e).__name__, e))
        else:
            raise _Unrec("assignment target %s" % norm(t))

    def iterable(self, v):
        if isinstance(v, (tuple, list, str, dict, set, frozenset, range)):
            return list(v)
        if type(v).__name__ in ("enumerate", "zip", "reversed", "dict_items", "dict_keys", "dict_values", "list_iterator",
                                "tuple_iterator", "list_reverseiterator", "map", "filter"):
            return list(v)
        if v is None or isinstance(v, (bool, int, float)):
            raise _Raised("%r is not iterable" % (v,), "TypeError")
        if isinstance(v, MDtype):
            raise _Raised("a dtype is not iterable", "TypeError")
        raise _Unrec("iteration over %r" % (v,))

    # -- expressions ----------------------------------------------------
    def index(self, s, env, fi):
        if isinstance(s, ast.Slice):
            return slice(*(None if x is None else self.ev(x, env, fi) for x in (s.lower, s.upper, s.step)))
        return self.ev(s, env, fi)

    def comp(self, gens, env, fi, leaf, out):
        if not gens:
            out.append(leaf(env))
            return
        g = gens[0]
        if g.is_async:
            raise _Unrec("async comprehension")
        for x in self.iterable(self.ev(g.iter, env, fi)):
            self.tick()
            self.assign(g.target, x, env, fi)
            if all(_truth(self.ev(c, env, fi)) for c in g.ifs):
                self.comp(gens[1:], env, fi, leaf, out)

    def ev(self, e, env, fi):
        self.tick()
        if isinstance(e, ast.Constant):
            return e.value
        if isinstance(e, ast.Name):
            return self.lookup(e.id, env, fi)
        if isinstance(e, ast.Attribute):
            return self.getattr(self.ev(e.value, env, fi), e.attr)
        if isinstance(e, ast.Subscript):
            o = self.ev(e.value, env, fi)
            i = self.index(e.slice, env, fi)
            if isinstance(o, (MDtype, MArray, MShape)):
                return o.item(i)
            if isinstance(o, (tuple, list, str, dict)):
                if not _plain(i) and not isinstance(i, slice):
                    raise _Unrec("index %r" % (i,))
                try:
                    return o[i]
                except (IndexError, KeyError, TypeError) as ex:
                    raise _Raised("%s: %s" % (type(ex).__name__, ex))
            if o is None:
                raise _Raised("None is not subscriptable", "TypeError")
            raise _Unrec("subscript of %r" % (o,))
        if isinstance(e, ast.Call):
            return self.callexpr(e, env, fi)
        if isinstance(e, ast.BoolOp):
            v = None
            for x in e.values:
                v = self.ev(x, env, fi)
                t = _truth(v)
                if isinstance(e.op, ast.And) and not t:
                    return v
                if isinstance(e.op, ast.Or) and t:
                    return v
            return v
        if isinstance(e, ast.UnaryOp):
            v = self.ev(e.operand, env, fi)
            if isinstance(e.op, ast.Not):
                return not _truth(v)
            if isinstance(v, (int, float)) and not isinstance(v, bool):
                return -v if isinstance(e.op, ast.USub) else +v if isinstance(e.op, ast.UAdd) else ~v
            raise _Unrec("unary %s" % norm(e))
        if isinstance(e, ast.Compare):
            left = self.ev(e.left, env, fi)
            for o, r in zip(e.ops, e.comparators):
                right = self.ev(r, env, fi)
                if not self.compare(o, left, right):
                    return False
                left = right
            return True
        if isinstance(e, ast.IfExp):
            return self.ev(e.body if _truth(self.ev(e.test, env, fi)) else e.orelse, env, fi)
        if isinstance(e, (ast.Tuple, ast.List, ast.Set)):
            vals = []
            for x in e.elts:
                if isinstance(x, ast.Starred):
                    vals.extend(self.iterable(self.ev(x.value, env, fi)))
                else:
                    vals.append(self.ev(x, env, fi))
            return tuple(vals) if isinstance(e, ast.Tuple) else vals if isinstance(e, ast.List) else set(vals)
        if isinstance(e, ast.Dict):
            d = {}
            for k, v in zip(e.keys, e.values):
                if k is None:
                    raise _Unrec("dict unpacking")
                d[self.ev(k, env, fi)] = self.ev(v, env, fi)
            return d
        if isinstance(e, (ast.ListComp, ast.GeneratorExp, ast.SetComp)):
            out = []
            self.comp(e.generators, _copy_env(env), fi, lambda en: self.ev(e.elt, en, fi), out)
            return set(out) if isinstance(e, ast.SetComp) else out
        if isinstance(e, ast.DictComp):
            out = []
            self.comp(e.generators, _copy_env(env), fi, lambda en: (self.ev(e.key, en, fi), self.ev(e.value, en, fi)), out)
            return dict(out)
        if isinstance(e, ast.BinOp):
            import operator as op
            a, b = self.ev(e.left, env, fi), self.ev(e.right, env, fi)
            ops = {ast.Add: op.add, ast.Sub: op.sub, ast.Mult: op.mul, ast.Mod: op.mod, ast.FloorDiv: op.floordiv, ast.Div: op.truediv,
                   ast.BitAnd: op.and_, ast.BitOr: op.or_, ast.BitXor: op.xor}
            f = ops.get(type(e.op))
            if f is None or not (_plain(a) and _plain(b)):
                raise _Unrec("operator in %s" % norm(e)[:60])
            try:
                return f(a, b)
            except (TypeError, ZeroDivisionError, ValueError) as ex:
                raise _Raised("%s: %s" % (type(ex).__name__, ex))
        if isinstance(e, ast.JoinedStr):
            out = []
            for p in e.values:
                if isinstance(p, ast.Constant):
                    out.append(str(p.value))
                else:
                    v = self.ev(p.value, env, fi)
                    if not _plain(v):
                        raise _Unrec("formatting a model object")
                    spec = self.ev(p.format_spec, env, fi) if p.format_spec is not None else ""
                    v = {-1: v, 115: str(v), 114: repr(v), 97: ascii(v)}[p.conversion]
                    out.append(format(v, spec))
            return "".join(out)
        if isinstance(e, ast.Lambda):
            return RLambda(self, e, env, fi)
        raise _Unrec("expression %s" % type(e).__name__)

    def getattr(self, o, attr):
        if hasattr(o, "m_getattr"):
            return o.m_getattr(attr)
        for t, names in _NATIVE_METHODS.items():
            if isinstance(o, t) and not isinstance(o, bool) and attr in names:
                return _Fn(getattr(o, attr), "%s.%s" % (t.__name__, attr))
        if _plain(o) and not isinstance(o, slice) and isinstance(attr, str) and not hasattr(o, attr):
            raise _Raised("AttributeError: %s object has no attribute %s" % (type(o).__name__, attr), "AttributeError")
        raise _Unrec("attribute %s of %r" % (attr, o))

    def b_getattr(self, o, name, *default):
        """the builtin getattr / hasattr: decided where the model knows the object's attributes"""
        if not isinstance(name, str) or len(default) > 1:
            raise _Unrec("getattr(_, %r, ...)" % (name,))
        try:
            return self.getattr(o, name)
        except _Raised as ex:
            if default and ex.etype == "AttributeError":
                return default[0]
            raise

    def b_hasattr(self, o, name):
        try:
            self.b_getattr(o, name)
        except _Raised as ex:
            if ex.etype == "AttributeError":
                return False
            raise
        return True

    def try_stmt(self, st, env, fi):
        """try / except / else / finally over the exceptions the analysed code raises in the model"""
        if getattr(st, "handlers", None) is None or type(st).__name__ != "Try":
            raise _Unrec("statement %s" % type(st).__name__)
        try:
            try:
                self.block(st.body, env, fi)
            except _Raised as ex:
                for h in st.handlers:
                    if self.handler_matches(h, ex, env, fi):
                        if h.name:
                            env[h.name] = MExc(ex)
                        self.handling.append(ex)
                        try:
                            self.block(h.body, env, fi)
                        finally:
                            self.handling.pop()
                        if h.name:
                            env.pop(h.name, None)
                        break
                else:
                    raise
            else:
                self.block(st.orelse, env, fi)
        except _Unrec:
            raise
        except (_Raised, _Return, _Break, _Continue):
            self.block(st.finalbody, env, fi)      # control leaving the finally block itself replaces the one in flight
            raise
        self.block(st.finalbody, env, fi)

    def handler_matches(self, h, ex, env, fi):
        if h.type is None:
            return True
        t = self.ev(h.type, env, fi)
        ts = t if isinstance(t, tuple) else (t,)
        if not ts or not all(isinstance(x, MType) and _exc_class(x.name) is not None for x in ts):
            raise _Unrec("except %s" % norm(h.type))
        if any(x.name == "BaseException" for x in ts):
            return True
        if ex.etype is None:
            raise _Unrec("the class of the exception (%s) is not known to the model" % ex)
        return any(issubclass(_exc_class(ex.etype), _exc_class(x.name)) for x in ts)

    def compare(self, o, a, b):
        if isinstance(o, (ast.Is, ast.IsNot)):
            if not any(x is None or isinstance(x, bool) for x in (a, b)) and not (isinstance(a, (MDtype, MArray, MBuf)) or isinstance(b, (MDtype, MArray, MBuf))):
                raise _Unrec("identity comparison of values")
            if isinstance(a, MDtype) and isinstance(b, MDtype):
                raise _Unrec("identity comparison of dtypes")
            r = a is b
            return r if isinstance(o, ast.Is) else not r
        if isinstance(a, MArray) or isinstance(b, MArray):
            raise _Unrec("comparison of arrays")
        if isinstance(b, MShape) and isinstance(o, (ast.In, ast.NotIn)):
            if isinstance(a, bool) or not isinstance(a, int) or a != 0:
                b.count.read = True
                raise _Unrec("membership of %r in array.shape" % (a,))
            return b.has_zero() if isinstance(o, ast.In) else not b.has_zero()
        if isinstance(a, MShape) or isinstance(b, MShape):
            for x in (a, b):
                if isinstance(x, MShape):
                    x.count.read = True
            raise _Unrec("comparison of array.shape")
        if (isinstance(a, MNat) or isinstance(b, MNat)) and isinstance(o, (ast.Lt, ast.LtE, ast.Gt, ast.GtE)):
            if isinstance(o, ast.Lt):
                return _nat_compare("lt", a, b)
            if isinstance(o, ast.LtE):
                return _nat_compare("le", a, b)
            if isinstance(o, ast.Gt):
                return _nat_compare("lt", b, a)
            return _nat_compare("le", b, a)
        if isinstance(o, ast.Eq):
            return bool(a == b)
        if isinstance(o, ast.NotEq):
            return bool(a != b)
        if isinstance(o, (ast.In, ast.NotIn)):
            if not isinstance(b, (tuple, list, str, dict, set, frozenset)):
                raise _Unrec("membership in %r" % (b,))
            try:
                r = a in b
            except TypeError as ex:
                raise _Raised("TypeError: %s" % ex)
            return r if isinstance(o, ast.In) else not r
        if not (_plain(a) and _plain(b)):
            raise _Unrec("ordering comparison of model objects")
        import operator as op
        f = {ast.Lt: op.lt, ast.LtE: op.le, ast.Gt: op.gt, ast.GtE: op.ge}[type(o)]
        try:
            return bool(f(a, b))
        except TypeError as ex:
            raise _Raised("TypeError: %s" % ex)

    def callexpr(self, e, env, fi):
        f = self.ev(e.func, env, fi)
        args, kwargs = [], {}
        for a in e.args:
            if isinstance(a, ast.Starred):
                args.extend(self.iterable(self.ev(a.value, env, fi)))
            else:
                args.append(self.ev(a, env, fi))
        for k in e.keywords:
            if k.arg is None:
                d = self.ev(k.value, env, fi)
                if not isinstance(d, dict):
                    raise _Unrec("** of %r" % (d,))
                kwargs.update(d)
            else:
                kwargs[k.arg] = self.ev(k.value, env, fi)
        if isinstance(f, (RFunc, RLambda, MType, _Fn)):
            try:
                return f(*args, **kwargs)
            except (_Unrec, _Raised, _Return, _Break, _Continue, RecursionError):
                raise
            except (IndexError, KeyError, StopIteration) as ex:
                if isinstance(f, _Fn) and f.name.split(".")[0] in ("list", "dict", "tuple", "str", "next"):
                    raise _Raised("%s: %s" % (type(ex).__name__, ex))
                raise _Unrec("%s in %s" % (type(ex).__name__, norm(e)[:60]))
            except Exception as ex:
                raise _Unrec("%s in %s: %s" % (type(ex).__name__, norm(e)[:60], ex))
        if isinstance(f, type) and f in _NATIVE_TYPES:
            if any(isinstance(x, (MArray,)) for x in args) or kwargs and f is not dict:
                raise _Unrec("%s(...) of model objects" % f.__name__)
            if f in (list, tuple, set, frozenset) and args:
                args = [self.iterable(args[0])] + args[1:]
            if f is str and args and not _plain(args[0]):
                raise _Unrec("str() of a model object")
            try:
                return f(*args, **kwargs)
            except (TypeError, ValueError) as ex:
                raise _Raised("%s: %s" % (type(ex).__name__, ex))
        raise _Unrec("call of %r" % (f,))


def _plain(v):
    return v is None or isinstance(v, (bool, int, float, str, bytes, tuple, list, dict, set, frozenset, slice))


def _as_load(t):
    import copy as _c
    t = _c.deepcopy(t)
    t.ctx = ast.Load()
    return t


# ---------------------------------------------------------------------------
# the finite input domain
# ---------------------------------------------------------------------------
HOSTS = (True, False)
ORDERS = ("<", ">", "=")
# field layouts: N string field, B one-byte integer (neither has a byte order), X multi-byte scalar, V / W 1-d / 2-d sub-array of
# multi-byte items.  All multi-byte fields of one array share one order (property quantifier).
LAYOUTS_PLAIN = ("X", "XX")
LAYOUTS_NEUTRAL = ("NX", "XN", "BX", "NXN", "NNX", "XNB", "BNXX", "NV", "WB", "NVN")
LAYOUTS_SUB = ("V", "W", "VW", "XV", "VX")
_CODES = {"N": ("|", "S4"), "B": ("|", "u1")}
# type codes: every numeric kind at every item size that carries a byte order (property quantifier: "plain arrays of every numeric
# kind and item size"), and the types that carry none.  The analysed code can tell dtypes of one declared order apart only through
# kind / itemsize / type string, which the model answers from the code.
CODES_ORDERED = ("i2", "i4", "i8", "u2", "u4", "u8", "f2", "f4", "f8", "f16", "c8", "c16", "c32")
CODES_NEUTRAL = ("S4", "S1", "u1", "i1", "b1")


def _hostname(h):
    return "little" if h else "big"


def mk_dtype(host, layout, order):
    fields = []
    for i, c in enumerate(layout):
        if c in _CODES:
            d = MDtype(host, *_CODES[c])
        elif c == "X":
            d = MDtype(host, order, "f8" if i % 2 == 0 else "i4")
        elif c == "V":
            d = MDtype(host, sub=(MDtype(host, order, "f8"), (3,)))
        else:
            d = MDtype(host, sub=(MDtype(host, order, "i2"), (2, 2)))
        fields.append(("f%d" % i, d))
    return MDtype(host, fields=fields)


def mk_plain(host, order, code="f8"):
    return MDtype(host, order, code) if order != "|" else MDtype(host, "|", "S4")


def mk_typed(host, order, code):
    """the dtypes in which a multi-byte item of the given type code and declared order is the only thing with a byte order: the
    plain dtype, and a structured dtype that has it as a field after a string field"""
    return (MDtype(host, order, code), MDtype(host, fields=[("f0", MDtype(host, "|", "S4")), ("f1", MDtype(host, order, code))]))


def _kind_cases(target_of, run_one, agg):
    """run_one over every numeric kind x item size x declared order x host, plain and as a field"""
    for host in HOSTS:
        target = target_of(host)
        for order in ORDERS:
            for code in CODES_ORDERED:
                for d0 in mk_typed(host, order, code):
                    ok, text = run_one(host, d0, target)
                    agg.add(ok, text)


_KIND_MSG = ("the decision depends on the declared order only, not on the kind or item size of the items: integer, unsigned, float and "
             "complex data of every item size are converted alike")


def mk_array(host, dtype, count="pos"):
    o = dtype.orders()
    return MArray(host, dtype, MBuf(next(iter(o)) if o else "L"), MCount(count))


class _Agg:
    """one rule instance decided over many model inputs: violated by the first input on which the evaluation contradicts it,
    not recognised when the evaluation left the model on some input and no input contradicts it"""

    def __init__(self):
        self.n = 0
        self.bad = []
        self.unrec = []

    def add(self, ok, what):
        self.n += 1
        if ok is None:
            self.unrec.append(what)
        elif not ok:
            self.bad.append(what)

    def verdict(self):
        if self.bad:
            return False
        if self.unrec or not self.n:
            return None
        return True

    def tail(self):
        if self.bad:
            return " -- contradicted for " + "; ".join(self.bad[:3]) + (" (+%d more)" % (len(self.bad) - 3) if len(self.bad) > 3 else "")
        if self.unrec:
            return " -- the model evaluation could not follow the code: " + self.unrec[0]
        return " (%d model inputs)" % self.n


def _emit(chk, rule, key, agg, where, msg):
    chk.ob(rule, key, agg.verdict(), where, msg + agg.tail())


_interps = {}


def _interp(repo, host):
    k = (id(repo), host)
    if k not in _interps:
        _interps[k] = Interp(repo, host)
    return _interps[k]


def _note_units(chk, repo):
    for h in HOSTS:
        for q in sorted(_interp(repo, h).visited):
            chk.analysed_unit(q)


def _conv_case(repo, fi, host, dtype, inplace, keep, pass_flags=True, count="pos"):
    """evaluate converter fi on a fresh model array; -> (status, array, result, text)"""
    a = mk_array(host, dtype, count)
    kw = {"inplace": inplace, "keep_dtype": keep} if pass_flags else {}
    del _LIB_NOTES[:]
    st, r = _interp(repo, host).run(fi, [a], kw)
    a.lib_notes = list(_LIB_NOTES)
    return st, a, r


def _conv_cases(repo, fi, host, dtype, inplace, keep, pass_flags=True):
    """_conv_case for every element-count class the analysed code tells apart: an array all of whose axes are non-empty, and --
    when the evaluation on that one looked at the element count (size, nbytes, len(), shape) -- arrays without elements too.
    Code that never looks at the count does the same on all of them.  -> (count class, status, array, result)"""
    st, a, r = _conv_case(repo, fi, host, dtype, inplace, keep, pass_flags)
    yield "pos", st, a, r
    if a.count.read:
        for c in COUNTS[1:]:
            st, a, r = _conv_case(repo, fi, host, dtype, inplace, keep, pass_flags, c)
            yield c, st, a, r


def _declares(arr, target):
    """every field with a byte order is declared in the target order"""
    return not (arr.dtype.orders() - {target})


def r16_2(chk, repo):
    """byteswap(array, inplace, keep_dtype): one swap of the bytes, in the caller's buffer exactly when inplace; the dtype of the
    object holding the swapped bytes is the input dtype with every field's order flipped exactly when keep_dtype is off"""
    fi = repo.func(NU + "byteswap")
    keys = ["dtype-flip-present", "flip-iff-not-keep_dtype", "flip-is-newbyteorder-of-own-dtype", "single-swap-with-inplace-flag",
            "flip-applies-to-swap-result"]
    agg = {k: _Agg() for k in keys}
    for host in HOSTS:
        dts = [mk_plain(host, o) for o in ORDERS] + [mk_dtype(host, lay, o) for o in ORDERS for lay in ("X", "NX", "BXN", "NV", "XW")]
        dts += [d for o in ORDERS for code in CODES_ORDERED if code != "f8" for d in mk_typed(host, o, code)]
        for d0 in dts:
            for inplace in (False, True):
                for keep in (False, True):
                    for cnt, st, a, r in _conv_cases(repo, fi, host, d0, inplace, keep):
                        what = "byteswap(<array of %r>%s, inplace=%s, keep_dtype=%s) on a %s-endian host" % (d0, _COUNT_TEXT[cnt], inplace, keep, _hostname(host))
                        if st == "unrec":
                            for k in keys:
                                agg[k].add(None, "%s: %s" % (what, r))
                            continue
                        if st == "raise" or not isinstance(r, MArray):
                            for k in keys:
                                agg[k].add(False, "%s: %s" % (what, "raises " + r if st == "raise" else "returns %r" % (r,)))
                            continue
                        flipped = d0.newbyteorder("S")
                        if not keep:
                            agg["dtype-flip-present"].add(r.dtype != d0, what + ": the result still declares %r" % (r.dtype,))
                        agg["flip-iff-not-keep_dtype"].add((r.dtype == d0) == keep, what + ": result dtype %r" % (r.dtype,))
                        if not keep:
                            agg["flip-is-newbyteorder-of-own-dtype"].add(r.dtype == flipped, what + ": result dtype %r, wanted %r" % (r.dtype, flipped))
                        if cnt != "pos":
                            # nothing to swap in an array without elements: what remains is whose buffer the result has and what
                            # the result (and, in place, the caller's array) declares
                            agg["single-swap-with-inplace-flag"].add((r.buf is a.buf) == inplace, what + ": the result %s the caller's buffer"
                                                                     % ("shares" if r.buf is a.buf else "does not share"))
                            ok = a.dtype == (d0 if keep or not inplace else flipped)
                            agg["flip-applies-to-swap-result"].add(ok, what + ": the caller's array now declares %r" % (a.dtype,))
                            continue
                        ok = r.buf.swaps == 1 and (r.buf is a.buf) == inplace and a.buf.swaps == (1 if inplace else 0)
                        agg["single-swap-with-inplace-flag"].add(ok, what + ": result bytes swapped %d time(s), caller's buffer %d time(s), result %s the caller's buffer"
                                                                 % (r.buf.swaps, a.buf.swaps, "shares" if r.buf is a.buf else "does not share"))
                        if not keep:
                            ok = r.consistent() and (not inplace or a.consistent())
                            agg["flip-applies-to-swap-result"].add(ok, what + ": %s" % ("the result" if not r.consistent() else "the caller's array")
                                                                   + " declares an order that is not the order of its bytes")
                        else:
                            agg["flip-applies-to-swap-result"].add(a.dtype == d0, what + ": the caller's dtype was changed")
    w = fi.where()
    _emit(chk, "R16.2", "byteswap::dtype-flip-present", agg["dtype-flip-present"], w, "with keep_dtype off the result declares another order than the input")
    _emit(chk, "R16.2", "byteswap::flip-iff-not-keep_dtype", agg["flip-iff-not-keep_dtype"], w, "the dtype is flipped exactly when keep_dtype is off")
    _emit(chk, "R16.2", "byteswap::flip-is-newbyteorder-of-own-dtype", agg["flip-is-newbyteorder-of-own-dtype"], w,
          "the new dtype is the input dtype with the order of every field swapped (names, types, shapes kept)")
    _emit(chk, "R16.2", "byteswap::single-swap-with-inplace-flag", agg["single-swap-with-inplace-flag"], w,
          "the bytes are swapped exactly once, in the caller's buffer exactly when inplace is on")
    _emit(chk, "R16.2", "byteswap::flip-applies-to-swap-result", agg["flip-applies-to-swap-result"], w,
          "the dtype flip is applied to the object(s) holding the swapped bytes (the returned array, and the caller's array when in place)")
    _note_units(chk, repo)


TARGET = {"to_big_endian": "B", "to_little_endian": "L"}
OPPOSITE = {"to_big_endian": "is_little_endian", "to_little_endian": "is_big_endian"}


def _decision_cases(chk, repo, fi, target_of, run_one, layouts, orders=ORDERS):
    """-> list of (layout, host, order, need_swap, ok / None, text)"""
    out = []
    for host in HOSTS:
        target = target_of(host)
        for order in orders:
            for lay in layouts:
                d0 = mk_dtype(host, lay, order) if lay != "plain" else mk_plain(host, order)
                need = _resolve(order, host) != target
                ok, text = run_one(host, d0, target)
                out.append((lay, host, order, need, ok, text))
    return out


def _bytes_in_target(repo, fi, combos, pass_flags=True):
    """run_one for a converter: after the call the bytes of the result are in the target order, whatever the option flags, and
    unless the dtype is kept the result declares the target order -- which is all there is to see of the conversion of an array
    without elements.  A contradiction on one input is the verdict even if the evaluation left the model on another."""
    def run_one(host, d0, target):
        unrec = None
        for inplace, keep in combos:
            for cnt, st, a, r in _conv_cases(repo, fi, host, d0, inplace, keep, pass_flags):
                res = r if pass_flags else a
                what = "%s(<array of %r>%s%s) on a %s-endian host" % (fi.name, d0, _COUNT_TEXT[cnt], ", inplace=%s, keep_dtype=%s" % (inplace, keep) if pass_flags else "",
                                                                      _hostname(host))
                if st == "unrec":
                    unrec = unrec or "%s: %s" % (what, r)
                    continue
                if st == "raise":
                    return False, "%s raises %s" % (what, r)
                if not isinstance(res, MArray):
                    return False, "%s returns %r" % (what, res)
                if cnt == "pos" and res.buf.order() != target:
                    return False, "%s leaves the data %s-endian%s" % (what, "big" if res.buf.order() == "B" else "little", _lib_notes(a))
                if not keep and not _declares(res, target):
                    return False, "%s returns an array whose dtype %r does not declare the requested (%s-endian) order" % (what, res.dtype, "big" if target == "B" else "little")
        if unrec is not None:
            return None, unrec
        return True, ""
    return run_one


COMBOS = ((False, False), (True, True), (True, False), (False, True))


def r16_3(chk, repo):
    """the swap decision of the three converters on structured arrays, decided by evaluation over the model: after the call the
    data are in the requested order for every field layout, declared-order spelling and host"""
    for name in ("to_big_endian", "to_little_endian", "to_native"):
        fi = repo.func(NU + name)
        target_of = (lambda host, n=name: TARGET[n]) if name in TARGET else (lambda host: "L" if host else "B")
        run_one = _bytes_in_target(repo, fi, COMBOS)
        w = fi.where()
        a_found, a_pos, a_arg, a_opp, a_plain = _Agg(), _Agg(), _Agg(), _Agg(), _Agg()
        for lay, host, order, need, ok, text in _decision_cases(chk, repo, fi, target_of, run_one, LAYOUTS_NEUTRAL):
            (a_found if need else a_pos).add(ok, text)
        for lay, host, order, need, ok, text in _decision_cases(chk, repo, fi, target_of, run_one, LAYOUTS_SUB):
            a_arg.add(ok, text)
        for lay, host, order, need, ok, text in _decision_cases(chk, repo, fi, target_of, run_one, LAYOUTS_PLAIN):
            a_opp.add(ok, text)
        for lay, host, order, need, ok, text in _decision_cases(chk, repo, fi, target_of, run_one, ("plain",)):
            a_plain.add(ok, text)
        _emit(chk, "R16.3", "%s::field-loop-found" % name, a_found, w,
              "every field of a structured array is considered: data in the other order are swapped wherever the first field with a byte order sits")
        _emit(chk, "R16.3", "%s::field-decision-is-positive" % name, a_pos, w,
              "the decision rests on a positive predicate result: string and one-byte fields are neither order (the predicates are two-valued "
              "over a three-valued domain), so data already in the requested order are not swapped because of them")
        _emit(chk, "R16.3", "%s::field-decision-argument" % name, a_arg, w,
              "the order examined is that of the field itself, for sub-array fields the order of their items")
        if name in OPPOSITE:
            _emit(chk, "R16.3", "%s::field-decision-uses-opposite-order" % name, a_opp, w,
                  "a swap happens exactly when the fields are declared in the opposite order (%s)" % OPPOSITE[name])
        else:
            _emit(chk, "R16.3", "to_native::field-decision-detects-little", a_opp, w,
                  "to_native swaps exactly when the declared order of the fields is not the host's")
        _emit(chk, "R16.3", "%s::plain-array-decision" % name, a_plain, w, "a plain array is swapped exactly when its declared order is not the requested one")
        a_kind = _Agg()
        _kind_cases(target_of, run_one, a_kind)
        _emit(chk, "R16.3", "%s::every-numeric-kind-and-size" % name, a_kind, w, _KIND_MSG)
    _note_units(chk, repo)


def _forwarding_by_model(chk, repo, name):
    """R16.1e when the call of byteswap is not in the converter's own body: the options arrive at the swap"""
    fi = repo.func(NU + name)
    agg = _Agg()
    for host in HOSTS:
        target = TARGET.get(name, "L" if host else "B")
        for order in ORDERS:
            if _resolve(order, host) == target:
                continue
            for inplace, keep in COMBOS:
                d0 = mk_plain(host, order)
                for cnt, st, a, r in _conv_cases(repo, fi, host, d0, inplace, keep):
                    what = "%s(<array of %r>%s, inplace=%s, keep_dtype=%s) on a %s-endian host" % (name, d0, _COUNT_TEXT[cnt], inplace, keep, _hostname(host))
                    if st == "unrec":
                        agg.add(None, "%s: %s" % (what, r))
                    elif st == "raise" or not isinstance(r, MArray):
                        agg.add(False, what + (" raises " + r if st == "raise" else " returns %r" % (r,)))
                    else:
                        agg.add((r.buf is a.buf) == inplace and (r.dtype == d0) == keep, what + ": result dtype %r, %s the caller's buffer"
                                % (r.dtype, "in" if r.buf is a.buf else "not in"))
    _emit(chk, "R16.1e", "%s::forwards-options" % name, agg, fi.where(), "%s forwards (array, inplace, keep_dtype) to the swap unchanged" % name)


def r16_4(chk, repo):
    """decision tables of the endianness predicates over the four order spellings x host order, by evaluation of the predicate
    (through whatever helpers it calls) on the model"""
    preds = [(NU + "is_big_endian", "big", "array"), (NU + "is_little_endian", "little", "array"),
             ("esutil.recfile.Util.is_little_endian", "little", "dtype")]
    for q, kind, takes in preds:
        fi = repo.func(q)
        chk.analysed_unit(q)

        def want(ch, host_little):
            if kind == "big":
                return ch == ">" or (ch == "=" and not host_little)
            return ch == "<" or (ch == "=" and host_little)

        def evaluate1(host, dt, count):
            arg = mk_array(host, dt, count) if takes == "array" else dt
            st, r = _interp(repo, host).run(fi, [arg])
            read = takes == "array" and arg.count.read
            if st == "unrec":
                return None, r, read
            if st == "raise":
                return "raises", r, read
            if _plain(r) and not isinstance(r, (list, dict, set)):
                return bool(r), repr(r), read
            return "other", repr(r), read

        def evaluate(host, dt):
            """the predicate's answer; when it looks at the element count, the answer it gives on every class of arrays (the
            declared order does not depend on how many elements there are): the first one that differs from the others"""
            got, text, read = evaluate1(host, dt, "pos")
            if read:
                for c in COUNTS[1:]:
                    g2, t2, _ = evaluate1(host, dt, c)
                    if g2 is not None and (got is None or g2 != got):
                        if got is not None:
                            return "other", "%s, but %s on an array%s" % (text, t2, _COUNT_TEXT[c])
                        got, text = g2, t2 + " on an array" + _COUNT_TEXT[c]
            return got, text

        base = _Agg()
        for host in HOSTS:
            for ch in ORDERS:
                sub = MDtype(host, sub=(MDtype(host, ch, "f8"), (3,)))
                got, text = evaluate(host, sub)
                base.add(None if got is None else got is want(ch, host),
                         "%s of a sub-array dtype of %r items on a %s-endian host gives %s" % (fi.name, ch + "f8", _hostname(host), text))
        _emit(chk, "R16.4", q + "::order-from-dtype-base", base, fi.where(),
              "the declared order is read from the dtype's base (sub-array dtypes report the order of their items)")
        kinds = _Agg()
        for host in HOSTS:
            for code in CODES_ORDERED + CODES_NEUTRAL:
                for ch in (ORDERS if code in CODES_ORDERED else ("|",)):
                    for dt in (MDtype(host, ch, code), MDtype(host, sub=(MDtype(host, ch, code), (2,)))):
                        got, text = evaluate(host, dt)
                        kinds.add(None if got is None else got is want(ch, host),
                                  "%s of %r on a %s-endian host gives %s, the dtype's declared order says %s" % (fi.name, dt, _hostname(host), text, want(ch, host)))
        _emit(chk, "R16.4", q + "::every-kind-and-size", kinds, fi.where(),
              "the predicate agrees with the dtype's declared order for every kind and item size (integer, unsigned, float, complex; string, "
              "boolean and one-byte types are neither order): it depends on the order character only")
        for host in HOSTS:
            for ch in ("<", ">", "=", "|"):
                got, text = evaluate(host, mk_plain(host, ch))
                w = want(ch, host)
                chk.ob("R16.4", "%s[host=%s,order=%r]" % (q, _hostname(host), ch), None if got is None else got is w, fi.where(),
                       "%s on a %s-endian host for declared order %r must be %s (evaluation on the model gives %s)" % (fi.name, _hostname(host), ch, w, text))
    _note_units(chk, repo)


def _descr_kind(e, fn, depth=0):
    """'dtype' / 'descr' / None: what an argument expression is, read off the attribute it ends in (`<x>.dtype`,
    `<x>.dtype.descr`, `<x>.descr`), following local names to every value assigned to them in the function"""
    if isinstance(e, ast.Attribute) and e.attr in ("dtype", "descr"):
        return e.attr
    if isinstance(e, ast.Name) and depth < 4:
        kinds = set()
        for x in walk_no_nested(fn):
            if isinstance(x, ast.Assign) and any(isinstance(t, ast.Name) and t.id == e.id for t in x.targets):
                kinds.add(_descr_kind(x.value, fn, depth + 1))
        kinds.discard("call")
        if len(kinds) == 1:
            return kinds.pop()
        return None
    if isinstance(e, ast.Call):
        return "call"          # the result of a stripper assigned back to the same name
    return None


def _header_strippers(repo):
    """-> ([(qualname, 'dtype' | 'descr')], '') for the repository functions that the value SFile._make_header stores under
    the header key "_DTYPE" is passed through, found by data flow from that store; (None, why) when that is not recognised"""
    fi = repo.func("esutil.sfile.SFile._make_header")
    fn = fi.node
    stores = [x for x in walk_no_nested(fn) if isinstance(x, ast.Assign) for t in x.targets
              if isinstance(t, ast.Subscript) and isinstance(t.slice, ast.Constant) and t.slice.value == "_DTYPE"]
    if not stores:
        return None, "no store to the header key \"_DTYPE\" found in %s" % fi.qualname
    todo, seen, calls = [st.value for st in stores], set(), []
    while todo:
        e = todo.pop()
        for x in ast.walk(e):
            if isinstance(x, ast.Call):
                calls.append(x)
            elif isinstance(x, ast.Name) and x.id not in seen:
                seen.add(x.id)
                for y in walk_no_nested(fn):
                    if isinstance(y, ast.Assign) and any(isinstance(t, ast.Name) and t.id == x.id for t in y.targets):
                        todo.append(y.value)
    out = []
    for c in calls:
        f = c.func
        callee = None
        if isinstance(f, ast.Attribute) and isinstance(f.value, ast.Name) and f.value.id == "self":
            callee = fi.module.funcs.get("%s.%s" % (fi.cls, f.attr))
        else:
            from vcheck.core import dotted_name
            d = dotted_name(f)
            if d:
                callee = repo.funcs.get(repo.resolve_name(fi.module, d))
        if callee is None:
            continue
        args = list(c.args) + [k.value for k in c.keywords if k.arg is not None]
        kind = _descr_kind(args[0], fn) if len(args) == 1 else None
        if kind not in ("dtype", "descr"):
            return None, "what %s passes to %s is not recognised as a dtype or a descriptor" % (fi.qualname, callee.qualname)
        if (callee.qualname, kind) not in out:
            out.append((callee.qualname, kind))
    if not out:
        return None, "no call of a repository function on the way to the header key \"_DTYPE\" in %s" % fi.qualname
    return out, ""


def r16_5(chk, repo):
    """the descriptor strippers: result = one tuple per input entry, in order, with name and shape kept and the type string
    without its first (order) character; the caller's descriptor is left alone"""
    strippers = [("esutil.numpy_util.descr_to_native", "descr"), ("esutil.recfile.Util.remove_dtype_byteorder", "dtype")]
    # the third one is whatever strips the descriptor that SFile writes into the header of a text file (a private helper of
    # SFile, or one of the two above)
    found, why = _header_strippers(repo)
    if found is None:
        chk.ob("R16.5", "esutil.sfile.SFile._make_header::text-header-stripper", None, repo.func("esutil.sfile.SFile._make_header").where(),
               "the descriptor stored under _DTYPE in the header of a text file goes through a descriptor stripper -- " + why)
    else:
        strippers += [x for x in found if x not in strippers]
    for q, takes in strippers:
        fi = repo.func(q)
        chk.analysed_unit(q)
        a_loop, a_strip, a_keep, a_one = _Agg(), _Agg(), _Agg(), _Agg()
        for host in HOSTS:
            for order in ORDERS:
                for lay in ("X", "NX", "XVN", "BWX", "NVWXB"):
                    dt = mk_dtype(host, lay, order)
                    descr = dt.descr()
                    before = _c.deepcopy(descr)
                    arg = dt if takes == "dtype" else descr
                    st, r = _interp(repo, host).run(fi, [arg])
                    what = "%s(%s)" % (fi.name, before)
                    if st == "unrec":
                        for a in (a_loop, a_strip, a_keep, a_one):
                            a.add(None, "%s: %s" % (what, r))
                        continue
                    if st == "raise" or not isinstance(r, list) or not all(isinstance(x, (tuple, list)) and len(x) >= 2 for x in r):
                        for a in (a_loop, a_strip, a_keep, a_one):
                            a.add(False, what + (" raises " + r if st == "raise" else " returns %r" % (r,)))
                        continue
                    a_one.add(len(r) == len(before), what + " returns %d entries for %d fields" % (len(r), len(before)))
                    a_loop.add([x[0] for x in r] == [x[0] for x in before], what + " returns the fields %s" % [x[0] for x in r])
                    pairs = list(zip(r, before))
                    a_strip.add(all(x[1] == b[1][1:] for x, b in pairs), what + " returns the type strings %s" % [x[1] for x in r])
                    a_keep.add(all(isinstance(x, tuple) and x[0] == b[0] and tuple(x[2:]) == tuple(b[2:]) for x, b in pairs) and descr == before,
                               what + (" returns %r" % (r,) if descr == before else " modifies the caller's descriptor"))
        w = fi.where()
        _emit(chk, "R16.5", q + "::loops-over-descr", a_loop, w, "iterates the descriptor entries in order")
        _emit(chk, "R16.5", q + "::drops-order-character-only", a_strip, w, "the type string keeps everything after its first (order) character: <entry>[1][1:]")
        _emit(chk, "R16.5", q + "::keeps-name-and-shape", a_keep, w, "field name and sub-array shape are carried over unchanged, as tuples, without touching the input")
        _emit(chk, "R16.5", q + "::one-entry-per-field", a_one, w, "one output entry per input entry")
    _note_units(chk, repo)


def r16_6(chk, repo, rule="R16.6", only=None):
    """both to-native implementations: the bytes end up in host order for every declared order, field layout and host, i.e. a
    swap happens exactly when host order and data order differ"""
    impls = [("esutil.numpy_util.to_native", True), ("esutil.recfile.Util.to_native_inplace", False)]
    native = lambda host: "L" if host else "B"
    for q, flags in impls:
        if only is not None and q != only:
            continue
        fi = repo.func(q)
        chk.analysed_unit(q)
        run_one = _bytes_in_target(repo, fi, COMBOS if flags else ((True, False),), pass_flags=flags)
        w = fi.where()
        a_xor, a_data, a_host = _Agg(), _Agg(), _Agg()
        plain = _decision_cases(chk, repo, fi, native, run_one, ("plain",))
        for lay, host, order, need, ok, text in plain:
            a_xor.add(ok, text)
        for lay, host, order, need, ok, text in _decision_cases(chk, repo, fi, native, run_one, LAYOUTS_PLAIN + LAYOUTS_NEUTRAL + LAYOUTS_SUB):
            a_data.add(ok, text)
        # the decision follows the host: the same explicitly ordered data are swapped on exactly one of the two hosts
        for order in ("<", ">"):
            res = {}
            for host in HOSTS:
                d0 = mk_plain(host, order)
                st, a, r = _conv_case(repo, fi, host, d0, True, True, flags)
                if st != "ok":
                    res[host] = None
                    a_host.add(None if st == "unrec" else False, "%s(<array of %r>) on a %s-endian host: %s" % (fi.name, d0, _hostname(host), r))
                else:
                    res[host] = a.buf.swaps % 2
            if None not in res.values():
                a_host.add(res[True] != res[False] and res[True] == (order == ">"),
                           "%s of %r data swaps %s on a little-endian and %s on a big-endian host" % (fi.name, order, bool(res[True]), bool(res[False])))
        _emit(chk, rule, q + "::swap-iff-host-xor-data", a_xor, w, "swap exactly when host order and data order differ")
        _emit(chk, rule, q + "::data-order-flag", a_data, w, "the data order of a structured array is that of its fields with a byte order (any position, "
              "sub-array items included); string and one-byte fields do not count")
        _emit(chk, rule, q + "::host-order-flag", a_host, w, "the host order is taken from numpy.little_endian")
        if not flags:           # numpy_util.to_native: R16.3 to_native::every-numeric-kind-and-size
            a_kind = _Agg()
            _kind_cases(native, run_one, a_kind)
            _emit(chk, rule, q + "::every-numeric-kind-and-size", a_kind, w, _KIND_MSG)
    # recfile's in-place converter: swap in place and flip dtype together
    fi = repo.func("esutil.recfile.Util.to_native_inplace")
    agg = _Agg()
    for host in HOSTS:
        for order in ORDERS:
            for lay in ("plain", "X", "NX", "VB"):
                d0 = mk_dtype(host, lay, order) if lay != "plain" else mk_plain(host, order)
                for cnt, st, a, r in _conv_cases(repo, fi, host, d0, True, False, False):
                    what = "to_native_inplace(<array of %r>%s) on a %s-endian host" % (d0, _COUNT_TEXT[cnt], _hostname(host))
                    if st != "ok":
                        agg.add(None if st == "unrec" else False, "%s: %s" % (what, r))
                        continue
                    need = _resolve(order, host) != native(host)
                    ok = a.dtype == (d0.newbyteorder("S") if need else d0)
                    if cnt == "pos":
                        ok = ok and a.buf.swaps == (1 if need else 0) and a.consistent()
                    agg.add(ok, what + ": caller's buffer swapped %d time(s), dtype now %r%s" % (a.buf.swaps, a.dtype, _lib_notes(a)))
    _emit(chk, rule, fi.qualname + "::swap-and-flip-paired", agg, fi.where(),
          "the swap happens in the caller's buffer and the caller's dtype is flipped together with it (and neither when the data are native)")
    _note_units(chk, repo)
