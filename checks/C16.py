"""C16 -- byte-order conversion preserves values and declares the requested order.

R16.1 copy / in-place discipline per (converter x inplace x keep_dtype) via the
effect analysis; R16.2 swap <-> dtype-flip pairing; R16.3 decision polarity in
field loops; R16.4 predicate decision tables over the four machine-order
spellings x host order; R16.5 descriptor strippers; R16.6 the two to-native
implementations agree.
"""
import ast

from vcheck import effects, rules
from vcheck.cfg import eval_test
from vcheck.core import PyRepo, AnalysisError, call_name, dotted_name, kwarg, norm, walk_no_nested
from vcheck.ctable import c_summaries
from vcheck.rules import cfg_of

MANIFEST = dict(
    text="Structural rule checking (not a behavioural proof): (1) effect/alias analysis specialised on every (converter, inplace, "
         "keep_dtype) combination decides that inplace=False returns a fresh object on every path (including the nothing-to-swap "
         "path) and never writes the argument, and that inplace=True returns the argument itself on every path; (2) the dtype flip "
         "is control dependent on exactly `not keep_dtype` and paired with the swap; (3) in structured-array field loops the swap "
         "decision rests on a positive result of the opposite-order predicate (string and one-byte fields are neither order); "
         "(4) the endianness predicates are evaluated exhaustively over {'<','>','=','|'} x host order and compared with the "
         "decision table; (5) the three descriptor strippers drop exactly the order character and keep name and shape; (6) both "
         "to-native implementations swap iff machine order xor data order.",
    note="Not decided: numpy's byteswap/newbyteorder semantics (trusted), value preservation numerically. Arrays whose multi-byte "
         "fields share one order are assumed (property quantifier).",
    technique="static analysis: flag-specialised alias/effect analysis, control-dependence rules, exhaustive abstract evaluation of predicates over a finite domain",
)

NU = "esutil.numpy_util."
CONVERTERS = ["to_native", "to_big_endian", "to_little_endian", "byteswap"]


# rules that keep their verdict however the code is laid out (decided by term equality, effect analysis or dominance over
# resolved calls); every other rule of this check is a template rule (vcheck.core.Check.obt)
SEMANTIC = ('R16.1a', 'R16.1b', 'R16.1c', 'R16.1d', 'R16.2', 'R16.3', 'R16.6')


def run(chk):
    repo = PyRepo()
    chk.set_templates(repo, semantic=SEMANTIC)
    eng = effects.Effects(repo, c_summaries())
    chk.explanation = MANIFEST["text"]
    chk.trusted = ["ndarray.byteswap / dtype.newbyteorder semantics", "library semantics table", "CPython ast"]
    chk.assume("multi-byte fields of a structured array share one byte order (property quantifier)")
    chk.floor = 60
    r16_1(chk, repo, eng)
    r16_2(chk, repo)
    r16_3(chk, repo)
    r16_4(chk, repo)
    r16_5(chk, repo)
    r16_6(chk, repo)


def r16_1(chk, repo, eng):
    import checks.C15 as C15
    for name in CONVERTERS:
        fi = repo.func(NU + name)
        chk.analysed_unit(fi.qualname)
        for inplace in (False, True):
            for keep in (False, True):
                flags = {"inplace": inplace, "keep_dtype": keep}
                rets = effects.return_tags_per_return(eng, fi, flags)
                s = C15.analyse_with_arrays(eng, fi, ["array"], flags)
                tag = "%s[inplace=%s,keep_dtype=%s]" % (name, inplace, keep)
                if not rets:
                    raise AnalysisError("no return found in %s" % fi.qualname)
                for n, tags in rets:
                    ptags = [t for t in tags if t[0] == "P" and t[1] == "array"]
                    if not inplace:
                        chk.ob("R16.1a", "%s::return-fresh::%s" % (tag, norm(n.ast.value)), not ptags, fi.where(n.ast),
                               "with inplace off `return %s` yields an independent copy on this path%s"
                               % (norm(n.ast.value), "" if not ptags else ": it may be (a view of) the argument"))
                    else:
                        same = bool(ptags) and all(t[2] == "same" for t in ptags) and effects.FRESH not in tags
                        chk.ob("R16.1b", "%s::return-is-argument::%s" % (tag, norm(n.ast.value)), same, fi.where(n.ast),
                               "with inplace on `return %s` is the caller's object itself on this path (tags %s)" % (norm(n.ast.value), sorted(tags)))
                sites = [st for st in s.mut.get("array", []) if st.kind in ("data", "meta")]
                if not inplace:
                    chk.ob("R16.1c", "%s::argument-unmodified" % tag, not sites, fi.where(),
                           "with inplace off nothing writes the argument%s" % ("" if not sites else ": " + sites[0].describe()))
                else:
                    # in place: the swap (when needed) happens in the caller's buffer
                    if name == "byteswap":
                        chk.ob("R16.1d", "%s::swaps-in-callers-buffer" % tag, any(st.kind == "data" for st in sites), fi.where(),
                               "with inplace on the swap is applied to the caller's buffer")
                        if not keep:
                            chk.ob("R16.1d", "%s::flips-callers-dtype" % tag, any(st.kind == "meta" for st in sites), fi.where(),
                                   "with inplace on and keep_dtype off the caller's dtype is updated")
                        else:
                            chk.ob("R16.1d", "%s::keeps-callers-dtype" % tag, not any(st.kind == "meta" for st in sites), fi.where(),
                                   "with keep_dtype on the dtype is left alone")
    # forwarding of the two options into the shared swapper
    for name in CONVERTERS[:3]:
        fi = repo.func(NU + name)
        for x in walk_no_nested(fi.node):
            if isinstance(x, ast.Call) and call_name(x) == "byteswap" and isinstance(x.func, ast.Name):
                a_ok = x.args and norm(x.args[0]) == "array"
                ip = x.args[1] if len(x.args) > 1 else kwarg(x, "inplace")
                kd = x.args[2] if len(x.args) > 2 else kwarg(x, "keep_dtype")
                chk.ob("R16.1e", "%s::forwards-options" % name, bool(a_ok) and ip is not None and norm(ip) == "inplace" and kd is not None and norm(kd) == "keep_dtype",
                       fi.where(x), "%s forwards (array, inplace, keep_dtype) to byteswap unchanged" % name)


def r16_2(chk, repo):
    fi = repo.func(NU + "byteswap")
    cfg = cfg_of(fi)
    view = cfg.view()
    flips = [n for n in cfg.nodes if n.kind == "stmt" and isinstance(n.ast, ast.Assign) and isinstance(n.ast.targets[0], ast.Attribute)
             and n.ast.targets[0].attr == "dtype"]
    chk.ob("R16.2", "byteswap::dtype-flip-present", len(flips) == 1, fi.where(), "exactly one dtype flip statement")
    for n in flips:
        ts = rules.controlling_tests(view, n)
        ok = ts in ([("not keep_dtype", "T")], [("keep_dtype", "F")])
        chk.ob("R16.2", "byteswap::flip-iff-not-keep_dtype", ok, fi.where(n.ast), "the dtype flip is controlled by exactly `not keep_dtype` (found %s)" % ts)
        v = n.ast.value
        ok = isinstance(v, ast.Call) and call_name(v) == "newbyteorder" and not v.args and norm(v.func.value) == norm(n.ast.targets[0])
        chk.ob("R16.2", "byteswap::flip-is-newbyteorder-of-own-dtype", ok, fi.where(n.ast),
               "the new dtype is <result>.dtype.newbyteorder() (swap of every field's order): %s" % norm(n.ast))
    swaps = [x for x in walk_no_nested(fi.node) if isinstance(x, ast.Call) and call_name(x) == "byteswap" and isinstance(x.func, ast.Attribute)]
    ok = len(swaps) == 1 and norm(swaps[0].func.value) == "array" and swaps[0].args and norm(swaps[0].args[0]) == "inplace"
    chk.ob("R16.2", "byteswap::single-swap-with-inplace-flag", ok, fi.where(), "exactly one array.byteswap(inplace) call")
    # the flipped object is the swap result
    if flips and swaps:
        tgt = norm(flips[0].ast.targets[0].value)
        src = [x for x in walk_no_nested(fi.node) if isinstance(x, ast.Assign) and x.value is swaps[0]]
        chk.ob("R16.2", "byteswap::flip-applies-to-swap-result", bool(src) and norm(src[0].targets[0]) == tgt, fi.where(),
               "the dtype flip is applied to the object returned by the swap")


OPPOSITE = {"to_big_endian": "is_little_endian", "to_little_endian": "is_big_endian"}


def r16_3(chk, repo):
    for name in ("to_big_endian", "to_little_endian", "to_native"):
        fi = repo.func(NU + name)
        loops = [x for x in walk_no_nested(fi.node) if isinstance(x, ast.For) and "dtype.names" in norm(x.iter)]
        chk.ob("R16.3", "%s::field-loop-found" % name, len(loops) == 1, fi.where(), "loop over the fields of a structured array")
        for lp in loops:
            for st in ast.walk(lp):
                if isinstance(st, ast.If):
                    t = st.test
                    neg = isinstance(t, ast.UnaryOp) and isinstance(t.op, ast.Not)
                    inner = t.operand if neg else t
                    pred = call_name(inner) if isinstance(inner, ast.Call) else None
                    sets = [norm(b) for b in st.body if isinstance(b, ast.Assign)]
                    chk.ob("R16.3", "%s::field-decision-is-positive" % name, (not neg) and pred in ("is_little_endian", "is_big_endian"),
                           fi.where(st), "inside the field loop the decision `%s` must rest on a positive predicate result: the predicates are "
                           "two-valued over a three-valued domain (big, little, neither), so `not is_X` also holds for string and one-byte fields"
                           % norm(t))
                    if name in OPPOSITE and not neg:
                        chk.ob("R16.3", "%s::field-decision-uses-opposite-order" % name, pred == OPPOSITE[name] and any("doswap = True" == s for s in sets),
                               fi.where(st), "a swap is needed when some field is declared in the opposite order (%s)" % OPPOSITE[name])
                    if name == "to_native" and not neg:
                        chk.ob("R16.3", "to_native::field-decision-detects-little", pred == "is_little_endian" and any("data_little = True" == s for s in sets),
                               fi.where(st), "to_native detects little-endian data by a positive is_little_endian result")
                    # argument is the field of this iteration
                    if isinstance(inner, ast.Call) and inner.args:
                        chk.ob("R16.3", "%s::field-decision-argument" % name, norm(inner.args[0]) == "array[%s]" % norm(lp.target), fi.where(st),
                               "the predicate is applied to the field of the current iteration")


def _const_eval_fn(fi, flags):
    """value of the returned boolean expression of a predicate function under literal flags; locals assigned constants are propagated"""
    cfg = cfg_of(fi)
    v = cfg.specialise(flags=flags)
    IN, _ = v.reaching_defs()
    out = []
    for n in v.nodes():
        if n.kind == "return" and n.ast.value is not None:
            fl = dict(flags)
            for name in {x.id for x in ast.walk(n.ast.value) if isinstance(x, ast.Name)}:
                defs = IN[n.id].get(name, set())
                vals = set()
                for d in defs:
                    dn = cfg.node(d)
                    if isinstance(dn.ast, ast.Assign) and isinstance(dn.ast.value, ast.Constant):
                        vals.add(dn.ast.value.value)
                    else:
                        vals.add("?")
                if len(vals) == 1 and "?" not in vals:
                    fl[name] = next(iter(vals))
            out.append(eval_test(n.ast.value, fl))
    return out


def r16_4(chk, repo):
    preds = [(NU + "is_big_endian", "big", "array.dtype.base.byteorder"), (NU + "is_little_endian", "little", "array.dtype.base.byteorder"),
             ("esutil.recfile.Util.is_little_endian", "little", "dtype.base.byteorder")]
    for q, kind, src in preds:
        fi = repo.func(q)
        chk.analysed_unit(q)
        # the order character comes from the dtype's base (sub-array fields report their element order)
        bo = [x for x in walk_no_nested(fi.node) if isinstance(x, ast.Assign) and norm(x.targets[0]) == "byteorder"]
        chk.ob("R16.4", q + "::order-from-dtype-base", len(bo) == 1 and norm(bo[0].value) == src, fi.where(),
               "the declared order is read from %s (found %s)" % (src, [norm(b.value) for b in bo]))
        for host_little in (True, False):
            for ch in ("<", ">", "=", "|"):
                got = _const_eval_fn(fi, {"np.little_endian": host_little, "numpy.little_endian": host_little, "byteorder": ch})
                if kind == "big":
                    want = ch == ">" or (ch == "=" and not host_little)
                else:
                    want = ch == "<" or (ch == "=" and host_little)
                chk.ob("R16.4", "%s[host=%s,order=%r]" % (q, "little" if host_little else "big", ch), got == [want], fi.where(),
                       "%s on a %s-endian host for declared order %r must be %s (abstract evaluation gives %s)"
                       % (fi.name, "little" if host_little else "big", ch, want, got))


def r16_5(chk, repo):
    strippers = [("esutil.numpy_util.descr_to_native", "descr"), ("esutil.recfile.Util.remove_dtype_byteorder", "dtype.descr"),
                 ("esutil.sfile.SFile._remove_byteorder", "descr")]
    for q, it in strippers:
        fi = repo.func(q)
        chk.analysed_unit(q)
        loops = [x for x in walk_no_nested(fi.node) if isinstance(x, ast.For) and norm(x.iter) == it]
        chk.ob("R16.5", q + "::loops-over-descr", len(loops) == 1, fi.where(), "iterates the descriptor entries in order")
        if len(loops) != 1:
            continue
        lp = loops[0]
        d = norm(lp.target)
        # the type string loses exactly its first character
        strip_ok = False
        for x in ast.walk(lp):
            if isinstance(x, ast.Subscript) and isinstance(x.slice, ast.Slice) and x.slice.lower is not None and norm(x.slice.lower) == "1" \
                    and x.slice.upper is None and x.slice.step is None:
                base = norm(x.value)
                if base in ("%s[1]" % d, "nd[1]", "tdef", "newd[1]"):
                    strip_ok = True
        chk.ob("R16.5", q + "::drops-order-character-only", strip_ok, fi.where(lp), "the type string keeps everything after its first (order) character: <entry>[1][1:]")
        # name and shape survive: either the tuple is copied and only index 1 re-assigned, or rebuilt with [0] and [2]
        copied = any(isinstance(x, ast.Call) and call_name(x) in ("list", "deepcopy", "copy") and any(d in norm(a) for a in x.args) for x in ast.walk(lp))
        idx1_only = [norm(x.targets[0]) for x in ast.walk(lp) if isinstance(x, ast.Assign) and isinstance(x.targets[0], ast.Subscript)]
        rebuilt = [x for x in ast.walk(lp) if isinstance(x, ast.Tuple) and len(x.elts) in (2, 3) and norm(x.elts[0]) == d + "[0]"]
        ok = (copied and all(t.endswith("[1]") for t in idx1_only) and bool(idx1_only)) or \
            (any(len(t.elts) == 3 and norm(t.elts[2]) == d + "[2]" for t in rebuilt) and any(len(t.elts) == 2 for t in rebuilt))
        chk.ob("R16.5", q + "::keeps-name-and-shape", ok, fi.where(lp), "field name and sub-array shape are carried over unchanged")
        app = [x for x in ast.walk(lp) if isinstance(x, ast.Call) and call_name(x) == "append"]
        chk.ob("R16.5", q + "::one-entry-per-field", len(app) == 1 and not any(isinstance(x, (ast.Continue, ast.Break)) for x in ast.walk(lp)), fi.where(lp),
               "one output entry is appended per input entry, in order")


def r16_6(chk, repo, rule="R16.6", only=None):
    impls = [("esutil.numpy_util.to_native", "array[fname]"), ("esutil.recfile.Util.to_native_inplace", "array[fname].dtype")]
    for q, arg in impls:
        if only is not None and q != only:
            continue
        fi = repo.func(q)
        chk.analysed_unit(q)
        # swap decision = machine_little xor data_little
        conds = [n.ast.test for n in cfg_of(fi).nodes if n.kind == "branch" and "machine_little" in norm(n.ast.test) and "data_little" in norm(n.ast.test)]
        ok = False
        for t in conds:
            tt = norm(t).replace("(", "").replace(")", "")
            ok = ok or tt in ("machine_little and not data_little or not machine_little and data_little",
                              "machine_little != data_little", "data_little != machine_little")
        chk.ob(rule, q + "::swap-iff-host-xor-data", ok, fi.where(), "swap exactly when host order and data order differ (%s)" % [norm(c) for c in conds])
        # data_little starts False and is only set True on a positive is_little_endian
        sets = [(norm(x.targets[0]), norm(x.value)) for x in walk_no_nested(fi.node) if isinstance(x, ast.Assign) and norm(x.targets[0]) == "data_little"]
        ok = ("data_little", "False") in sets and set(v for _, v in sets) <= {"False", "True", "is_little_endian(array)", "is_little_endian(array.dtype)"}
        chk.ob(rule, q + "::data-order-flag", ok, fi.where(), "data_little defaults to False and is set from is_little_endian only (%s)" % sets)
        ml = _const_eval_flag(fi, "machine_little")
        chk.ob(rule, q + "::host-order-flag", ml == {True: True, False: False}, fi.where(), "machine_little mirrors numpy.little_endian (%s)" % ml)
    # recfile's in-place converter: swap in place and flip dtype together
    fi = repo.func("esutil.recfile.Util.to_native_inplace")
    calls = [x for x in walk_no_nested(fi.node) if isinstance(x, ast.Call) and call_name(x) == "byteswap"]
    ok = len(calls) == 1 and calls[0].args and norm(calls[0].args[0]) == "True"
    flips = [x for x in walk_no_nested(fi.node) if isinstance(x, ast.Assign) and isinstance(x.targets[0], ast.Attribute) and x.targets[0].attr == "dtype"]
    okf = len(flips) == 1 and isinstance(flips[0].value, ast.Call) and call_name(flips[0].value) == "newbyteorder"
    chk.ob(rule, fi.qualname + "::swap-and-flip-paired", ok and okf, fi.where(), "in-place swap and dtype flip occur together in the same branch")


def _const_eval_flag(fi, var):
    out = {}
    cfg = cfg_of(fi)
    for host in (True, False):
        v = cfg.specialise(flags={"np.little_endian": host, "numpy.little_endian": host})
        vals = set()
        for n in v.nodes():
            if n.kind == "stmt" and isinstance(n.ast, ast.Assign) and norm(n.ast.targets[0]) == var and isinstance(n.ast.value, ast.Constant):
                vals.add(n.ast.value.value)
        out[host] = next(iter(vals)) if len(vals) == 1 else vals
    return out
