"""C20 -- sorting, chunking and progress/parallel wrappers preserve items and order."""
import ast
import copy

import sympy as sp

from vcheck import rules
from vcheck.cfg import func_params
from vcheck.core import PyRepo, AnalysisError, FuncInfo, call_name, dotted_name, kwarg, norm, walk_no_nested
from vcheck.nullness import Nullness
from vcheck.rules import cfg_of

MANIFEST = dict(
    text="Structural rule checking (not a behavioural proof). Generator wrappers: a path rule on the loop body decides that every "
         "path from the loop head to the back edge yields exactly once, the loop's own item, that no other yield exists, that the "
         "wrapped iterable is iterated directly (never materialised) and that the loop has no early exit; public wrappers forward the "
         "iterable in role. Nullness analysis (interprocedural) decides that a total that may be None never reaches an ordering "
         "comparison or arithmetic without a dominating None test (method calls on an instance of a package class built in the function are "
         "followed as calls of that method); the same dataflow over the names that may be 0 decides that a total of 0 "
         "(empty iterable) is never a divisor before an item was drawn without a dominating zero-excluding test. Parallel map: what pmap returns is "
         "evaluated over a domain of ordered streams (items / consecutive chunks of the iterable, per-element terms, futures, containers; comprehensions, "
         "helper functions and helper generators of the package are followed) and must be the list of fn(x) over the items in input order, built inside "
         "the executor's with-block: from Executor.map, or from submit() with the futures kept in submission order and drained first-in first-out; "
         "completion-ordered collection APIs, LIFO draining and reordering are violations; a value-range analysis (reaching definitions, "
         "nproc >= 1, chunksize >= 1, len() >= 0 refined by the tests that control the use) decides that the worker count and chunk size handed to the "
         "executor are positive for every input, the empty one included. Early exits of the sorts: every test that lets a sort leave without its work call is "
         "solved as a condition on the number of elements n of the range and on the adjacent pairs it compares, and must imply n <= 1 or that all "
         "n-1 pairs of neighbouring keys are in order. Sorts: an anchored function that only delegates to a shared "
         "helper is read as the helper's body with the arguments substituted, statement-level helper procedures inlined and tests on a literal None "
         "decided; pending ranges kept on an explicit list worked off by a loop count as the ranges handed on. Key-value partition: every store to the key array is "
         "paired with the same-index store to the value array and the skeleton equals the plain partition; a typestate analysis of the vacated "
         "slot (path-wise over the CFG, with index equalities and flag values) decides for each array that every element store fills the slot "
         "whose element is held elsewhere and that the pivot taken out is stored back on every path to the return. Chunking: the section "
         "sizes, division points and (start, end) table of isplit are evaluated abstractly (runs of equal values, their cumulative sum, offsets "
         "into it; or, for division points written in closed form from an arange, the i-th point as a term, decided on both sides of i = r) "
         "and compared as integer terms with r sections of q+1 then nchunks-r of q (a running total carried through the filling loop is solved as the "
         "cumulative sum of its per-round increment, `x if i < r else y` giving two runs; stores through a field view kept under a name are stores "
         "into the table); a helper that only reads elements of an array it is passed leaves the vacated-slot state as it is; the list splitarray returns is read as a "
         "sequence (count, i-th element) whichever way it is built (loop-carried bounds with a constant step are solved in closed form) and "
         "compared with var[i*nper:(i+1)*nper], count ceil(size/nper); a list written out in place that splitarray returns early (`return [var]`, "
         "`return []`) must be the chunk list for every input that gets there: the tests on the way are solved over a six-way case split of all "
         "(size, nper) (size // nper = 0 | 1 | >= 2, size % nper = 0 | > 0) in which every term is affine. A bound the sorts move away from the split "
         "point may pass only positions whose KEY was compared equal to the pivot's key. Every use of pmap's iterable is classified (harmless, the "
         "executor's draw, consuming, unknown): nothing may run through it on a path that leads to the executor's draw (one-shot iterators). Helpers "
         "of the package are followed (yield from / for over a wrapping generator, helpers that return a possibly-None total, closures). "
         "prange: the body is summarised path by path with every parameter classed None / 0 / non-zero by the tests on the path; for each call form "
         "(1, 2, 3 arguments) that reaches a return the (start, stop, step) triple handed to range equals, as terms, the triple of the call. "
         "Fresh results: the anchored functions are not wrapped in a memoiser and the object isplit / splitarray / pmap return is neither read "
         "from nor stored in a container that outlives the call. Description text: a taint analysis from the `desc` parameter of the wrappers "
         "(through assignments, string building, attributes of package objects, package functions, nested functions and methods) decides that the "
         "caller's text never becomes (part of) a %-format template or the receiver of .format(). Row count of isplit: a count written with case "
         "distinctions (x if test else y, min / max, re-binding under a test) is compared with the requested nchunks case by case over all "
         "(num >= 0, nchunks >= 1), each case a conjunction of integer-linear constraints decided by Fourier-Motzkin elimination.",
    note="Not decided: that the partition-exchange sort sorts (a proof obligation about the algorithm), process scheduling (delegated "
         "to Executor.map's documented ordering). Trusted: concurrent.futures.Executor.map order, divmod identity.",
    technique="static analysis: CFG path rules on loop bodies, interprocedural nullness / zeroness dataflow, vacated-slot typestate, who-may-call, "
              "sibling skeleton comparison",
)


# rules that keep their verdict however the code is laid out (decided by term equality, effect analysis or dominance over
# resolved calls); every other rule of this check is a template rule (vcheck.core.Check.obt)
SEMANTIC = ('R20.gen', 'R20.isplit', 'R20.null', 'R20.zero', 'R20.perm', 'R20.pmap', 'R20.fresh', 'R20.text',
            # decided by term equality of the range triple on every path and call form (parameter classes None / 0 / non-zero)
            'R20.fwd::esutil.pbar.prange::range-arguments-as-given',
            # decided by term equality on the evaluated element / range terms; they give "not recognised" themselves
            'R20.split::esutil.numpy_util.splitarray::consecutive-fixed-size-slices', 'R20.split::esutil.numpy_util.splitarray::chunk-count-is-ceil',
            # decided by solving the tests that lead to the return over a case split of all (size, nper)
            'R20.split::esutil.numpy_util.splitarray::early-return-is-the-chunk-list',
            'R20.sort::esutil.algorithm._quicksort::recursion', 'R20.sort::esutil.algorithm._quicksort_keyvalue::recursion',
            # decided by solving the tests that lead around the work call (linear constraints on the number of elements, positions compared)
            'R20.sort::esutil.algorithm.quicksort::sorts-unless-nothing-to-do', 'R20.sort::esutil.algorithm.quicksort_keyvalue::sorts-unless-nothing-to-do',
            'R20.sort::esutil.algorithm._quicksort::sorts-unless-nothing-to-do', 'R20.sort::esutil.algorithm._quicksort_keyvalue::sorts-unless-nothing-to-do')


def run(chk):
    repo = PyRepo()
    chk.set_templates(repo, semantic=SEMANTIC)
    chk.explanation = MANIFEST["text"]
    chk.trusted = ["concurrent.futures.Executor.map preserves input order", "CPython ast"]
    chk.floor = 40
    generators(chk, repo)
    text_as_data(chk, repo)
    freshness(chk, repo)
    nullness(chk, repo)
    pmap(chk, repo)
    keyvalue(chk, repo)
    chunking(chk, repo)
    quicksort(chk, repo)


# ---------------------------------------------------------------------------
def _parent_map(root):
    pm = {}
    for p in ast.walk(root):
        for c in ast.iter_child_nodes(p):
            pm[id(c)] = p
    return pm


def _callee(repo, fi, call):
    """FuncInfo of a call that resolves to a function of the package, else None"""
    d = dotted_name(call.func)
    if not d:
        return None
    full = repo.resolve_name(fi.module, d)
    return repo.func(full) if repo.has(full) else None


def _role(callee, call, name):
    """parameter of `callee` that receives the bare name `name` in `call` (None: not passed / not resolvable)"""
    params = [p for p in callee.params if not p.startswith("*")]
    for i, a in enumerate(call.args):
        if isinstance(a, ast.Starred):
            return None
        if isinstance(a, ast.Name) and a.id == name:
            return params[i] if i < len(params) else None
    for k in call.keywords:
        if k.arg and isinstance(k.value, ast.Name) and k.value.id == name:
            return k.arg if k.arg in params else None
    return None


_HARMLESS = ("len", "isinstance", "hasattr", "type", "id", "callable")
_LAZY = ("iter", "enumerate", "zip")


def _item_source(a, it, fn=None):
    """how the for loop `a` draws from the iterable `it`: (kind, item name) with kind 'direct' | 'enum' | None.
    Temporaries are followed (fn given) and iter(x) is x"""
    c = rules.expand(a.iter, fn) if fn is not None else a.iter
    while isinstance(c, ast.Call) and isinstance(c.func, ast.Name) and c.func.id == "iter" and len(c.args) == 1 and not c.keywords:
        c = c.args[0]
    if isinstance(c, ast.Name) and c.id == it:
        return "direct", (a.target.id if isinstance(a.target, ast.Name) else None)
    if isinstance(c, ast.Call) and isinstance(c.func, ast.Name) and c.func.id == "enumerate" and c.args:
        c0 = c.args[0]
        while isinstance(c0, ast.Call) and isinstance(c0.func, ast.Name) and c0.func.id == "iter" and len(c0.args) == 1 and not c0.keywords:
            c0 = c0.args[0]
        c.args[0] = c0
    if isinstance(c, ast.Call) and isinstance(c.func, ast.Name) and c.func.id == "enumerate" and c.args and isinstance(c.args[0], ast.Name) \
            and c.args[0].id == it and len(c.args) + len(c.keywords) <= 2 and all(k.arg == "start" for k in c.keywords):
        t = a.target
        if isinstance(t, ast.Tuple) and len(t.elts) == 2 and isinstance(t.elts[1], ast.Name):
            return "enum", t.elts[1].id
        return "enum", None
    return None, None


def _delegating_loop(repo, fi, a, it):
    """`for x in helper(.., it, ..)` over a generator of the package that receives the iterable: (helper, role) or None"""
    c = a.iter
    if isinstance(c, ast.Call):
        g = _callee(repo, fi, c)
        if g is not None and rules.is_generator(g.node):
            role = _role(g, c, it)
            if role is not None:
                return g, role
    return None


def _has_yield(node):
    return any(isinstance(x, (ast.Yield, ast.YieldFrom)) for x in walk_no_nested(node))


def _same_stream(st, it):
    """`it = iter(it)` / `it = it`"""
    if not (isinstance(st, ast.Assign) and len(st.targets) == 1 and isinstance(st.targets[0], ast.Name) and st.targets[0].id == it):
        return False
    v = st.value
    if isinstance(v, ast.Call) and isinstance(v.func, ast.Name) and v.func.id == "iter" and len(v.args) == 1 and not v.keywords:
        v = v.args[0]
    return isinstance(v, ast.Name) and v.id == it


def _iterable_uses(repo, fi, it, seen=(), alias=False):
    """classify every use of the parameter `it` in fi: (bad, unknown) lists of texts.  Allowed: the item loops (directly or through
    enumerate), len() and type tests, `yield from` delegation, and package helpers that themselves only do such things"""
    fn = fi.node
    pm = _parent_map(fn)
    bad, unknown = [], []
    own = {id(x) for x in walk_no_nested(fn)}
    for x in ast.walk(fn):
        if isinstance(x, ast.arg) or not (isinstance(x, ast.Name) and x.id == it):
            continue
        if id(x) not in own:
            unknown.append("use inside a nested function (line %s)" % x.lineno)
            continue
        if not isinstance(x.ctx, ast.Load):
            p = pm.get(id(x))
            if not (alias and isinstance(p, ast.Assign)) and not _same_stream(p, it):
                unknown.append("re-bound: `%s`" % norm(p))
            continue
        p = pm.get(id(x))
        # t = iterable / t = iter(iterable), t bound once: what holds for the uses of t
        q_, qp = x, p
        if isinstance(qp, ast.Call) and isinstance(qp.func, ast.Name) and qp.func.id == "iter" and len(qp.args) == 1 and not qp.keywords:
            q_, qp = qp, pm.get(id(qp))
        if _same_stream(qp, it):
            continue                    # iterable = iter(iterable): the same stream under the same name
        if isinstance(qp, ast.Assign) and qp.value is q_ and len(qp.targets) == 1 and isinstance(qp.targets[0], ast.Name) \
                and qp.targets[0].id in rules.single_defs(fn) and len(seen) < 4:
            b2, u2 = _iterable_uses(repo, fi, qp.targets[0].id, seen + ((fi.qualname, qp.targets[0].id),), alias=True)
            bad += b2
            unknown += u2
            continue
        if isinstance(p, ast.Call) and isinstance(p.func, ast.Name) and p.func.id == "enumerate" and isinstance(pm.get(id(p)), ast.For) and pm[id(p)].iter is p:
            x, p = p, pm[id(p)]
        if isinstance(p, ast.Call) and isinstance(p.func, ast.Name) and p.func.id == "iter" and len(p.args) == 1 and isinstance(pm.get(id(p)), ast.For) \
                and pm[id(p)].iter is p:
            x, p = p, pm[id(p)]
        if isinstance(p, ast.For) and p.iter is x:
            if _has_yield(p):
                continue
            bad.append("for ... in %s without yielding" % norm(x))
            continue
        if isinstance(p, ast.YieldFrom):
            continue
        if isinstance(p, ast.Compare):
            continue
        if isinstance(p, ast.keyword):
            p = pm.get(id(p))
        if isinstance(p, ast.Call) and x is not p.func:
            if isinstance(p.func, ast.Name) and p.func.id in _HARMLESS:
                continue
            g = _callee(repo, fi, p)
            if g is None:
                # a lazy wrapper does not consume anything by itself: what happens to it is not followed (no verdict)
                (unknown if (isinstance(p.func, ast.Name) and p.func.id in _LAZY) else bad).append(norm(p))
                continue
            role = _role(g, p, it)
            if role is None or (g.qualname, role) in seen or len(seen) > 4:
                unknown.append(norm(p))
                continue
            if rules.is_generator(g.node):
                gp = pm.get(id(p))
                if isinstance(gp, ast.YieldFrom) or (isinstance(gp, ast.For) and gp.iter is p and _has_yield(gp)):
                    continue            # judged as a delegated item loop
                unknown.append("%s (a generator that is not delegated to with `yield from`)" % norm(p))
                continue
            b2, u2 = _iterable_uses(repo, g, role, seen + ((g.qualname, role),))
            bad += ["%s: %s" % (g.name, t) for t in b2]
            unknown += ["%s: %s" % (g.name, t) for t in u2]
            gpm = _parent_map(g.node)
            for r in walk_no_nested(g.node):
                if isinstance(r, ast.Return) and r.value is not None:
                    for n in ast.walk(r.value):
                        gp = gpm.get(id(n))
                        if isinstance(n, ast.Name) and n.id == role and not (isinstance(gp, ast.Call) and isinstance(gp.func, ast.Name) and gp.func.id in _HARMLESS):
                            unknown.append("%s hands the iterable back" % g.name)
            continue
        unknown.append("`%s`" % norm(p))
    return bad, unknown


def _yield_paths(stmts):
    """(fall, done): yield counts over the paths through a statement list that reach its end / that leave it through
    continue, break or return (loops inside count as 0 or many -> 99; paths that raise are not counted)"""
    fall, done = {0}, set()
    for s in stmts:
        if isinstance(s, ast.If):
            f1, d1 = _yield_paths(s.body)
            f2, d2 = _yield_paths(s.orelse) if s.orelse else ({0}, set())
            t = sum(1 for y in ast.walk(s.test) if isinstance(y, (ast.Yield, ast.YieldFrom)))
            f, d = {x + t for x in f1 | f2}, {x + t for x in d1 | d2}
        elif isinstance(s, (ast.For, ast.While)):
            f, d = ({0, 99} if _has_yield(s) else {0}), set()
        elif isinstance(s, ast.Try):
            f, d = _yield_paths(s.body)
            for h in s.handlers:
                fh, dh = _yield_paths(h.body)
                f, d = f | fh, d | dh
            if s.orelse:
                fo, do = _yield_paths(s.orelse)
                d = d | {a + b for a in f for b in do}
                f = {a + b for a in f for b in fo}
            if s.finalbody:
                ff, df = _yield_paths(s.finalbody)
                d = {a + b for a in d for b in ff} | {a + b for a in f for b in df}
                f = {a + b for a in f for b in ff}
        elif isinstance(s, ast.With):
            f, d = _yield_paths(s.body)
        elif isinstance(s, (ast.Continue, ast.Break, ast.Return)):
            f, d = set(), {0}
        elif isinstance(s, ast.Raise):
            f, d = set(), set()
        elif isinstance(s, (ast.FunctionDef, ast.AsyncFunctionDef, ast.ClassDef)):
            f, d = {0}, set()
        else:
            f, d = {sum(1 for y in walk_no_nested(s) if isinstance(y, (ast.Yield, ast.YieldFrom)))}, set()
        done |= {a + b for a in fall for b in d}
        fall = {a + b for a in fall for b in f}
        if not fall:
            break
    return fall, done


def _early_exits(loop):
    """break statements that leave `loop`, and returns anywhere inside it"""
    out = []

    def walk(stmts, inner):
        for s in stmts:
            if isinstance(s, (ast.FunctionDef, ast.AsyncFunctionDef, ast.ClassDef)):
                continue
            if isinstance(s, ast.Break) and not inner:
                out.append(s)
            elif isinstance(s, ast.Return):
                out.append(s)
            for f in ("body", "orelse", "finalbody"):
                if isinstance(getattr(s, f, None), list):
                    walk(getattr(s, f), inner or isinstance(s, (ast.For, ast.While)))
            for h in getattr(s, "handlers", []):
                walk(h.body, inner)
    walk(loop.body, False)
    return out


def _pos(n):
    return (getattr(n, "lineno", 0), getattr(n, "col_offset", 0))


def _generator_rules(chk, repo, q, fi, it, via="", seen=()):
    """the item-loop rules on generator fi whose parameter `it` is the wrapped iterable; q: the public wrapper the instances belong to"""
    fn = fi.node
    pm = _parent_map(fn)
    tag = ("%s/" % fi.name) if via else ""
    yields = [x for x in walk_no_nested(fn) if isinstance(x, (ast.Yield, ast.YieldFrom))]
    chk.ob("R20.gen", q + "::is-generator" + via, len(yields) >= 1, fi.where(), "%s is a generator (lazy evaluation)" % fi.name)
    loops = [x for x in walk_no_nested(fn) if isinstance(x, ast.For) and _has_yield(x)]
    # only outermost yielding for-loops are item loops
    loops = [a for a in loops if not any(b is not a and any(c is a for c in walk_no_nested(b)) for b in loops)]
    covered = set()
    for a in loops:
        lk = tag + norm(a.iter)
        kind, obj = _item_source(a, it, fn)
        dl = _delegating_loop(repo, fi, a, it) if kind is None else None
        if dl is not None and (dl[0].qualname, dl[1]) not in seen and len(seen) < 3 and isinstance(a.target, ast.Name):
            # the items come from a package generator that wraps the iterable: that generator is judged by the same rules
            kind = "delegate"
            _generator_rules(chk, repo, q, dl[0], dl[1], via=via + "::via-" + dl[0].name, seen=seen + ((dl[0].qualname, dl[1]),))
        chk.ob("R20.gen", "%s::iterates-the-iterable-directly::L%s" % (q, lk), kind is not None, fi.where(a),
               "the loop iterates `%s` itself (found `%s`): nothing is materialised or reordered first" % (it, norm(a.iter)))
        if kind in ("direct", "delegate") and obj is None:
            obj = norm(a.target)
        fall, done = _yield_paths(a.body)
        counts = fall | done
        chk.ob("R20.gen", "%s::exactly-one-yield-per-item::L%s" % (q, lk), counts == {1}, fi.where(a),
               "every path through the loop body yields exactly once (yield counts over paths: %s)" % sorted(counts))
        ys = [x for s in a.body for x in walk_no_nested(s) if isinstance(x, (ast.Yield, ast.YieldFrom))]
        covered |= {id(y) for y in ys}
        chk.ob("R20.gen", "%s::yields-the-loop-item::L%s" % (q, lk),
               bool(ys) and obj is not None and all(isinstance(y, ast.Yield) and y.value is not None and norm(y.value) == obj for y in ys), fi.where(a),
               "the yielded value is the loop's own item `%s`" % obj)
        early = _early_exits(a)
        chk.ob("R20.gen", "%s::no-early-exit::L%s" % (q, lk), not early, fi.where(a), "no break out of the item loop and no return inside it (no item is dropped)")
        # the loop item is neither re-bound nor handed to anything before it is yielded
        first = min((_pos(y) for y in ys), default=(0, 0))
        touched = [norm(pm.get(id(x), x)) for s in a.body for x in walk_no_nested(s)
                   if isinstance(x, ast.Name) and x.id == obj and _pos(x) < first]
        chk.ob("R20.gen", "%s::yield-first::L%s" % (q, lk), bool(ys) and not touched, fi.where(a),
               "the item is yielded before any bookkeeping touches it (%s)" % touched)
    # every other yield must be a delegation `yield from <the iterable>` / `yield from helper(.., iterable, ..)`
    extra, unrec = [], []
    for y in yields:
        if id(y) in covered:
            continue
        if any(isinstance(p, ast.While) for p in _ancestors(pm, y)):
            unrec.append(norm(y))
            continue
        if isinstance(y, ast.YieldFrom):
            v = y.value
            if isinstance(v, ast.Name) and v.id == it:
                continue
            g = _callee(repo, fi, v) if isinstance(v, ast.Call) else None
            role = _role(g, v, it) if g is not None else None
            if g is not None and role is not None and rules.is_generator(g.node) and (g.qualname, role) not in seen and len(seen) < 3:
                _generator_rules(chk, repo, q, g, role, via=via + "::via-" + g.name, seen=seen + ((g.qualname, role),))
                continue
        extra.append(norm(y))
    chk.ob("R20.gen", q + "::no-yield-outside-the-loops" + via, None if (unrec and not extra) else not extra, fi.where(),
           "no yield outside the item loops and the delegated item loops (no extra items) %s" % (extra + unrec))
    bad, unknown = _iterable_uses(repo, fi, it)
    chk.ob("R20.gen", q + "::iterable-not-consumed-elsewhere" + via, False if bad else (None if unknown else True), fi.where(),
           "the iterable is handed to nothing but len() and the item loop (%s)" % (bad + unknown))


def _ancestors(pm, n):
    p = pm.get(id(n))
    while p is not None:
        yield p
        p = pm.get(id(p))


def generators(chk, repo):
    for q in ("esutil.pbar._pbar_full", "esutil.pbar.sbar"):
        fi = repo.func(q)
        chk.analysed_unit(q)
        _generator_rules(chk, repo, q, fi, fi.params[0])
    # public wrappers forward the iterable
    pb = repo.func("esutil.pbar.pbar")
    chk.analysed_unit(pb.qualname)
    it = pb.params[0]
    cfg = cfg_of(pb)
    view = cfg.view()
    rns = rules.return_nodes(cfg)
    targets = []
    ok = bool(rns)
    for n in rns:
        v = n.ast.value
        while isinstance(v, ast.Name) and v.id in rules.single_defs(pb.node):
            v = rules.single_defs(pb.node)[v.id]
        g = _callee(repo, pb, v) if isinstance(v, ast.Call) else None
        if g is None or g.qualname not in ("esutil.pbar.sbar", "esutil.pbar._pbar_full") or _role(g, v, it) != g.params[0]:
            ok = False
            continue
        targets.append((n, v, g))
    ok = ok and {g.name for _, _, g in targets} == {"sbar", "_pbar_full"}
    chk.ob("R20.fwd", pb.qualname + "::forwards-iterable", ok, pb.where(), "pbar returns sbar(iterable, ...) or _pbar_full(iterable, ...)")
    for n, v, g in targets:
        facts = _facts(view, n)
        params = [p for p in g.params if not p.startswith("*")]
        pairs = [(params[i], a) for i, a in enumerate(v.args) if i < len(params) and not isinstance(a, ast.Starred)] + [(k.arg, k.value) for k in v.keywords if k.arg]
        bad = []
        for name, val in pairs:
            if name == g.params[0] or norm(val) == name:
                continue
            if isinstance(val, ast.Constant) and isinstance(val.value, bool) and (("truthy " if val.value else "falsy ") + name) in facts:
                continue                # the literal the option is known to have on this path
            bad.append(name)
        chk.ob("R20.fwd", "%s::options-forwarded::%s" % (pb.qualname, g.name), not bad, pb.where(n.ast), "options are forwarded under their own names (%s)" % bad)
        want = "truthy simple" if g.name == "sbar" else "falsy simple"
        chk.ob("R20.fwd", "%s::simple-dispatch::%s" % (pb.qualname, g.name), want in facts, pb.where(n.ast), "simple=%s selects %s" % (g.name == "sbar", g.name))
    chk.ob("R20.fwd", "esutil.pbar.PBar-is-pbar", norm(repo.module("esutil.pbar").consts.get("PBar", ast.Constant(value=None))) == "pbar", "esutil/pbar.py", "PBar is an alias of pbar")
    pr = repo.func("esutil.pbar.prange")
    chk.analysed_unit(pr.qualname)
    rets = [x for x in walk_no_nested(pr.node) if isinstance(x, ast.Return)]
    ok = len(rets) == 1 and rules.xnorm(rets[0].value, pr.node) in ("pbar(range(*args), **kwargs)", "PBar(range(*args), **kwargs)")
    same = _range_arguments(chk, repo, pr)
    if not ok and same and pr.node.args.kwarg is not None:
        # an equivalent spelling: every return is pbar(range(<the arguments as given>), **<the extra keywords>) (decided by the rule above)
        kw = pr.node.args.kwarg.arg
        ok = _stores(pr.node, kw) == 0 and all(
            isinstance(r.value, ast.Call) and dotted_name(r.value.func) in ("pbar", "PBar") and len(r.value.args) == 1 and len(r.value.keywords) == 1
            and r.value.keywords[0].arg is None and isinstance(r.value.keywords[0].value, ast.Name) and r.value.keywords[0].value.id == kw for r in rets)
    chk.ob("R20.fwd", pr.qualname + "::is-pbar-of-range", ok, pr.where(), "prange(...) is pbar(range(*args), **kwargs)")


# ---------------------------------------------------------------------------
# R20.text: "for every option combination" includes every description string.  The description the caller passes is text that is written
# out; a wrapper that lets it become (part of) a format template -- the left operand of the string % operator, the receiver of .format()
# -- raises (or prints something else) as soon as the text holds a '%' or a brace, and then yields no item at all.  Decided by a taint
# analysis: the source is the `desc` parameter of the functions of esutil.pbar; taint flows through assignments, string building,
# attributes of package objects and calls (package functions, nested functions, methods of package classes built in the function are
# followed with the receiving parameters tainted; the result of any other call is tainted when an argument or its receiver is).  Taint is
# dropped by what no longer holds the text (len(), tests) and by the escaping idiom .replace('%', '%%').
_TEXT_FREE = ("len", "bool", "int", "float", "isinstance", "hasattr", "type", "id", "callable", "ord", "hash", "print")
_TEMPLATE_METHODS = ("format", "format_map", "substitute", "safe_substitute")


class _Text:
    def __init__(self, repo):
        self.repo = repo
        self.attrs = set()      # attribute names of package objects that hold the text (flow-insensitive, whole package)
        self.reset()

    def reset(self):
        self.memo = {}          # (id(function node), tainted parameters) -> does it return the text?
        self.sinks = {}         # id(node) -> (where, text)
        self.unknown = []

    # -- resolution -------------------------------------------------------
    def target(self, fi, call, local):
        """(FuncInfo, call with the receiver made explicit) of a call that runs package code, else (None, call)"""
        f = call.func
        if isinstance(f, ast.Name) and f.id in local:
            return local[f.id], call
        g = _callee(self.repo, fi, call)
        if g is not None:
            return g, call
        d = dotted_name(f)
        if d:
            full = self.repo.resolve_name(fi.module, d)
            if self.repo.class_of(full) is not None and self.repo.has(full + ".__init__"):
                new = ast.Call(func=f, args=[ast.Constant(value=None)] + list(call.args), keywords=list(call.keywords))
                return self.repo.func(full + ".__init__"), ast.copy_location(new, call)
        try:
            c2 = _explicit_self(self.repo, fi, call)
        except Exception:
            c2 = None
        if c2 is not None:
            g = _callee(self.repo, fi, c2)
            if g is not None:
                return g, c2
        return None, call

    # -- expressions ------------------------------------------------------
    def tainted(self, e, names, fi, local):
        T = lambda x: self.tainted(x, names, fi, local)      # noqa: E731
        if e is None or isinstance(e, ast.Constant):
            return False
        if isinstance(e, ast.Name):
            return e.id in names
        if isinstance(e, ast.Attribute):
            return e.attr in self.attrs or T(e.value)
        if isinstance(e, ast.Compare):
            return False
        if isinstance(e, ast.UnaryOp) and isinstance(e.op, ast.Not):
            return False
        if isinstance(e, ast.IfExp):
            return T(e.body) or T(e.orelse)
        if isinstance(e, ast.Lambda):
            return False
        if isinstance(e, ast.Call):
            f = e.func
            if isinstance(f, ast.Name) and f.id in _TEXT_FREE:
                return False
            if isinstance(f, ast.Attribute) and f.attr == "replace" and len(e.args) >= 2 and isinstance(e.args[0], ast.Constant) \
                    and e.args[0].value == "%" and isinstance(e.args[1], ast.Constant) and e.args[1].value == "%%":
                return False            # escaped: every '%' of the text is a literal '%' of the template
            g, c2 = self.target(fi, e, local)
            if g is not None:
                return self.call(fi, g, c2, names, local)
            return (isinstance(f, ast.Attribute) and T(f.value)) or any(T(a.value if isinstance(a, ast.Starred) else a) for a in e.args) \
                or any(T(k.value) for k in e.keywords)
        return any(T(c) for c in ast.iter_child_nodes(e) if isinstance(c, ast.expr))

    def call(self, fi, g, c, names, local):
        """follow a call of package code: the parameters that receive the text are tainted there.  Returns: does the result hold the text?"""
        params = [p for p in g.params if not p.startswith("*")]
        star = [p[p.count("*"):] for p in g.params if p.startswith("*")]
        got = set()
        for i, a in enumerate(c.args):
            if isinstance(a, ast.Starred):
                if self.tainted(a.value, names, fi, local):
                    self.unknown.append("%s: `%s`" % (fi.where(c), norm(c)))
                continue
            if self.tainted(a, names, fi, local):
                if i < len(params):
                    got.add(params[i])
                elif star:
                    got.add(star[0])
        for k in c.keywords:
            if self.tainted(k.value, names, fi, local):
                if k.arg is None:
                    self.unknown.append("%s: `%s`" % (fi.where(c), norm(c)))
                elif k.arg in params:
                    got.add(k.arg)
                elif star:
                    got.add(star[-1])
        return self.function(g, frozenset(got))

    # -- functions --------------------------------------------------------
    def function(self, fi, params, closure=frozenset()):
        key = (id(fi.node), params, closure)
        if key in self.memo:
            return bool(self.memo[key])
        self.memo[key] = False          # recursion: assume the text does not come back, iterate below
        fn = fi.node
        local = {x.name: FuncInfo(fi.qualname + "." + x.name, fi.module, None, x, fi.path)
                 for x in ast.walk(fn) if isinstance(x, (ast.FunctionDef, ast.AsyncFunctionDef)) and x is not fn}
        names = set(params) | set(closure)
        nodes = list(walk_no_nested(fn))
        T = lambda x: self.tainted(x, names, fi, local)      # noqa: E731

        def bind(t):
            if isinstance(t, ast.Name):
                names.add(t.id)
            elif isinstance(t, (ast.Tuple, ast.List)):
                for x in t.elts:
                    bind(x)
            elif isinstance(t, ast.Starred):
                bind(t.value)
            elif isinstance(t, ast.Attribute):
                self.attrs.add(t.attr)
            elif isinstance(t, ast.Subscript):
                bind(t.value)
        while True:
            before = (len(names), len(self.attrs))
            for x in nodes:
                if isinstance(x, ast.Assign) and T(x.value):
                    for t in x.targets:
                        bind(t)
                elif isinstance(x, (ast.AugAssign, ast.AnnAssign, ast.NamedExpr)) and x.value is not None and T(x.value):
                    bind(x.target)
                elif isinstance(x, (ast.For, ast.comprehension)) and T(x.iter):
                    bind(x.target)
                elif isinstance(x, ast.withitem) and x.optional_vars is not None and T(x.context_expr):
                    bind(x.optional_vars)
            if (len(names), len(self.attrs)) == before:
                break
        for x in nodes:
            if isinstance(x, ast.BinOp) and isinstance(x.op, ast.Mod) and T(x.left):
                self.sinks[id(x)] = (fi.where(x), "`%s`: the text is (part of) the template on the left of the %% operator in %s" % (norm(x), fi.name))
            elif isinstance(x, ast.Call) and isinstance(x.func, ast.Attribute) and x.func.attr in _TEMPLATE_METHODS and T(x.func.value):
                self.sinks[id(x)] = (fi.where(x), "`%s`: the text is (part of) the template .%s() is called on in %s" % (norm(x), x.func.attr, fi.name))
            elif isinstance(x, ast.Call):
                T(x)                    # calls whose result is dropped are followed as well
        # nested functions see the names of this one
        for g in local.values():
            own = {a.arg for a in ast.walk(g.node.args) if isinstance(a, ast.arg)}
            self.function(g, frozenset(), frozenset(names - own))
        ret = any(isinstance(x, ast.Return) and x.value is not None and T(x.value) for x in nodes)
        self.memo[key] = ret
        return ret


def text_as_data(chk, repo):
    srcs = [fi for qn, fi in sorted(repo.funcs.items()) if getattr(fi.module, "name", fi.module) == "esutil.pbar" and "desc" in fi.params]
    if not srcs:
        chk.ob("R20.text", "esutil.pbar.pbar::description-is-never-a-format-template", None, "esutil/pbar.py",
               "no function of esutil.pbar takes the description under the name `desc`: where the text goes is not followed")
        return
    for fi in srcs:
        tx = _Text(repo)
        try:
            while True:
                n = len(tx.attrs)
                tx.reset()
                tx.function(fi, frozenset(["desc"]))
                if len(tx.attrs) == n:
                    break
            sinks = sorted(tx.sinks.values())
            ok = False if sinks else (None if tx.unknown else True)
            found = "; ".join("%s %s" % s for s in sinks) or ("not followed: %s" % tx.unknown if tx.unknown else "it only ever is data")
            where = sinks[0][0] if sinks else fi.where()
        except RecursionError:
            ok, found, where = None, "the flow of the text could not be followed", fi.where()
        chk.ob("R20.text", fi.qualname + "::description-is-never-a-format-template", ok, where,
               "the description the caller passes to %s is written out as it is, whatever characters it holds: it never becomes (part of) "
               "a %%-format template or the receiver of .format() (%s)" % (fi.name, found))


# ---------------------------------------------------------------------------
# R20.fwd ...::range-arguments-as-given: prange(a, ...) is pbar(range(a, ...)) for every way range can be called.  The body is summarised
# path by path (structured statements, no loops): every name holds a term over the caller's arguments (a parameter as passed, a literal,
# the untouched *args tuple, range(...) of such terms) and every test on a parameter narrows the classes of values it can still have on that
# path, over the finite domain {None, 0, non-zero} that covers every argument range accepts plus the "not given" sentinel.  For each call
# form (1, 2, 3 positional arguments, the others at their defaults) that can reach a return, the (start, stop, step) triple handed to range
# must equal, as terms, the triple of the call as written.
_CLS = ("None", "0", "nz")


class _PrState:
    def __init__(self, env, allowed, unknown=False):
        self.env, self.allowed, self.unknown = env, allowed, unknown

    def copy(self):
        return _PrState(dict(self.env), {k: set(v) for k, v in self.allowed.items()}, self.unknown)


def _pr_term(st, e):
    """the term an expression evaluates to: ('p', name) a parameter as passed, ('c', value), ('star', name), ('range', [terms]); None unknown"""
    if isinstance(e, ast.Name):
        return st.env.get(e.id)
    if isinstance(e, ast.Constant) and (e.value is None or (isinstance(e.value, int) and not isinstance(e.value, bool))):
        return ("c", e.value)
    if isinstance(e, ast.UnaryOp) and isinstance(e.op, (ast.USub, ast.UAdd)):
        v = _pr_term(st, e.operand)
        if v is not None and v[0] == "c" and isinstance(v[1], int):
            return ("c", -v[1] if isinstance(e.op, ast.USub) else v[1])
        return None
    if isinstance(e, ast.Call) and isinstance(e.func, ast.Name) and e.func.id == "range" and "range" not in st.env and not e.keywords:
        args = []
        for a in e.args:
            if isinstance(a, ast.Starred):
                v = _pr_term(st, a.value)
                if v is None or v[0] != "star":
                    return None
                args.append(v)
            else:
                v = _pr_term(st, a)
                if v is None or v[0] not in ("p", "c"):
                    return None
                args.append(v)
        return ("range", args)
    return None


def _pr_cls(v):
    return "None" if v is None else ("0" if v == 0 else "nz")


def _pr_branch(st, t):
    """[(state, truth)]: the states in which the test is true / false, the parameter classes narrowed"""
    if isinstance(t, ast.UnaryOp) and isinstance(t.op, ast.Not):
        return [(s, not b) for s, b in _pr_branch(st, t.operand)]
    if isinstance(t, ast.BoolOp):
        stop_on = isinstance(t.op, ast.Or)
        out, cur = [], [st]
        for i, v in enumerate(t.values):
            nxt = []
            for s in cur:
                for s2, b in _pr_branch(s, v):
                    if b == stop_on or i == len(t.values) - 1:
                        out.append((s2, b))
                    else:
                        nxt.append(s2)
            cur = nxt
        return out
    var, tset = None, None
    if isinstance(t, ast.Name):
        var, tset = t, {"nz"}
    elif isinstance(t, ast.Compare) and len(t.ops) == 1:
        l, op, r = t.left, t.ops[0], t.comparators[0]
        if not isinstance(l, ast.Name) and isinstance(r, ast.Name) and isinstance(op, (ast.Eq, ast.NotEq, ast.Is, ast.IsNot)):
            l, r = r, l
        c = _pr_term(st, r) if not isinstance(r, ast.Name) else None
        if isinstance(l, ast.Name) and c is not None and c[0] == "c" and c[1] in (None, 0) and not isinstance(c[1], bool):
            if isinstance(op, (ast.Eq, ast.Is)) and (c[1] is None or isinstance(op, ast.Eq)):
                var, tset = l, {_pr_cls(c[1])}
            elif isinstance(op, (ast.NotEq, ast.IsNot)) and (c[1] is None or isinstance(op, ast.NotEq)):
                var, tset = l, set(_CLS) - {_pr_cls(c[1])}
    v = st.env.get(var.id) if var is not None else None
    if v is not None and v[0] == "c":
        return [(st, _pr_cls(v[1]) in tset)]
    if v is not None and v[0] == "p":
        out = []
        for truth, cl in ((True, tset), (False, set(_CLS) - tset)):
            s = st.copy()
            s.allowed[v[1]] &= cl
            if s.allowed[v[1]]:
                out.append((s, truth))
        return out
    a, b = st.copy(), st.copy()
    a.unknown = b.unknown = True        # a test that is not about the class of one parameter: both ways, nothing learned
    return [(a, True), (b, False)]


def _pr_exec(stmts, st, rets, bad):
    """run the statement list from state st: the states that fall through; returns go to rets; bad collects what is not understood"""
    cur = [st]
    for s in stmts:
        if not cur:
            break
        if isinstance(s, ast.Expr) and isinstance(s.value, ast.Constant):
            continue
        if isinstance(s, ast.Return):
            rets += [(c, s) for c in cur]
            return []
        if isinstance(s, ast.Raise):
            return []
        if isinstance(s, ast.If):
            nxt = []
            for c in cur:
                for c2, b in _pr_branch(c, s.test):
                    nxt += _pr_exec(s.body if b else s.orelse, c2, rets, bad)
            cur = nxt
            continue
        if isinstance(s, ast.Assign) and len(s.targets) == 1 and isinstance(s.targets[0], ast.Name) and isinstance(s.value, ast.IfExp):
            nxt = []
            for c in cur:
                for c2, b in _pr_branch(c, s.value.test):
                    c2.env[s.targets[0].id] = _pr_term(c2, s.value.body if b else s.value.orelse)
                    nxt.append(c2)
            cur = nxt
            continue
        if isinstance(s, ast.Assign) and len(s.targets) == 1:
            t, v = s.targets[0], s.value
            if isinstance(t, ast.Name):
                pairs = [(t, v)]
            elif isinstance(t, (ast.Tuple, ast.List)) and isinstance(v, (ast.Tuple, ast.List)) and len(t.elts) == len(v.elts) \
                    and all(isinstance(x, ast.Name) for x in t.elts):
                pairs = list(zip(t.elts, v.elts))
            else:
                pairs = None
            if pairs is not None:
                for c in cur:
                    vals = [_pr_term(c, y) for _, y in pairs]
                    for (x, _), val in zip(pairs, vals):
                        c.env[x.id] = val
                continue
        if isinstance(s, (ast.For, ast.While, ast.Try, ast.With, ast.Match if hasattr(ast, "Match") else ast.With)) \
                and any(isinstance(x, ast.Return) for x in walk_no_nested(s)):
            bad.append("`%s`" % norm(s)[:60])
            return []
        # anything else: the names it binds are no longer known
        for x in ast.walk(s):
            if isinstance(x, ast.Name) and isinstance(x.ctx, (ast.Store, ast.Del)):
                for c in cur:
                    c.env[x.id] = None
            elif isinstance(s, (ast.FunctionDef, ast.ClassDef, ast.AsyncFunctionDef)):
                for c in cur:
                    c.env[s.name] = None
    return cur


def _pr_canon(args):
    if len(args) == 1:
        return (("c", 0), args[0], ("c", 1))
    if len(args) == 2:
        return (args[0], args[1], ("c", 1))
    if len(args) == 3:
        return tuple(args)
    return None


def _pr_items(tr, val):
    """the items of range(*tr) with the symbols valued by `val` (constant evaluation of the two terms that were found to differ)"""
    a = [t[1] if t[0] == "c" else val[t[1]] for t in tr]
    if any(not isinstance(x, int) for x in a) or a[2] == 0:
        return None
    return list(range(*a))


def _range_arguments(chk, repo, pr):
    import itertools
    key = pr.qualname + "::range-arguments-as-given"
    text = "every call form of prange hands range exactly the arguments it was given: prange(a), prange(a, b), prange(a, b, c) iterate " \
           "range(a), range(a, b), range(a, b, c)"
    a = pr.node.args
    pos = [p.arg for p in list(getattr(a, "posonlyargs", [])) + list(a.args)]
    env = {p: ("p", p) for p in pos}
    env.update({p.arg: None for p in a.kwonlyargs})
    if a.vararg:
        env[a.vararg.arg] = ("star", a.vararg.arg)
    if a.kwarg:
        env[a.kwarg.arg] = None
    st = _PrState(env, {p: set(_CLS) for p in pos})
    rets, bad = [], []
    fall = _pr_exec(pr.node.body, st, rets, bad)
    if bad or fall or not rets or len(pos) > 3 or (pos and a.vararg):
        chk.ob("R20.fwd", key, None, pr.where(), text + " (not recognised: %s)" % (bad or ("a path leaves without a return" if fall else "signature / no return")))
        return False
    dflt = {}
    for p in pos:
        if p in pr.defaults:
            d = _pr_term(_PrState({}, {}), pr.defaults[p])
            if d is None or d[0] != "c":
                chk.ob("R20.fwd", key, None, pr.where(), text + " (default of `%s` is not a literal)" % p)
                return False
            dflt[p] = d
    nreq = len([p for p in pos if p not in dflt])
    wrong, unsure = [], []
    for s, ret in rets:
        v = ret.value
        g = _callee(repo, pr, v) if isinstance(v, ast.Call) else None
        if isinstance(v, ast.Call) and g is None and dotted_name(v.func) and norm(pr.module.consts.get(dotted_name(v.func), ast.Constant(value=None))) == "pbar" \
                and repo.has("esutil.pbar.pbar"):
            g = repo.func("esutil.pbar.pbar")
        if g is None or g.qualname not in ("esutil.pbar.pbar", "esutil.pbar.sbar", "esutil.pbar._pbar_full"):
            unsure.append("`%s` is not a call of the progress wrapper" % norm(ret)[:70])
            continue
        itx = v.args[0] if (v.args and not isinstance(v.args[0], ast.Starred)) else next((k.value for k in v.keywords if k.arg == g.params[0]), None)
        rg = _pr_term(s, itx) if itx is not None else None
        if rg is None or rg[0] != "range":
            unsure.append("the iterable wrapped by `%s` is not range(...) of the arguments" % norm(ret)[:70])
            continue
        if not pos:
            # (*args): the tuple as passed, spliced
            if rg[1] == [("star", a.vararg.arg)] if a.vararg else False:
                continue
            unsure.append("`%s`" % norm(itx))
            continue
        if any(t[0] == "star" for t in rg[1]) or _pr_canon(rg[1]) is None:
            unsure.append("`%s`" % norm(itx))
            continue
        got = _pr_canon(rg[1])
        for k in range(max(nreq, 1), min(len(pos), 3) + 1):
            given, rest = pos[:k], pos[k:]
            if any(_pr_cls(dflt[p][1]) not in s.allowed[p] for p in rest):
                continue                # this path is not taken by a call with k arguments
            choices = [sorted(s.allowed[p] & {"0", "nz"}) for p in given]
            for combo in itertools.product(*choices):
                sub = {p: dflt[p] for p in rest}
                sub.update({p: ("c", 0) for p, c in zip(given, combo) if c == "0"})
                want = tuple(sub.get(t[1], t) if t[0] == "p" else t for t in _pr_canon([("p", p) for p in given]))
                have = tuple(sub.get(t[1], t) if t[0] == "p" else t for t in got)
                if want == have:
                    continue
                if any(t[0] == "c" and not isinstance(t[1], int) for t in want + have):
                    unsure.append("range receives None")
                    continue
                # the two triples differ as terms: a model of the disequality over the free (non-zero, independent) arguments
                syms = sorted({t[1] for t in want + have if t[0] == "p"})
                wit = None
                for vals in itertools.product((-3, -1, 2, 5), repeat=len(syms)):
                    val = dict(zip(syms, vals))
                    x, y = _pr_items(want, val), _pr_items(have, val)
                    if x is not None and y is not None and x != y:
                        wit = val
                        break
                call = "prange(%s)" % ", ".join(str(sub[p][1]) if p in sub else (str(wit[p]) if wit else p) for p in given)
                show = lambda tr: "range(%s)" % ", ".join(str(t[1]) if t[0] == "c" else (str(wit[t[1]]) if wit else t[1]) for t in tr)
                m = "%s iterates %s instead of %s (line %s)" % (call, show(have), show(want), ret.lineno)
                if wit is not None and not s.unknown:
                    wrong.append(m + ": the tests on the way there do not tell an argument that was passed as 0 from one that was not passed")
                else:
                    unsure.append(m)
    chk.ob("R20.fwd", key, False if wrong else (None if unsure else True), pr.where(), text + (" -- " + "; ".join((wrong or unsure)[:3]) if (wrong or unsure) else ""))
    return not wrong and not unsure


# ---------------------------------------------------------------------------
# R20.fresh: every call computes its result anew.  What the chunking / mapping functions return is a mutable object (a record array, a
# list) that belongs to the caller; the generators are one-shot.  A result that is kept and handed out again (a memoising decorator, a
# module-level or default-argument container the returned object is stored in or read from) makes a later call return whatever the first
# caller has since done to it, so the ranges / chunks / items are no longer those of the arguments.
_MEMO_WORDS = ("cache", "memo")
_PERSIST_CALLS = ("dict", "list", "OrderedDict", "defaultdict", "WeakValueDictionary", "set", "deque")


def _memo_name(repo, fi, d):
    """(is a memoiser, text) for a decorator / wrapper expression"""
    f = d.func if isinstance(d, ast.Call) else d
    if isinstance(f, ast.Call):
        f = f.func
    dn = dotted_name(f)
    if not dn:
        return None, norm(d)
    full = repo.resolve_name(fi.module, dn)
    last = full.rsplit(".", 1)[-1].lower()
    if full in ("functools.wraps", "functools.update_wrapper"):
        return None, norm(d)
    return (True if any(w in last for w in _MEMO_WORDS) else None), norm(d)


def _persistent_names(fi):
    """names that outlive one call of fi: module-level containers the function reads, parameters with a mutable default, the function object itself"""
    fn = fi.node
    local = {x.id for x in walk_no_nested(fn) if isinstance(x, ast.Name) and isinstance(x.ctx, ast.Store)}
    glob = {n for x in walk_no_nested(fn) if isinstance(x, ast.Global) for n in x.names}
    out = set()

    def mutable(v):
        return isinstance(v, (ast.Dict, ast.List, ast.Set)) or (isinstance(v, ast.Call) and (dotted_name(v.func) or "").rsplit(".", 1)[-1] in _PERSIST_CALLS)
    for p in func_params(fn):
        if p in fi.defaults and mutable(fi.defaults[p]):
            out.add(p)
    for x in walk_no_nested(fn):
        if isinstance(x, ast.Name) and (x.id not in local or x.id in glob) and x.id not in func_params(fn) and mutable(fi.module.consts.get(x.id)):
            out.add(x.id)
    return out


def _persistent_base(e, keep, own):
    """the persistent container an expression reads its value out of (S[k], S.get(k), S.setdefault(k, v), f.attr[k]); None otherwise"""
    if isinstance(e, ast.Subscript):
        b = e.value
    elif isinstance(e, ast.Call) and isinstance(e.func, ast.Attribute) and e.func.attr in ("get", "setdefault", "__getitem__"):
        b = e.func.value
    else:
        return None
    if isinstance(b, ast.Name) and b.id in keep:
        return b.id
    if isinstance(b, ast.Attribute) and isinstance(b.value, ast.Name) and b.value.id == own:
        return norm(b)
    return None


def freshness(chk, repo):
    for q, mutable_result in (("esutil.algorithm.isplit", True), ("esutil.numpy_util.splitarray", True), ("esutil.pbar.pmap", True),
                              ("esutil.pbar.pbar", False), ("esutil.pbar.prange", False), ("esutil.pbar.sbar", False), ("esutil.pbar._pbar_full", False),
                              ("esutil.algorithm.quicksort", False), ("esutil.algorithm.quicksort_keyvalue", False)):
        if not repo.has(q):
            continue
        fi = repo.func(q)
        fn = fi.node
        memo, other = [], []
        for d in fn.decorator_list:
            m, t = _memo_name(repo, fi, d)
            (memo if m else other).append("@" + t)
        # name = wrapper(name) at module level
        for s in fi.module.tree.body:
            if isinstance(s, ast.Assign) and any(isinstance(t, ast.Name) and t.id == fn.name for t in s.targets) and isinstance(s.value, ast.Call) \
                    and any(isinstance(x, ast.Name) and x.id == fn.name for x in ast.walk(s.value)):
                m, t = _memo_name(repo, fi, s.value)
                (memo if m else other).append("%s = %s" % (fn.name, norm(s.value)))
        what = "a record array / list the caller owns" if mutable_result else "a one-shot generator / an in-place effect"
        chk.ob("R20.fresh", q + "::not-memoised", False if memo else (None if other else True), fi.where(),
               "%s computes its result on every call (%s): it is not wrapped in a memoiser that hands the object of an earlier call out again%s"
               % (fn.name, what, (" -- found %s: equal arguments get the SAME object back, changed by whatever an earlier caller did to it" % ", ".join(memo)) if memo
                  else ((" -- wrapper not recognised: %s" % ", ".join(other)) if other else "")))
        if not mutable_result:
            continue
        keep = _persistent_names(fi)
        shared = []
        returned = set()
        for r in walk_no_nested(fn):
            if not (isinstance(r, ast.Return) and r.value is not None):
                continue
            cands = [r.value]
            if isinstance(r.value, ast.Name):
                returned.add(r.value.id)
                cands += [s.value for s in walk_no_nested(fn) if isinstance(s, ast.Assign) and any(isinstance(t, ast.Name) and t.id == r.value.id for t in s.targets)]
                cands += [s.value for s in walk_no_nested(fn) if isinstance(s, ast.NamedExpr) and s.target.id == r.value.id]
            for c in cands:
                b = _persistent_base(c, keep, fn.name)
                if b is not None:
                    shared.append("`%s` (line %s) comes out of `%s`, which outlives the call" % (norm(c), c.lineno, b))
        for s in walk_no_nested(fn):
            if isinstance(s, ast.Assign) and isinstance(s.value, ast.Name) and s.value.id in returned:
                for t in s.targets:
                    b = _persistent_base(t, keep, fn.name) if isinstance(t, ast.Subscript) else None
                    if b is not None:
                        shared.append("`%s` (line %s) keeps the returned object in `%s`, which outlives the call" % (norm(s), s.lineno, b))
            if isinstance(s, ast.Call) and isinstance(s.func, ast.Attribute) and s.func.attr == "setdefault" and len(s.args) == 2 \
                    and isinstance(s.args[1], ast.Name) and s.args[1].id in returned and _persistent_base(s, keep, fn.name) is not None:
                shared.append("`%s` (line %s) keeps the returned object" % (norm(s), s.lineno))
        chk.ob("R20.fresh", q + "::result-not-shared-between-calls", not shared, fi.where(),
               "the object %s returns is built during the call and kept nowhere that outlives it%s" % (fn.name, (" -- " + "; ".join(shared[:3])) if shared else ""))


# ---------------------------------------------------------------------------
def _explicit_self(repo, fi, call):
    """`v.m(args)` as `C.m(v, args)` when v is known to be an instance of the package class C that defines m (v = C(...) bound once, or
    `self` inside a method of C): the call then resolves like any call of a package function, with v in the role of self.  None otherwise"""
    f = call.func
    if not (isinstance(f, ast.Attribute) and isinstance(f.value, ast.Name)):
        return None
    v = f.value.id
    cls = None
    if fi.cls is not None and fi.params and v == fi.params[0] and v not in rules.single_defs(fi.node):
        cls = ast.Name(id=fi.cls, ctx=ast.Load())
    else:
        d = rules.single_defs(fi.node).get(v)
        if isinstance(d, ast.Call) and dotted_name(d.func):
            full = repo.resolve_name(fi.module, dotted_name(d.func))
            if repo.class_of(full) is not None:
                cls = copy.deepcopy(d.func)
    if cls is None:
        return None
    meth = ast.Attribute(value=cls, attr=f.attr, ctx=ast.Load())
    full = repo.resolve_name(fi.module, dotted_name(meth))
    if not repo.has(full) or repo.func(full).cls is None:
        return None
    new = ast.Call(func=meth, args=[f.value] + list(call.args), keywords=list(call.keywords))
    return ast.copy_location(ast.fix_missing_locations(ast.copy_location(new, call)), call)


class _Null(Nullness):
    """the engine's nullness analysis, extended in two directions so that the flow of a possibly-None value survives the extraction
    of helpers: (1) `x = helper(...)` makes x possibly None when the helper can return None for these arguments (explicit
    `return None`, return of a possibly-None name, falling off the end); (2) a nested function is analysed with the enclosing
    function's possibly-None variables it reads, as they are where it is called"""

    def __init__(self, repo):
        Nullness.__init__(self, repo)
        self.fis = {}
        self.state = {}
        self.retnone = {}
        self.ctx = None

    def analyse(self, fi, maybe_none_params, chain=()):
        key = (fi.qualname, tuple(sorted(maybe_none_params)))
        if key in self.memo:
            return
        self.memo[key] = True
        self.fis[key] = fi
        saved = self.ctx
        self.ctx = (fi, chain)
        try:
            cfg = rules.cfg_of(fi)
            view = cfg.view()
            init = set(maybe_none_params)
            IN = {cfg.entry.id: set(init)}
            OUT = {}
            order = [n for n in cfg.nodes if view.reachable(n)]
            for _ in range(20):
                changed = False
                for n in order:
                    if n.id == cfg.entry.id:
                        s = set(init)
                    else:
                        s = set()
                        for p in view.pred(n):
                            o = OUT.get((p.id, n.id))
                            if o is None:
                                o = OUT.get((p.id, None))
                            if o is not None:
                                s |= o
                    IN[n.id] = s
                    outs = self.transfer(cfg, view, n, s)
                    for k, v in outs.items():
                        if OUT.get(k) != v:
                            OUT[k] = v
                            changed = True
                if not changed:
                    break
            self.state[key] = IN
            for n in order:
                self.uses(fi, n, IN.get(n.id, set()), chain)
            # nested functions read the enclosing variables at the time they are called
            for n in order:
                if n.kind == "def" and isinstance(n.ast, ast.FunctionDef):
                    f = n.ast
                    sites = [m for m in order if m is not n and any(isinstance(c.func, ast.Name) and c.func.id == f.name for c in rules.stmts_calls(m))]
                    st = set()
                    for m in (sites or [n]):
                        st |= IN.get(m.id, set())
                    bound = set(func_params(f)) | {x.id for x in walk_no_nested(f) if isinstance(x, ast.Name) and isinstance(x.ctx, ast.Store)}
                    free = {x.id for x in ast.walk(f) if isinstance(x, ast.Name) and isinstance(x.ctx, ast.Load)} - bound
                    mn = free & st
                    if mn:
                        sub = FuncInfo("%s.<locals>.%s" % (fi.qualname, f.name), fi.module, fi.cls, f, fi.path)
                        self.analyse(sub, mn, chain + ("%s (closure defined at %s)" % (fi.qualname, fi.where(f)),))
        finally:
            self.ctx = saved

    def transfer(self, cfg, view, n, s):
        res = Nullness.transfer(self, cfg, view, n, s)
        a = n.ast
        if n.kind == "stmt" and isinstance(a, ast.Assign) and isinstance(a.value, ast.Call) and self.ctx is not None:
            if self.may_return_none(self.ctx[0], a.value, s, self.ctx[1]):
                out = res.get((n.id, None))
                if out is not None:
                    for t in a.targets:
                        if isinstance(t, ast.Name):
                            out.add(t.id)
        return res

    def _scan(self, fi, n, e, s, chain):
        if isinstance(e, ast.Call):
            e = _explicit_self(self.repo, fi, e) or e
        Nullness._scan(self, fi, n, e, s, chain)

    def may_return_none(self, fi, call, s, chain, depth=0):
        call = _explicit_self(self.repo, fi, call) or call
        d = dotted_name(call.func)
        if not d or depth > 4:
            return False
        full = self.repo.resolve_name(fi.module, d)
        if not self.repo.has(full):
            return False
        callee = self.repo.func(full)
        if rules.is_generator(callee.node):
            return False
        params = [p for p in callee.params if not p.startswith("*")]
        mn = set()
        for i, a in enumerate(call.args):
            if isinstance(a, ast.Name) and a.id in s and i < len(params):
                mn.add(params[i])
        for k in call.keywords:
            if k.arg and isinstance(k.value, ast.Name) and k.value.id in s:
                mn.add(k.arg)
        key = (callee.qualname, tuple(sorted(mn)))
        if key in self.retnone:
            return self.retnone[key]
        if key in self.memo and key not in self.state:
            return False               # recursion: being analysed
        self.analyse(callee, mn, chain + ("%s (%s)" % (fi.qualname, fi.where(call)),))
        IN = self.state.get(key)
        if IN is None:
            return False
        cfg = rules.cfg_of(callee)
        view = cfg.view()
        res = bool([p for p in rules.falls_off_end(cfg, view) if view.reachable(p)])
        for n in rules.return_nodes(cfg):
            if not view.reachable(n):
                continue
            v = n.ast.value
            st = IN.get(n.id, set())
            if v is None or (isinstance(v, ast.Constant) and v.value is None) or (isinstance(v, ast.Name) and v.id in st):
                res = True
            elif isinstance(v, ast.IfExp) and any((isinstance(x, ast.Constant) and x.value is None) or (isinstance(x, ast.Name) and x.id in st) for x in (v.body, v.orelse)):
                res = True
            elif isinstance(v, ast.Call) and self.may_return_none(callee, v, st, chain, depth + 1):
                res = True
        self.retnone[key] = res
        return res


def nullness(chk, repo):
    nl = _Null(repo)
    entries = [("esutil.pbar._pbar_full", {"total"}), ("esutil.pbar.sbar", {"total"})]
    for q, mn in entries:
        fi = repo.func(q)
        nl.analyse(fi, mn)
    chk.notes["nullness_functions_analysed"] = sorted(k[0] + str(list(k[1])) for k in nl.memo)
    seen = set()
    for fi, node, var, what, chain in nl.reports:
        key = "%s::%s::%s" % (fi.qualname, var, norm(node))
        if key in seen:
            continue
        seen.add(key)
        chk.ob("R20.null", key, False, fi.where(node),
               "%s in %s: `%s` is None for an iterable without len() when no total= is given (e.g. a generator, or the executor map inside pmap)%s"
               % (what, fi.qualname, var, "".join(" <- via %s" % c for c in chain)))
    for k in nl.memo:
        if not k[1]:
            continue                   # analysed only to learn whether the helper can return None
        if not any(r[0].qualname == k[0] for r in nl.reports):
            chk.ob("R20.null", "%s%s::no-unguarded-use" % (k[0], list(k[1])), True, nl.fis[k].where(),
                   "a possibly-None %s never reaches an ordering comparison or arithmetic unguarded in %s" % (list(k[1]), k[0]))
    chk.ob("R20.null", "nullness::callee-reached", any(k[0] == "esutil.pbar.format_meter" and "total" in k[1] for k in nl.memo), "esutil/pbar.py",
           "the analysis followed the possibly-None total into the meter formatter")
    zeroness(chk, repo, entries)


# ---------------------------------------------------------------------------
def _num(e):
    """the value of a numeric literal (also -1), else None"""
    if isinstance(e, ast.UnaryOp) and isinstance(e.op, ast.USub):
        v = _num(e.operand)
        return -v if v is not None else None
    if isinstance(e, ast.Constant) and isinstance(e.value, (int, float)) and not isinstance(e.value, bool):
        return e.value
    return None


def _unwrap_num(e):
    """float(x) / int(x) / abs(x) -> x"""
    while isinstance(e, ast.Call) and isinstance(e.func, ast.Name) and e.func.id in ("float", "int", "abs") and len(e.args) == 1 and not e.keywords:
        e = e.args[0]
    return e


class _Zero(_Null):
    """the same dataflow machinery over another finite domain: the set of names that may hold 0.  The expected number of items
    (`total=` as sent, or len() of the wrapped iterable) is 0 for an empty iterable, which the property quantifies over.  A name leaves
    the set on the side of a test that excludes zero (truthiness, != 0, > 0, >= 1, ...), and in the body of the loop that draws the items:
    there at least one item exists, so the number of items is >= 1 (a total= that contradicts the iterable is outside the quantifier)."""

    def _src(self, fi, v, s):
        """may the expression be 0, given the names `s` that may be?"""
        v = _unwrap_num(v)
        if isinstance(v, ast.Name):
            return v.id in s
        if isinstance(v, ast.Call) and isinstance(v.func, ast.Name) and v.func.id == "len" and len(v.args) == 1 and not v.keywords \
                and isinstance(v.args[0], ast.Name) and v.args[0].id in func_params(fi.node):
            return True                 # the length of a caller-supplied (possibly empty) iterable
        if isinstance(v, ast.IfExp):
            return self._src(fi, v.body, s) or self._src(fi, v.orelse, s)
        if isinstance(v, ast.BoolOp):
            return self._src(fi, v.values[-1], s) if isinstance(v.op, ast.Or) else any(self._src(fi, x, s) for x in v.values)
        return False

    def _item_loop(self, fi, a):
        """a for-loop of a generator that draws the items of an iterable it was handed and yields them"""
        if not _has_yield(a):
            return False
        for p in func_params(fi.node):
            if _item_source(a, p, fi.node)[0] is not None or _delegating_loop(self.repo, fi, a, p) is not None:
                return True
        return False

    def transfer(self, cfg, view, n, s):
        a = n.ast
        fi = self.ctx[0] if self.ctx is not None else None
        if fi is not None and n.kind == "stmt" and isinstance(a, ast.Assign):
            out = set(s)
            for t in a.targets:
                if isinstance(t, (ast.Tuple, ast.List)):
                    vals = a.value.elts if isinstance(a.value, (ast.Tuple, ast.List)) and len(a.value.elts) == len(t.elts) else [None] * len(t.elts)
                    pairs = list(zip(t.elts, vals))
                else:
                    pairs = [(t, a.value)]
                for tt, v in pairs:
                    if not isinstance(tt, ast.Name):
                        continue
                    maybe = v is not None and (self._src(fi, v, s) or (isinstance(v, ast.Call) and self.may_return_zero(fi, v, s, self.ctx[1])))
                    (out.add if maybe else out.discard)(tt.id)
            return {(n.id, None): out}
        if fi is not None and n.kind == "loop" and isinstance(a, ast.For):
            out = set(s)
            for x in ast.walk(a.target):
                if isinstance(x, ast.Name):
                    out.discard(x.id)
            body = set() if self._item_loop(fi, a) else out
            res = {}
            for j in view.g.successors(n.id):
                labs = view.g[n.id][j]["labels"]
                res[(n.id, j)] = set(body) if ("T" in labs and "F" not in labs) else set(out)
            return res
        return Nullness.transfer(self, cfg, view, n, s)

    def _refine(self, t, s_true, s_false):
        if isinstance(t, ast.Compare) and len(t.ops) == 1:
            left, op, right = _unwrap_num(t.left), t.ops[0], _unwrap_num(t.comparators[0])
            if isinstance(right, ast.Name) and not isinstance(left, ast.Name):
                flip = {ast.Lt: ast.Gt, ast.LtE: ast.GtE, ast.Gt: ast.Lt, ast.GtE: ast.LtE}
                left, right, op = right, left, flip.get(type(op), type(op))()
            if not isinstance(left, ast.Name):
                return
            x = left.id
            if isinstance(right, ast.Constant) and right.value is None:
                if isinstance(op, (ast.Is, ast.Eq)):
                    s_true.discard(x)      # it is None there, not 0 (the None rule looks after that)
                elif isinstance(op, (ast.IsNot, ast.NotEq)):
                    s_false.discard(x)
                return
            c = _num(right)
            if c is None:
                return
            excl_true = {ast.Eq: c != 0, ast.NotEq: c == 0, ast.Gt: c >= 0, ast.GtE: c > 0, ast.Lt: c <= 0, ast.LtE: c < 0}.get(type(op), False)
            excl_false = {ast.Eq: c == 0, ast.NotEq: c != 0, ast.Gt: c < 0, ast.GtE: c <= 0, ast.Lt: c > 0, ast.LtE: c >= 0}.get(type(op), False)
            if excl_true:
                s_true.discard(x)
            if excl_false:
                s_false.discard(x)
            return
        if isinstance(t, ast.Name) or isinstance(t, (ast.UnaryOp, ast.BoolOp)):
            Nullness._refine(self, t, s_true, s_false)
            return
        u = _unwrap_num(t)
        if u is not t:
            self._refine(u, s_true, s_false)

    def _divisors(self, e):
        """the divisor expressions of e itself"""
        if isinstance(e, ast.BinOp) and isinstance(e.op, (ast.Div, ast.FloorDiv)):
            return [e.right]
        if isinstance(e, ast.BinOp) and isinstance(e.op, ast.Mod):
            # % on a string is formatting: only a left operand that is visibly a number counts
            lf = _unwrap_num(e.left)
            arith = isinstance(lf, ast.BinOp) and isinstance(lf.op, (ast.Add, ast.Sub, ast.Mult, ast.Div, ast.FloorDiv)) and \
                not any(isinstance(x, ast.JoinedStr) or (isinstance(x, ast.Constant) and isinstance(x.value, (str, bytes))) for x in ast.walk(lf))
            return [e.right] if (_num(lf) is not None or lf is not e.left or arith) else []
        if isinstance(e, ast.Call) and isinstance(e.func, ast.Name) and e.func.id == "divmod" and len(e.args) == 2:
            return [e.args[1]]
        return []

    def _zero_name(self, d, s):
        """the possibly-zero name that makes the divisor d zero (the name itself, its negation, a product with it)"""
        d = _unwrap_num(d)
        if isinstance(d, ast.Name):
            return d.id if d.id in s else None
        if isinstance(d, ast.UnaryOp) and isinstance(d.op, (ast.USub, ast.UAdd)):
            return self._zero_name(d.operand, s)
        if isinstance(d, ast.BinOp) and isinstance(d.op, ast.Mult):
            return self._zero_name(d.left, s) or self._zero_name(d.right, s)
        return None

    def uses(self, fi, n, s, chain):
        a = n.ast
        if a is None:
            return
        # inside a try whose handler takes the ZeroDivisionError the division is allowed to fail
        if self.ctx is not None:
            g = rules.cfg_of(fi).g
            for j in (g.successors(n.id) if n.id in g else ()):
                h = g.nodes[j]["node"]
                if "exc" in g[n.id][j]["labels"] and h.kind == "handler":
                    ht = h.ast.type
                    names = {call_name(ast.Call(func=x, args=[], keywords=[])) for x in (ht.elts if isinstance(ht, ast.Tuple) else [ht])} if ht is not None else set()
                    if ht is None or names & {"ZeroDivisionError", "ArithmeticError", "Exception", "BaseException"}:
                        return
        roots = []
        if n.kind == "branch" or (n.kind == "loop" and isinstance(a, ast.While)):
            roots = [a.test]
        elif n.kind in ("stmt", "return", "raise"):
            roots = [a]
        elif n.kind == "loop":
            roots = [a.iter]
        for r in roots:
            self._scan(fi, n, r, set(s), chain)

    def _scan(self, fi, n, e, s, chain):
        if isinstance(e, ast.BoolOp):
            cur = set(s)
            for v in e.values:
                self._scan(fi, n, v, cur, chain)
                t, f = set(cur), set(cur)
                self._refine(v, t, f)
                cur = t if isinstance(e.op, ast.And) else f
            return
        if isinstance(e, ast.IfExp):
            t, f = set(s), set(s)
            self._refine(e.test, t, f)
            self._scan(fi, n, e.test, s, chain)
            self._scan(fi, n, e.body, t, chain)
            self._scan(fi, n, e.orelse, f, chain)
            return
        if isinstance(e, ast.Call):
            e = _explicit_self(self.repo, fi, e) or e
        for d in self._divisors(e):
            zn = self._zero_name(d, s)
            if zn is not None:
                self.reports.append((fi, e, zn, "division `%s` by a value that may be 0" % norm(e), chain))
        if isinstance(e, ast.Call):
            d = dotted_name(e.func)
            full = self.repo.resolve_name(fi.module, d) if d else None
            if full and self.repo.has(full):
                callee = self.repo.func(full)
                params = [p for p in callee.params if not p.startswith("*")]
                mz = set()
                for i, a in enumerate(e.args):
                    if not isinstance(a, ast.Starred) and self._src(fi, a, s) and i < len(params):
                        mz.add(params[i])
                for k in e.keywords:
                    if k.arg and self._src(fi, k.value, s):
                        mz.add(k.arg)
                if mz:
                    self.analyse(callee, mz, chain + ("%s (%s)" % (fi.qualname, fi.where(e)),))
        for c in ast.iter_child_nodes(e):
            if isinstance(c, ast.keyword):
                self._scan(fi, n, c.value, s, chain)
            elif isinstance(c, ast.expr):
                self._scan(fi, n, c, s, chain)

    def may_return_zero(self, fi, call, s, chain, depth=0):
        call = _explicit_self(self.repo, fi, call) or call
        d = dotted_name(call.func)
        if not d or depth > 4:
            return False
        full = self.repo.resolve_name(fi.module, d)
        if not self.repo.has(full):
            return False
        callee = self.repo.func(full)
        if rules.is_generator(callee.node):
            return False
        params = [p for p in callee.params if not p.startswith("*")]
        mz = set()
        for i, a in enumerate(call.args):
            if not isinstance(a, ast.Starred) and self._src(fi, a, s) and i < len(params):
                mz.add(params[i])
        for k in call.keywords:
            if k.arg and self._src(fi, k.value, s):
                mz.add(k.arg)
        key = (callee.qualname, tuple(sorted(mz)))
        if key in self.retnone:
            return self.retnone[key]
        if key in self.memo and key not in self.state:
            return False               # recursion: being analysed
        self.analyse(callee, mz, chain + ("%s (%s)" % (fi.qualname, fi.where(call)),))
        IN = self.state.get(key)
        if IN is None:
            return False
        cfg = rules.cfg_of(callee)
        view = cfg.view()
        res = False
        for n in rules.return_nodes(cfg):
            if not view.reachable(n) or n.ast.value is None:
                continue
            v = n.ast.value
            st = IN.get(n.id, set())
            if self._src(callee, v, st) or (isinstance(_unwrap_num(v), ast.Call) and self.may_return_zero(callee, _unwrap_num(v), st, chain, depth + 1)):
                res = True
        self.retnone[key] = res
        return res


def zeroness(chk, repo, entries):
    """R20.zero: wrapping an EMPTY iterable yields nothing; it must not fail.  The expected number of items is then 0, so every division by
    it that can execute before an item was drawn needs a dominating zero-excluding test, in the wrappers and in everything they hand it to"""
    zr = _Zero(repo)
    for q, mz in entries:
        zr.analyse(repo.func(q), mz)
    chk.notes["zeroness_functions_analysed"] = sorted(k[0] + str(list(k[1])) for k in zr.memo)
    seen = set()
    for fi, node, var, what, chain in zr.reports:
        key = "%s::%s::%s" % (fi.qualname, var, norm(node))
        if key in seen:
            continue
        seen.add(key)
        chk.ob("R20.zero", key, False, fi.where(node),
               "%s in %s: `%s` is 0 when the wrapped iterable is empty (len() == 0, or total=0) and no test that excludes 0 dominates the division, "
               "so wrapping an empty iterable raises ZeroDivisionError instead of yielding nothing%s"
               % (what, fi.qualname, var, "".join(" <- via %s" % c for c in chain)))
    for k in zr.memo:
        if not k[1]:
            continue
        if not any(r[0].qualname == k[0] for r in zr.reports):
            chk.ob("R20.zero", "%s%s::no-unguarded-division" % (k[0], list(k[1])), True, zr.fis[k].where(),
                   "a possibly-zero %s is never a divisor outside the item loop without a dominating test that excludes 0 in %s" % (list(k[1]), k[0]))


# ---------------------------------------------------------------------------
# R20.pmap: what the parallel map returns, as an abstract value.  Nothing is executed: expressions, comprehensions, helper functions and
# helper generators of the package are evaluated over a small domain of ordered streams:
#   ('iterable', s)                      an iterable whose items are those of the parameter s, in order
#   ('stream', ('items', s), E)          a lazy sequence with one element E per item of s, in the order of s
#   ('stream', ('chunks', s), E)         one element E per chunk, the chunks being consecutive non-empty runs of the items of s
#   ('cont', kind, stream)               list / tuple / deque holding the elements of the stream in its order
#   ('item', s) ('chunk', s) ('citem', s)   the current item / chunk / item of the current chunk
#   ('app', f, v)                        f(v);   ('maplist', f, ('chunk', s))  the list [f(x) for x in chunk]
#   ('fut', v)                           a future whose result() is v;   ('exec',) the executor;  ('fnparam', f) / ('func', fi) callables
# None is "not understood".  A construct that is positively order-breaking (completion-ordered collection, LIFO draining, reversal) is
# recorded in `bad`.  Executor.map is trusted to be list(map(...)) in input order; submit() returns a future per call, and the futures
# keep the order of the calls when they are collected by an ordered comprehension and drained first-in first-out.
_UNORDERED = ("as_completed", "imap_unordered", "wait", "apply_async", "map_async", "add_done_callback")
_REORDER = ("sort", "sorted", "reverse", "reversed", "set", "frozenset", "shuffle", "rotate", "appendleft", "extendleft")


class _Frame:
    def __init__(self, fi, env, resolve, top=False):
        self.fi, self.env, self.resolve, self.top = fi, env, resolve, top


def _loads(fn, name, defs=()):
    """number of places that read the name (len(name) does not count: it neither draws from nor changes what the name holds; nor do the
    reads inside the expressions `defs` that define it, which see its previous value)"""
    skip = {id(c.args[0]) for c in ast.walk(fn) if isinstance(c, ast.Call) and isinstance(c.func, ast.Name) and c.func.id == "len" and len(c.args) == 1}
    skip |= {id(x) for d in defs if isinstance(d, ast.AST) for x in ast.walk(d)}
    return sum(1 for x in ast.walk(fn) if isinstance(x, ast.Name) and x.id == name and isinstance(x.ctx, ast.Load) and id(x) not in skip)


def _stores(fn, name):
    return sum(1 for x in ast.walk(fn) if (isinstance(x, ast.Name) and x.id == name and isinstance(x.ctx, (ast.Store, ast.Del)))
               or (isinstance(x, ast.arg) and x.arg == name)) - (1 if name in func_params(fn) else 0)


class _Par:
    def __init__(self, repo, inside=None):
        self.repo = repo
        self.bad = []
        self.chunk_n = []       # what the chunk length was found to be
        self.map_chunksize = [] # the chunksize= argument of Executor.map calls (ast or None)
        self.special = {}       # id(call) -> value of a pop-front expression inside a draining loop
        self.visited = []       # helper functions that were followed
        self.exec_params = []   # (helper, parameter) that receives the executor
        self.inside = inside    # ids of the nodes inside the executor's with-block (frames marked top)
        self.drawn = []         # Name nodes of the top frame through which the iterable flows into the result
        self.depth = 0

    # -- helpers --------------------------------------------------------
    def as_stream(self, v):
        if v is None:
            return None
        if v[0] == "iterable":
            return ("stream", ("items", v[1]), ("item", v[1]))
        if v[0] == "cont":
            return v[2]
        if v[0] == "stream":
            return v
        return None

    def flatten(self, st):
        """the concatenation of the elements of a stream"""
        if st is None:
            return None
        dom, el = st[1], st[2]
        if dom[0] == "chunks" and el == ("chunk", dom[1]):
            return ("stream", ("items", dom[1]), ("item", dom[1]))
        if dom[0] == "chunks" and el[0] == "maplist" and el[2] == ("chunk", dom[1]):
            return ("stream", ("items", dom[1]), ("app", el[1], ("item", dom[1])))
        return None

    def helper_frame(self, g, env):
        sd = rules.single_defs(g.node)
        env = {k: v for k, v in env.items() if _stores(g.node, k) == 0}     # a re-bound parameter is not what was passed

        def resolve(name, at):
            return [(sd[name], None)] if name in sd else None
        if g not in self.visited:
            self.visited.append(g)
        self.exec_params += [(g, k) for k, v in env.items() if v == ("exec",) and (g, k) not in self.exec_params]
        return _Frame(g, env, resolve)

    def bind(self, g, args, kws):
        params = [p for p in g.params if not p.startswith("*")]
        if len(args) > len(params) or any(k not in params for k in kws):
            return None
        env = dict(zip(params, args))
        env.update(kws)
        return {k: v for k, v in env.items() if v is not None}

    def apply(self, f, args, kws):
        if f is None:
            return None
        if f[0] == "fnparam":
            return ("app", f[1], args[0]) if (len(args) == 1 and not kws and args[0] is not None) else None
        if f[0] == "func":
            env = self.bind(f[1], args, kws)
            if env is None or self.depth > 6:
                return None
            self.depth += 1
            try:
                fr = self.helper_frame(f[1], env)
                return self.gen_stream(fr) if rules.is_generator(f[1].node) else self.ret_value(fr)
            finally:
                self.depth -= 1
        return None

    def ret_value(self, fr):
        fn = fr.fi.node
        rets = [x for x in walk_no_nested(fn) if isinstance(x, ast.Return)]
        if len(rets) != 1 or rets[0].value is None or rets[0] not in fn.body:
            return None
        return self.ev(fr, rets[0].value)

    # -- expressions ----------------------------------------------------
    def ev(self, fr, e, at=None):
        if id(e) in self.special:
            return self.special[id(e)]
        if isinstance(e, ast.Name):
            if e.id in fr.env:
                if fr.top and fr.env[e.id] is not None and fr.env[e.id][0] == "iterable":
                    self.drawn.append(e)    # the place where the result draws from the iterable as it was passed
                return fr.env[e.id]
            defs = fr.resolve(e.id, at)
            if not defs:
                g = _callee(self.repo, fr.fi, ast.Call(func=e, args=[], keywords=[]))
                if g is not None:
                    return ("func", g)
                if _stores(fr.fi.node, e.id) == 0 and e.id not in func_params(fr.fi.node) and e.id not in fr.fi.module.imports:
                    return ("fnparam", "<%s>" % e.id)       # a builtin or global callable, named by its text: not the function handed to pmap
                return None
            vals = [x[1] if (isinstance(x, tuple) and x[0] == "val") else self.ev(fr, x, a2) for x, a2 in defs]
            v = vals[0]
            if any(x != v for x in vals[1:]) or v is None:
                return None
            if v[0] in ("cont", "stream") and _loads(fr.fi.node, e.id, [x for x, _ in defs]) != 1:
                return None             # a stream or a mutable container that something else may also draw from / change
            return v
        if isinstance(e, (ast.ListComp, ast.GeneratorExp)):
            if len(e.generators) != 1:
                return None
            g = e.generators[0]
            if g.ifs or g.is_async or not isinstance(g.target, ast.Name):
                return None
            src = self.ev(fr, g.iter, at)
            if src is not None and src[0] == "chunk":
                # over the items of one chunk
                fr2 = _Frame(fr.fi, dict(fr.env, **{g.target.id: ("citem", src[1])}), fr.resolve, fr.top)
                v = self.ev(fr2, e.elt, at)
                if not isinstance(e, ast.ListComp) or v is None:
                    return None
                if v == ("citem", src[1]):
                    return src
                if v[0] == "app" and v[2] == ("citem", src[1]):
                    return ("maplist", v[1], src)
                return None
            st = self.as_stream(src)
            if st is None:
                return None
            fr2 = _Frame(fr.fi, dict(fr.env, **{g.target.id: st[2]}), fr.resolve, fr.top)
            v = self.ev(fr2, e.elt, at)
            if v is None:
                return None
            out = ("stream", st[1], v)
            if isinstance(e, ast.ListComp):
                return self.materialise(fr, e, "list", out)
            return out
        if isinstance(e, ast.Call):
            return self.call(fr, e, at)
        if isinstance(e, ast.Subscript):
            v = self.ev(fr, e.value, at)
            if v is not None and v[0] == "cont":
                if isinstance(e.slice, ast.Slice) and e.slice.lower is None and e.slice.upper is None and e.slice.step is None:
                    return v            # a copy
                return ("part", v, norm(e.slice))
        return None

    def materialise(self, fr, e, kind, st):
        if fr.top and self.inside is not None and id(e) not in self.inside and st[2][0] not in ("item", "chunk"):
            self.bad.append("`%s` is evaluated after the executor's with-block" % norm(e)[:60])
        return ("cont", kind, st)

    def call(self, fr, e, at):
        cn = call_name(e)
        if any(isinstance(a, ast.Starred) for a in e.args):
            return None
        if cn in _UNORDERED:
            self.bad.append("completion-ordered collection `%s`" % norm(e.func))
            return None
        if isinstance(e.func, ast.Name) and cn not in fr.env:
            if cn in ("reversed", "sorted", "set", "frozenset") and e.args and self.as_stream(self.ev(fr, e.args[0], at)) is not None:
                self.bad.append("`%s(...)` changes the order of the results" % cn)
                return None
            if cn == "iter" and len(e.args) == 1 and not e.keywords:
                v = self.ev(fr, e.args[0], at)
                return v if (v is not None and v[0] in ("iterable", "stream")) else self.as_stream(v)
            if cn in ("list", "tuple") and len(e.args) == 1 and not e.keywords:
                v = self.ev(fr, e.args[0], at)
                if v is not None and v[0] in ("chunk", "maplist"):
                    return v if cn == "list" or v[0] == "chunk" else None
                st = self.as_stream(v)
                return self.materialise(fr, e, cn, st) if st is not None else None
            if cn == "map" and len(e.args) == 2 and not e.keywords:
                f, v = self.ev(fr, e.args[0], at), self.ev(fr, e.args[1], at)
                if v is not None and v[0] == "chunk" and f is not None:
                    r = self.apply(f, [("citem", v[1])], {})
                    return ("maplist", r[1], v) if (r is not None and r[0] == "app" and r[2] == ("citem", v[1])) else None
                st = self.as_stream(v)
                if st is None or f is None:
                    return None
                r = self.apply(f, [st[2]], {})
                return ("stream", st[1], r) if r is not None else None
        if cn == "deque" and len(e.args) == 1 and not e.keywords:
            st = self.as_stream(self.ev(fr, e.args[0], at))
            return self.materialise(fr, e, "deque", st) if st is not None else None
        if cn == "from_iterable" and len(e.args) == 1 and not e.keywords:
            return self.flatten(self.as_stream(self.ev(fr, e.args[0], at)))
        g = _callee(self.repo, fr.fi, e) if not (isinstance(e.func, ast.Name) and cn in fr.env) else None
        if g is not None and g.qualname in ("esutil.pbar.pbar", "esutil.pbar.PBar"):
            # the progress wrapper yields exactly the items of what it wraps, in order and lazily (rules R20.gen / R20.fwd)
            a0 = e.args[0] if e.args else kwarg(e, g.params[0])
            return self.as_stream(self.ev(fr, a0, at)) if a0 is not None else None
        if cn in ("pbar", "PBar") and g is None and (e.args or kwarg(e, "iterable") is not None):
            return self.as_stream(self.ev(fr, e.args[0] if e.args else kwarg(e, "iterable"), at))
        if isinstance(e.func, ast.Attribute):
            base = self.ev(fr, e.func.value, at)
            if base is not None and base[0] == "exec":
                if e.func.attr == "map":
                    if len(e.args) != 2 or any(k.arg not in ("chunksize", "timeout") for k in e.keywords):
                        return None
                    f, st = self.ev(fr, e.args[0], at), self.as_stream(self.ev(fr, e.args[1], at))
                    if f is None or st is None:
                        return None
                    r = self.apply(f, [st[2]], {})
                    self.map_chunksize.append((e, kwarg(e, "chunksize")))
                    return ("stream", st[1], r) if r is not None else None
                if e.func.attr == "submit" and e.args:
                    f = self.ev(fr, e.args[0], at)
                    args = [self.ev(fr, a, at) for a in e.args[1:]]
                    kws = {k.arg: self.ev(fr, k.value, at) for k in e.keywords if k.arg}
                    if f is None or any(a is None for a in args) or any(k.arg is None for k in e.keywords) or any(v is None for v in kws.values()):
                        return None
                    r = self.apply(f, args, kws)
                    return ("fut", r) if r is not None else None
                return None
            if base is not None and base[0] == "fut" and e.func.attr == "result" and not e.args:
                return base[1]
            if base is not None and base[0] == "cont" and e.func.attr == "pop" and not e.args:
                self.bad.append("`%s` takes the newest future first (last-in first-out)" % norm(e))
                return None
            if base is not None:
                return None
        if g is not None:
            args = [self.ev(fr, a, at) for a in e.args]
            kws = {k.arg: self.ev(fr, k.value, at) for k in e.keywords if k.arg}
            if any(k.arg is None for k in e.keywords):
                return None
            return self.apply(("func", g), args, kws)
        if isinstance(e.func, ast.Name):
            f = self.ev(fr, e.func, at)
            if f is not None and f[0] in ("fnparam", "func"):
                args = [self.ev(fr, a, at) for a in e.args]
                kws = {k.arg: self.ev(fr, k.value, at) for k in e.keywords if k.arg}
                return self.apply(f, args, kws)
        return None

    # -- generators -----------------------------------------------------
    def gen_stream(self, fr):
        """the stream a helper generator yields"""
        fn = fr.fi.node

        def unwrap(stmts):
            out = []
            for s_ in stmts:
                if isinstance(s_, ast.Try) and not s_.handlers and not s_.orelse and not any(_has_yield(x) for x in s_.finalbody):
                    out += unwrap(s_.body)      # try/finally: the clean-up yields nothing
                else:
                    out.append(s_)
            return out
        body = [s_ for s_ in unwrap(fn.body) if not _isdoc(s_)]
        ys = [s_ for s_ in body if _has_yield(s_)]
        if len(ys) != 1:
            return None
        y = ys[0]
        held = {k for k, v in fr.env.items() if v is not None and v[0] in ("cont", "stream")}
        for s_ in body[:body.index(y)]:
            plain = isinstance(s_, ast.Assign) and len(s_.targets) == 1 and isinstance(s_.targets[0], ast.Name)
            guard = isinstance(s_, ast.If) and not s_.orelse and s_.body and isinstance(s_.body[-1], ast.Raise)
            if not (plain or guard or isinstance(s_, (ast.Import, ast.ImportFrom, ast.Pass))):
                return None
            if held & {x.id for x in ast.walk(s_.value if plain else s_) if isinstance(x, ast.Name)} - ({s_.targets[0].id} if plain else set()):
                if not (plain and isinstance(s_.value, ast.Call) and isinstance(s_.value.func, ast.Name) and s_.value.func.id == "iter"):
                    return None         # something is done to a stream or container before it is worked off
        if any(isinstance(x, ast.Return) and x.value is not None for s_ in body for x in walk_no_nested(s_)):
            return None
        if isinstance(y, ast.Expr) and isinstance(y.value, ast.YieldFrom):
            return self.as_stream(self.ev(fr, y.value.value))
        if isinstance(y, ast.For) and isinstance(y.target, ast.Name) and not y.orelse:
            st = self.as_stream(self.ev(fr, y.iter))
            if st is None:
                return None
            return self.loop_body(fr, y, st, {y.target.id: st[2]})
        if isinstance(y, ast.While) and not y.orelse:
            c = self.drained_name(y.test)
            if c is not None:
                return self.draining_loop(fr, y, c)
            if isinstance(y.test, ast.Constant) and y.test.value is True:
                return self.chunker(fr, y, body[body.index(y) + 1:])
        return None

    def drained_name(self, t):
        """`while C` / `while len(C)` / `while len(C) > 0` / `while len(C) != 0`"""
        if isinstance(t, ast.Compare) and len(t.ops) == 1 and isinstance(t.ops[0], (ast.Gt, ast.NotEq)) and norm(t.comparators[0]) == "0":
            t = t.left
            if not (isinstance(t, ast.Call) and call_name(t) == "len"):
                return None
        if isinstance(t, ast.Call) and isinstance(t.func, ast.Name) and t.func.id == "len" and len(t.args) == 1:
            t = t.args[0]
        return t.id if isinstance(t, ast.Name) else None

    def loop_body(self, fr, loop, st, binds):
        """one round of an item loop: plain assignments, and on every path exactly one yield / yield from"""
        fall, done = _yield_paths(loop.body)
        if (fall | done) != {1} or _early_exits(loop):
            return None
        fr2 = _Frame(fr.fi, dict(fr.env, **binds), fr.resolve, fr.top)
        out = None
        for s_ in loop.body:
            if isinstance(s_, ast.Assign) and len(s_.targets) == 1 and isinstance(s_.targets[0], ast.Name) and not _has_yield(s_):
                fr2.env[s_.targets[0].id] = self.ev(fr2, s_.value)
            elif isinstance(s_, ast.Expr) and isinstance(s_.value, (ast.Yield, ast.YieldFrom)) and out is None:
                v = self.ev(fr2, s_.value.value) if s_.value.value is not None else None
                if v is None:
                    return None
                if isinstance(s_.value, ast.YieldFrom):
                    inner = v if v[0] in ("chunk", "maplist") else None
                    out = self.flatten(("stream", st[1], inner)) if inner is not None else None
                else:
                    out = ("stream", st[1], v)
                if out is None:
                    return None
            elif _isdoc(s_) or isinstance(s_, ast.Pass):
                continue
            else:
                return None
        return out

    def draining_loop(self, fr, loop, c):
        """while C: ... C.popleft() ...: the elements of the container C, oldest first"""
        cv = fr.env.get(c)
        if cv is None:
            cv = self.ev(fr, ast.Name(id=c, ctx=ast.Load()))
        if cv is None or cv[0] != "cont":
            return None
        uses = [x for s_ in loop.body for x in ast.walk(s_) if isinstance(x, ast.Name) and x.id == c]
        pops = [x for s_ in loop.body for x in ast.walk(s_) if isinstance(x, ast.Call) and isinstance(x.func, ast.Attribute)
                and isinstance(x.func.value, ast.Name) and x.func.value.id == c]
        if len(uses) != 1 or len(pops) != 1:
            return None
        pop = pops[0]
        fifo = (pop.func.attr == "popleft" and cv[1] == "deque" and not pop.args and not pop.keywords) or \
               (pop.func.attr == "pop" and cv[1] == "list" and len(pop.args) == 1 and norm(pop.args[0]) == "0" and not pop.keywords)
        if not fifo:
            if pop.func.attr == "pop" and (not pop.args or norm(pop.args[0]) == "-1"):
                self.bad.append("`%s` takes the newest future first (last-in first-out)" % norm(pop))
            return None
        st = cv[2]
        self.special[id(pop)] = st[2]
        try:
            return self.loop_body(fr, loop, st, {})
        finally:
            del self.special[id(pop)]

    def chunker(self, fr, loop, after):
        """it = iter(X); while True: c = tuple(islice(it, n)); leave when c is empty; yield c  -- consecutive non-empty runs of X"""
        fn = fr.fi.node
        body = [s_ for s_ in loop.body if not _isdoc(s_)]
        if any(_has_yield(s_) for s_ in after) or len(body) not in (2, 3):
            return None
        a = body[0]
        if not (isinstance(a, ast.Assign) and len(a.targets) == 1 and isinstance(a.targets[0], ast.Name)):
            return None
        c = a.targets[0].id
        v = a.value
        if not (isinstance(v, ast.Call) and isinstance(v.func, ast.Name) and v.func.id in ("tuple", "list") and len(v.args) == 1 and not v.keywords):
            return None
        sl = v.args[0]
        if not (isinstance(sl, ast.Call) and call_name(sl) == "islice" and len(sl.args) == 2 and not sl.keywords and isinstance(sl.args[0], ast.Name)):
            return None
        it = sl.args[0].id
        sd = rules.single_defs(fn)
        if it not in sd or _loads(fn, it) != 1 or not (isinstance(sd[it], ast.Call) and isinstance(sd[it].func, ast.Name) and sd[it].func.id == "iter"
                                                        and len(sd[it].args) == 1 and not sd[it].keywords):
            return None
        if not any(s_ is rules_stmt_of(fn, sd[it]) for s_ in fn.body) and not any(rules_stmt_of(fn, sd[it]) in getattr(t, "body", []) for t in fn.body if isinstance(t, ast.Try)):
            return None                 # the iterator is made once, before the loop
        src = self.ev(fr, sd[it].args[0])
        if src is None or src[0] != "iterable":
            return None

        def empty_test(t):
            """True: t holds when the chunk is empty; False: when it is not empty; None: something else"""
            if isinstance(t, ast.UnaryOp) and isinstance(t.op, ast.Not):
                r = empty_test(t.operand)
                return None if r is None else (not r)
            if isinstance(t, ast.Name) and t.id == c:
                return False
            if isinstance(t, ast.Compare) and len(t.ops) == 1 and norm(t.left) == "len(%s)" % c:
                k, op = norm(t.comparators[0]), type(t.ops[0])
                if (k, op) in (("0", ast.Eq), ("1", ast.Lt)):
                    return True
                if (k, op) in (("0", ast.Gt), ("0", ast.NotEq), ("1", ast.GtE)):
                    return False
            return None

        def leaves(stmts):
            return len(stmts) == 1 and (isinstance(stmts[0], ast.Break) or (isinstance(stmts[0], ast.Return) and stmts[0].value is None))

        def yields_chunk(stmts):
            return len(stmts) == 1 and isinstance(stmts[0], ast.Expr) and isinstance(stmts[0].value, ast.Yield) and norm(stmts[0].value.value) == c
        ok = False
        if len(body) == 3 and isinstance(body[1], ast.If) and not body[1].orelse:
            ok = empty_test(body[1].test) is True and leaves(body[1].body) and yields_chunk(body[2:])
        elif len(body) == 2 and isinstance(body[1], ast.If) and body[1].orelse:
            r = empty_test(body[1].test)
            ok = (r is False and yields_chunk(body[1].body) and leaves(body[1].orelse)) or (r is True and leaves(body[1].body) and yields_chunk(body[1].orelse))
        if not ok:
            return None
        self.chunk_n.append(self.ev(fr, sl.args[1]) or ("expr", norm(sl.args[1])))
        return ("stream", ("chunks", src[1]), ("chunk", src[1]))


def rules_stmt_of(fn, expr):
    """the statement of fn whose value is `expr`"""
    for x in walk_no_nested(fn):
        if isinstance(x, ast.Assign) and x.value is expr:
            return x
    return None


def _unknown_in(v):
    if v is None:
        return True
    return isinstance(v, tuple) and any(_unknown_in(x) for x in v if isinstance(x, tuple) or x is None)


_INF = float("inf")


def _len_bounds(facts):
    """{text of X: k} for the facts (see _rel) that say len(X) >= k"""
    out = {}
    for f in facts:
        x, k = None, None
        if f.startswith("truthy "):
            x, k = f[7:], 1
            if x.startswith("len(") and x.endswith(")"):
                x = x[4:-1]
        else:
            for sym, add in ((" < len(", 1), (" <= len(", 0), (" != len(", None)):
                if sym in f and f.endswith(")"):
                    a, b = f.split(sym, 1)
                    try:
                        a = int(a)
                    except ValueError:
                        break
                    if add is None:
                        if a != 0:
                            break
                        x, k = b[:-1], 1
                    else:
                        x, k = b[:-1], a + add
                    break
        if x is not None and k is not None and k > out.get(x, 0):
            out[x] = k
    return out


class _Range:
    """Value-range analysis of an integer expression at a CFG node: (lo, hi) such that the value lies in [lo, hi] for EVERY input the
    property quantifies over, or None when a sub-term is not understood.  Names are followed through their reaching definitions;
    a parameter stands for the range `dom` gives it as passed; len(X) is >= 0, and >= k where a test that controls the node (or the
    arm of a conditional expression) says so about the same binding of X."""

    def __init__(self, cfg, view, rin, dom):
        self.cfg, self.view, self.rin, self.dom = cfg, view, rin, dom
        self.seen = []      # definitions that were followed (for the message)
        self._facts = {}

    def facts_at(self, n):
        """{X: (k, defs of X where the test was made)} from the tests controlling n"""
        if n.id not in self._facts:
            out = {}
            for b, lab in self.view.controlling_branches(n):
                if (b.kind == "branch" or (b.kind == "loop" and isinstance(b.ast, ast.While))) and lab in ("T", "F"):
                    for x, k in _len_bounds(_rel(b.ast.test, lab == "F")).items():
                        d = self.rin.get(b.id, {}).get(x)
                        if d and len(d) == 1 and k > out.get(x, (0, None))[0]:
                            out[x] = (k, frozenset(d))
            self._facts[n.id] = out
        return self._facts[n.id]

    @staticmethod
    def join(a, b):
        return (min(a[0], b[0]), max(a[1], b[1]))

    def ev(self, e, at, facts=None, depth=0):
        if depth > 10:
            return None
        facts = dict(facts or {})
        for x, v in self.facts_at(at).items():
            if v[0] > facts.get(x, (0, None))[0]:
                facts[x] = v
        if isinstance(e, ast.Constant):
            if isinstance(e.value, bool) or not isinstance(e.value, int):
                return None
            return (e.value, e.value)
        if isinstance(e, ast.Name):
            defs = self.rin.get(at.id, {}).get(e.id)
            if not defs:
                return None
            out = None
            for d in sorted(defs):
                if d == self.cfg.entry.id:
                    r = self.dom.get(e.id)
                else:
                    dn = self.cfg.node(d)
                    a = dn.ast
                    if dn.kind != "stmt" or not isinstance(a, ast.Assign) or len(a.targets) != 1 or not isinstance(a.targets[0], ast.Name):
                        return None
                    if norm(a) not in self.seen:
                        self.seen.append(norm(a))
                    r = self.ev(a.value, dn, facts, depth + 1)
                if r is None:
                    return None
                out = r if out is None else self.join(out, r)
            return out
        if isinstance(e, ast.UnaryOp) and isinstance(e.op, (ast.USub, ast.UAdd)):
            r = self.ev(e.operand, at, facts, depth + 1)
            if r is None:
                return None
            return (-r[1], -r[0]) if isinstance(e.op, ast.USub) else r
        if isinstance(e, ast.BinOp):
            a, b = self.ev(e.left, at, facts, depth + 1), self.ev(e.right, at, facts, depth + 1)
            if a is None or b is None:
                return None
            if isinstance(e.op, ast.Add):
                return (a[0] + b[0], a[1] + b[1])
            if isinstance(e.op, ast.Sub):
                return (a[0] - b[1], a[1] - b[0])

            def mul(x, y):
                return 0 if (x == 0 or y == 0) else x * y

            def fdiv(x, y):
                if abs(x) == _INF:
                    return x
                if y == _INF:
                    return 0 if x >= 0 else -1
                return x // y
            if isinstance(e.op, ast.Mult):
                c = [mul(x, y) for x in a for y in b]
                return (min(c), max(c))
            if isinstance(e.op, ast.FloorDiv) and b[0] >= 1:
                c = [fdiv(x, y) for x in a for y in b]
                return (min(c), max(c))
            return None
        if isinstance(e, ast.BoolOp) and isinstance(e.op, ast.Or):
            out = None
            for i, v in enumerate(e.values):
                r = self.ev(v, at, facts, depth + 1)
                if r is None:
                    return None
                last = i == len(e.values) - 1
                parts = [r] if last else ([(r[0], min(r[1], -1))] if r[0] < 0 else []) + ([(max(r[0], 1), r[1])] if r[1] >= 1 else [])
                for p_ in parts:
                    out = p_ if out is None else self.join(out, p_)
                if not last and not (r[0] <= 0 <= r[1]):
                    break               # never falsy: the later operands are not reached
            return out
        if isinstance(e, ast.IfExp):
            arms = []
            for arm, neg in ((e.body, False), (e.orelse, True)):
                f2 = dict(facts)
                for x, k in _len_bounds(_rel(e.test, neg)).items():
                    d = self.rin.get(at.id, {}).get(x)
                    if d and len(d) == 1 and k > f2.get(x, (0, None))[0]:
                        f2[x] = (k, frozenset(d))
                arms.append(self.ev(arm, at, f2, depth + 1))
            if arms[0] is None or arms[1] is None:
                return None
            return self.join(*arms)
        if isinstance(e, ast.Call) and not e.keywords and not any(isinstance(a, ast.Starred) for a in e.args):
            cn = call_name(e)
            if isinstance(e.func, ast.Name) and cn == "len" and len(e.args) == 1:
                x = norm(e.args[0])
                k, d = facts.get(x, (0, None))
                if k and d != frozenset(self.rin.get(at.id, {}).get(x) or ()):
                    k = 0                   # the test was about another binding of the name
                return (k, _INF)
            if isinstance(e.func, ast.Name) and cn in ("min", "max") and len(e.args) >= 2:
                rs = [self.ev(a, at, facts, depth + 1) for a in e.args]
                known = [r for r in rs if r is not None]
                if len(known) < len(rs):
                    # an operand that is not understood cannot lower a maximum
                    if cn == "max" and known:
                        return (max(r[0] for r in known), _INF)
                    return None
                f = min if cn == "min" else max
                return (f(r[0] for r in rs), f(r[1] for r in rs))
            if isinstance(e.func, ast.Name) and cn == "int" and len(e.args) == 1:
                return self.ev(e.args[0], at, facts, depth + 1)
            if cn == "cpu_count" and not e.args:
                return (1, _INF)
        return None


# ---------------------------------------------------------------------------
# R20.pmap ...::iterable-drawn-once.  The items may come from a one-shot iterator (a generator, a map object): whatever iterates
# the iterable before the executor draws from it leaves nothing to be mapped.  Every place that reads the iterable as it was
# passed (the parameter binding, iter() of it, single-assignment aliases; lazy wrappers such as enumerate / zip / a generator
# expression stand for what they wrap) is classified: harmless (len, type tests, identity / truth tests), the executor's draw
# (the place the result analysis followed, or an expression that hands it to a method of the executor), consuming (a for
# statement, a list / set / dict comprehension, a builtin that runs through its argument, `in`, unpacking, a package helper that
# does one of these), or not recognised.  A consuming use from which the executor's draw can still be reached is a violation.
_DRAINS = ("list", "tuple", "sorted", "sum", "max", "min", "any", "all", "set", "frozenset", "dict", "next", "deque", "Counter",
           "array", "asarray", "fromiter", "join", "reduce", "bytes", "bytearray", "OrderedDict", "fsum", "prod", "mean")
_WRAPS = ("iter", "enumerate", "zip", "map", "filter", "islice", "chain", "tee", "starmap", "zip_longest", "takewhile", "dropwhile")


def _own_exprs(n):
    """the expressions a CFG node evaluates itself"""
    a = n.ast
    if a is None:
        return []
    if n.kind == "branch":
        return [a.test]
    if n.kind == "loop":
        return [a.test] if isinstance(a, ast.While) else [a.iter, a.target]
    if n.kind == "with":
        return [x for i in a.items for x in (i.context_expr, i.optional_vars) if x is not None]
    if n.kind == "handler":
        return [a.type] if a.type is not None else []
    if n.kind in ("stmt", "return", "raise"):
        return [a]
    return []


def _drawn_once(chk, repo, fi, cfg, view, rin, pit, ex, par, w):
    fn = fi.node
    q = fi.qualname
    pm = _parent_map(fn)
    sd = rules.single_defs(fn)
    node_of = {}
    for n in cfg.nodes:
        for r_ in _own_exprs(n):
            for x in ast.walk(r_):
                node_of.setdefault(id(x), n)
    own = {id(x) for x in walk_no_nested(fn)}

    def is_src(v):
        while isinstance(v, ast.Call) and isinstance(v.func, ast.Name) and v.func.id == "iter" and len(v.args) == 1 and not v.keywords:
            v = v.args[0]
        return isinstance(v, ast.Name) and v.id == pit
    aliases = {pit} | {k for k, v in sd.items() if k != pit and k not in func_params(fn) and is_src(v)}
    drawn = {id(x) for x in par.drawn}

    def has_exec_call(node):
        return any(isinstance(c, ast.Call) and isinstance(c.func, ast.Attribute) and isinstance(c.func.value, ast.Name) and c.func.value.id == ex
                   for c in ast.walk(node))

    def classify(x):
        """('harmless' | 'draw' | 'drain' | 'unknown', the expression or statement that does it)"""
        u = x
        for _ in range(12):
            p = pm.get(id(u))
            if isinstance(p, ast.keyword):
                kw_, p = p, pm.get(id(p))
            if isinstance(p, ast.Starred):
                gp = pm.get(id(p))
                return ("draw" if isinstance(gp, ast.Call) and has_exec_call(gp) else "drain"), (gp if gp is not None else p)
            if isinstance(p, ast.comprehension):
                comp = pm.get(id(p))
                if p.iter is not u or comp is None:
                    return "unknown", p
                if has_exec_call(comp):
                    return "draw", comp
                if isinstance(comp, ast.GeneratorExp):
                    u = comp            # lazy: what happens to the generator expression happens to the iterable
                    continue
                return "drain", comp
            if isinstance(p, ast.For) and p.iter is u:
                return ("draw" if has_exec_call(p) else "drain"), p
            if isinstance(p, ast.Call) and u is not p.func:
                f = p.func
                if isinstance(f, ast.Attribute) and isinstance(f.value, ast.Name) and f.value.id == ex:
                    return "draw", p
                if isinstance(f, ast.Name) and f.id not in sd and f.id not in func_params(fn):
                    if f.id in _HARMLESS or f.id == "getattr":
                        return "harmless", p
                    if f.id in _DRAINS:
                        return "drain", p
                    if f.id in _WRAPS:
                        u = p
                        continue
                if call_name(p) in _DRAINS and isinstance(f, ast.Attribute) and not (isinstance(f.value, ast.Name) and f.value.id in aliases):
                    return "drain", p   # np.array(x), "".join(x), collections.deque(x), functools.reduce(f, x)
                if call_name(p) in _WRAPS and isinstance(f, ast.Attribute):
                    u = p
                    continue
                g = _callee(repo, fi, p)
                if g is not None and isinstance(x, ast.Name) and u is x:
                    if g.qualname in ("esutil.pbar.pbar", "esutil.pbar.PBar", "esutil.pbar.sbar", "esutil.pbar._pbar_full"):
                        u = p           # the progress wrapper is lazy (R20.gen)
                        continue
                    role = _role(g, p, x.id)
                    if role is not None and not rules.is_generator(g.node):
                        bad, unknown = _iterable_uses(repo, g, role)
                        if bad:
                            return "drain", p
                        if not unknown:
                            return "harmless", p
                return "unknown", p
            if isinstance(p, ast.Compare):
                ops = [type(o) for o in p.ops]
                if any(o in (ast.In, ast.NotIn) for o in ops):
                    return ("drain" if u is not p.left else "harmless"), p
                return "harmless", p
            if isinstance(p, (ast.BoolOp, ast.If, ast.While)) or (isinstance(p, ast.UnaryOp) and isinstance(p.op, ast.Not)) \
                    or (isinstance(p, ast.IfExp) and p.test is u) or isinstance(p, ast.Assert):
                return "harmless", p
            if isinstance(p, ast.Attribute):
                gp = pm.get(id(p))
                return ("unknown" if isinstance(gp, ast.Call) and gp.func is p else "harmless"), p
            if isinstance(p, ast.Assign) and p.value is u and len(p.targets) == 1 and isinstance(p.targets[0], ast.Name) and p.targets[0].id in aliases \
                    and (p.targets[0].id != pit or is_src(u)):
                return "harmless", p    # the alias itself; its uses are classified where they are
            if isinstance(p, ast.YieldFrom):
                return "drain", p
            return "unknown", (p if p is not None else u)
        return "unknown", u

    # the definitions of the name that still stand for the iterable as it was passed: the parameter, and `iterable = iter(iterable)`
    same, grown = {cfg.entry.id}, True
    while grown:
        grown = False
        for n in cfg.nodes:
            if n.kind == "stmt" and n.id not in same and _same_stream(n.ast, pit) and same & set(rin.get(n.id, {}).get(pit) or ()):
                same.add(n.id)
                grown = True
    draws, drains, unknown = [], [], []
    for x in ast.walk(fn):
        if not (isinstance(x, ast.Name) and x.id in aliases and isinstance(x.ctx, ast.Load)):
            continue
        if id(x) not in own:
            unknown.append("use inside a nested function (line %s)" % x.lineno)
            continue
        n = node_of.get(id(x))
        if n is None:
            unknown.append("`%s`" % norm(pm.get(id(x), x))[:60])
            continue
        if x.id == pit and not (same & set(rin.get(n.id, {}).get(pit) or ())):
            continue                    # another binding of the name: not the iterable as it was passed
        kind, what = ("draw", x) if id(x) in drawn else classify(x)
        if kind == "draw":
            draws.append((n, what))
        elif kind == "drain":
            drains.append((n, what))
        elif kind == "unknown":
            unknown.append("`%s`" % norm(what)[:60])
    early = [(n, what, dn, dwhat) for n, what in drains for dn, dwhat in draws if n is not dn and view.reaches(n, dn)]
    if early:
        n, what, dn, dwhat = early[0]
        chk.ob("R20.pmap", q + "::iterable-drawn-once", False, fi.where(what if hasattr(what, "lineno") else None),
               "nothing runs through the iterable before the executor draws from it: `%s` iterates `%s` and `%s` (line %s) draws from it afterwards -- a one-shot "
               "iterator (generator, map object, iter(list)) arrives there exhausted and pmap returns a shorter list than list(map(fn, items))"
               % (norm(what)[:80], pit, norm(pm.get(id(dwhat), dwhat) if isinstance(dwhat, ast.Name) else dwhat)[:60], dn.lineno))
        return
    samenode = [what for n, what in drains for dn, _ in draws if n is dn]
    if not draws:
        # the executor draws from something else (a container the items were put into): one pass over the iterable is all there is
        ok = True if (len(drains) <= 1 and not unknown) else None
    else:
        ok = None if (unknown or samenode) else True
    chk.ob("R20.pmap", q + "::iterable-drawn-once", ok, fi.where(w),
           "nothing runs through the iterable before the executor draws from it (items given as a one-shot iterator are all still there) %s"
           % (unknown + ["`%s`" % norm(x)[:60] for x in samenode] + (["%d passes over it" % len(drains)] if not draws else []) if ok is None else ""))


def pmap(chk, repo):
    fi = repo.func("esutil.pbar.pmap")
    chk.analysed_unit(fi.qualname)
    q = fi.qualname
    fn = fi.node
    withs = [x for x in walk_no_nested(fn) if isinstance(x, ast.With)]
    ok = len(withs) == 1 and isinstance(withs[0].items[0].context_expr, ast.Call) and call_name(withs[0].items[0].context_expr) in ("ProcessPoolExecutor", "ThreadPoolExecutor")
    chk.ob("R20.pmap", q + "::executor-with-block", ok, fi.where(), "work runs inside `with <Executor>(...) as ex`")
    if not ok:
        return
    w = withs[0]
    ex = norm(w.items[0].optional_vars)
    mw = kwarg(w.items[0].context_expr, "max_workers")
    if mw is None and w.items[0].context_expr.args:
        mw = w.items[0].context_expr.args[0]
    chk.ob("R20.pmap", q + "::worker-count", mw is not None and norm(mw) == "nproc", fi.where(w), "max_workers is the requested nproc")
    if len(fi.params) < 2:
        raise AnalysisError("pmap lost its (fn, iterable) parameters")
    pf, pit = fi.params[0], fi.params[1]
    # the value of every return, evaluated over the stream domain (names followed through their reaching definitions)
    cfg = cfg_of(fi)
    rin, _ = cfg.view().reaching_defs()
    inside = {id(x) for x in ast.walk(w)}
    # the executor accepts only a positive worker count (or None): max_workers <= 0 is a ValueError before anything is mapped.  The
    # value range of the argument is computed for every nproc >= 1 and every number of items, none included.
    rng = _Range(cfg, cfg.view(), rin, {p_: (1, _INF) for p_ in ("nproc", "chunksize") if p_ in fi.params})
    wn = rules.node_of_stmt(cfg, w)
    if mw is None or (isinstance(mw, ast.Constant) and mw.value is None):
        okw, rtxt = True, "the executor's default"
    else:
        r = rng.ev(mw, wn) if wn is not None else None
        okw = None if r is None else r[0] >= 1
        rtxt = "not understood" if r is None else "its value range over all inputs is [%s, %s]" % r
    chk.ob("R20.pmap", q + "::worker-count-positive", okw, fi.where(w),
           "the worker count `%s` handed to the executor is at least 1 for every nproc >= 1 and every input, the empty one included (%s%s)%s"
           % (norm(mw) if mw is not None else None, rtxt, ("; " + "; ".join(rng.seen)) if rng.seen else "",
              ": for an input on which it is 0 the executor raises ValueError and pmap does not return list(map(fn, items))" if okw is False else ""))

    def resolve(name, at):
        if at is None:
            return None
        defs = rin.get(at.id, {}).get(name)
        if not defs:
            return None
        out = []
        for d in sorted(defs):
            dn = cfg.node(d)
            a = dn.ast
            if d == cfg.entry.id and name in penv:
                out.append((("val", penv[name]), None))     # the parameter as it was passed
                continue
            if dn.kind != "stmt" or not isinstance(a, ast.Assign) or len(a.targets) != 1 or not isinstance(a.targets[0], ast.Name):
                return None
            out.append((a.value, dn))
        return out
    penv = {p.lstrip("*"): ("param", p.lstrip("*")) for p in fi.params}
    penv.update({pf: ("fnparam", pf), pit: ("iterable", pit)})
    env = dict(penv, **{ex: ("exec",)})
    env = {k: v for k, v in env.items() if _stores(fn, k) == (1 if k == ex else 0)}
    par = _Par(repo, inside)
    top = _Frame(fi, env, resolve, top=True)
    rns = rules.return_nodes(cfg)
    vals = [par.ev(top, n.ast.value, n) if n.ast.value is not None else ("none",) for n in rns]
    scope = [fi] + par.visited
    # the executor API in use
    holders = [(fi, ex)] + par.exec_params
    apis = [x for g, nm in holders for x in walk_no_nested(g.node) if isinstance(x, ast.Call) and isinstance(x.func, ast.Attribute)
            and isinstance(x.func.value, ast.Name) and x.func.value.id == nm]
    names = [x.func.attr for x in apis]

    def shaped(v):
        """('cont', 'list', ('stream', ('items', S), ('app', F, ('item', S)))): the list of F(x) for the items x of S, in the order of S"""
        return v is not None and len(v) == 3 and v[0] == "cont" and v[1] == "list" and v[2][1][0] == "items" and v[2][2][0] == "app" \
            and v[2][2][2] == ("item", v[2][1][1]) and isinstance(v[2][2][1], str)
    if par.bad or (vals and any(not _unknown_in(v) and not shaped(v) for v in vals)):
        res = False
    elif vals and all(shaped(v) for v in vals):
        res = True
    else:
        res = None
    other = [a for a in names if a not in ("map", "submit")]
    if other or not names:
        oka = False
    elif "submit" in names:
        oka = res           # futures are in submission order; whether they are also collected in that order is what the result analysis decides
    else:
        oka = True
    chk.ob("R20.pmap", q + "::ordered-map-only", oka, fi.where(w),
           "the executor is used only through the order-preserving map, or through submit with the futures drained in submission order (found %s)" % names)
    forbidden = [norm(x.func) for g in scope for x in walk_no_nested(g.node) if isinstance(x, ast.Call) and call_name(x) in _UNORDERED]
    chk.ob("R20.pmap", q + "::no-unordered-collection", not forbidden, fi.where(), "no completion-ordered collection API (%s)" % forbidden)
    # roles: the mapped function is fn, the items are those of iterable, the chunk size is chunksize
    if vals and all(shaped(v) for v in vals):
        okr = all(v[2][2][1] == pf and v[2][1][1] == pit for v in vals)
        if okr:
            cs = [c for _, c in par.map_chunksize]
            if any(c is None or norm(c) != "chunksize" for c in cs):
                okr = False
            elif any(c != ("param", "chunksize") for c in par.chunk_n):
                okr = None              # chunks of another length give the same list: not judged
    else:
        okr = None
    where = fi.where(par.map_chunksize[0][0]) if par.map_chunksize else fi.where(w)
    # Executor.map rejects chunksize < 1: the chunk size handed on must be positive for every chunksize >= 1 and every input
    for mc, c in par.map_chunksize:
        cn_ = next((n for n in cfg.nodes if n.kind in ("stmt", "return") and n.ast is not None and any(x is mc for x in ast.walk(n.ast))), None)
        if c is None or cn_ is None:
            continue                    # the default of 1, or a map call in a helper (its chunk size is that helper's parameter)
        rng2 = _Range(cfg, cfg.view(), rin, rng.dom)
        r = rng2.ev(c, cn_)
        okc = None if r is None else r[0] >= 1
        chk.ob("R20.pmap", q + "::chunksize-positive", okc, fi.where(mc),
               "the chunk size `%s` handed to Executor.map is at least 1 for every chunksize >= 1 and every input (%s%s)"
               % (norm(c), "not understood" if r is None else "its value range over all inputs is [%s, %s]" % r,
                  ("; " + "; ".join(rng2.seen)) if rng2.seen else ""))
    if not (okr is None and res is False):      # a result of another kind is reported below
        chk.ob("R20.pmap", q + "::map-roles", okr, where, "the mapped function is fn, its inputs are the items of iterable, the chunk size is chunksize "
               "(ex.map(fn, iterable, chunksize=chunksize) or the equivalent with submit)")
    chk.ob("R20.pmap", q + "::result-is-list-of-ordered-map", res, fi.where(),
           "the result is list(pbar(<fn over the items, in input order>)) evaluated inside the with-block (all items, input order) %s %s"
           % ("; ".join(par.bad), [v for v in vals if not shaped(v)][:1] if res is False else ""))
    falls = [p for p in rules.falls_off_end(cfg) if not (p.kind == "raise")]
    okt = bool(rns) and not falls and all(n.ast.value is not None for n in rns) and res is not False
    chk.ob("R20.pmap", q + "::returns-that-list", None if (okt and res is None) else okt, fi.where(), "that list is returned unmodified on every path")
    srt = [norm(x) for g in scope for x in walk_no_nested(g.node) if isinstance(x, ast.Call) and call_name(x) in _REORDER]
    chk.ob("R20.pmap", q + "::no-reordering", not srt, fi.where(), "nothing reorders or de-duplicates the results (%s)" % srt)
    _drawn_once(chk, repo, fi, cfg, cfg.view(), rin, pit, ex, par, w)


# ---------------------------------------------------------------------------
# Normal form of an anchored function whose work was moved into shared helpers.  Each step keeps what the function does for every input:
#   * delegation:  `def f(a, b): return g(a, None, b)`  ->  the body of g with its parameters replaced by what f passes;
#   * procedures:  a statement `h(x, y)` whose callee only stores into its arguments (no locals, no return)  ->  the body of h;
#   * None-ness:   tests `p is None` / `p is not None` on a parameter that is passed the literal None, or that is one of the arrays
#                  being sorted (never None: the property quantifies over lists and arrays), are decided and the dead arm removed;
#   * un-delegation: a call g(x, None, y) that is, argument for argument, the body of the delegating anchor f is written f(x, y).
# The rules then read the same statements they read before the helper was shared.
class _Subst(ast.NodeTransformer):
    def __init__(self, m):
        self.m = m

    def visit_Name(self, n):
        if n.id in self.m:
            v = self.m[n.id]
            if isinstance(v, ast.Name):
                return ast.copy_location(ast.Name(id=v.id, ctx=n.ctx), n)
            if isinstance(n.ctx, ast.Load):
                return ast.copy_location(copy.deepcopy(v), n)
        return n


def _plain_params(g):
    a = g.node.args
    if a.vararg or a.kwarg or a.kwonlyargs or a.posonlyargs:
        return None
    return [x.arg for x in a.args]


def _has_nested(fn):
    return any(isinstance(x, (ast.FunctionDef, ast.AsyncFunctionDef, ast.ClassDef, ast.Lambda)) and x is not fn for x in ast.walk(fn))


def _delegation(repo, fi):
    """(g, call) when the body of fi is nothing but `return g(...)` / `g(...)`, g a function of the package and every argument a
    parameter of fi or a literal"""
    body = [x for x in fi.node.body if not _isdoc(x)]
    if len(body) != 1 or not isinstance(body[0], (ast.Return, ast.Expr)) or not isinstance(body[0].value, ast.Call):
        return None
    c = body[0].value
    if c.keywords or any(isinstance(a, ast.Starred) for a in c.args):
        return None
    g = _callee(repo, fi, c)
    if g is None or g.node is fi.node or g.module is not fi.module or rules.is_generator(g.node) or _has_nested(g.node):
        return None
    params = _plain_params(g)
    if params is None or len(params) != len(c.args):
        return None
    if not all((isinstance(a, ast.Name) and a.id in fi.params) or isinstance(a, ast.Constant) for a in c.args):
        return None
    return g, c


def _stored_names(fn):
    return {x.id for x in ast.walk(fn) if isinstance(x, ast.Name) and isinstance(x.ctx, (ast.Store, ast.Del))}


def _follow_delegation(repo, fi):
    """fi with the body of the function it delegates to (parameters substituted), or fi itself"""
    for _ in range(3):
        d = _delegation(repo, fi)
        if d is None:
            return fi
        g, c = d
        params = _plain_params(g)
        stored = _stored_names(g.node)
        if (stored - set(params)) & set(fi.params):
            return fi                   # a local of the helper would capture a parameter
        names = [a.id for a in c.args if isinstance(a, ast.Name)]
        if len(set(names)) != len(names):
            return fi                   # one object under two parameter names
        m, pro = {}, []
        for p_, a in zip(params, c.args):
            if isinstance(a, ast.Constant) and p_ in stored:
                if p_ in fi.params:
                    return fi
                pro.append(ast.copy_location(ast.Assign(targets=[ast.Name(id=p_, ctx=ast.Store())], value=copy.deepcopy(a), lineno=g.node.lineno), g.node))
            else:
                m[p_] = a
        body = [_Subst(m).visit(copy.deepcopy(x)) for x in g.node.body]
        node = copy.copy(fi.node)
        node.body = pro + body
        node.decorator_list = []
        ast.copy_location(node, g.node)
        ast.fix_missing_locations(node)
        fi = FuncInfo(fi.qualname, fi.module, fi.cls, node, fi.path)
    return fi


def _procedure_body(repo, fi, call):
    """the statements a statement-level call stands for, or None"""
    if call.keywords or any(isinstance(a, ast.Starred) for a in call.args):
        return None
    h = _callee(repo, fi, call)
    if h is None or h.node is fi.node or h.module is not fi.module or rules.is_generator(h.node) or _has_nested(h.node):
        return None
    params = _plain_params(h)
    if params is None or len(params) != len(call.args) or _stored_names(h.node):
        return None
    if any(isinstance(x, (ast.Return, ast.Global, ast.Nonlocal, ast.Try, ast.With)) for x in ast.walk(h.node)):
        return None
    if not all(isinstance(a, ast.Constant) or _index_term(a) is not None for a in call.args):
        return None
    m = dict(zip(params, call.args))
    return [_Subst(m).visit(copy.deepcopy(x)) for x in h.node.body if not _isdoc(x)]


def _map_blocks(node, f):
    """apply f to every statement list of the function, innermost first"""
    for x in ast.walk(node):
        for fld in ("body", "orelse", "finalbody"):
            v = getattr(x, fld, None)
            if isinstance(v, list) and v and isinstance(v[0], ast.stmt):
                setattr(x, fld, f(v) or [ast.copy_location(ast.Pass(), v[0])])


def _inline_procedures(repo, fi):
    changed = []

    def f(stmts):
        out = []
        for x in stmts:
            b = _procedure_body(repo, fi, x.value) if (isinstance(x, ast.Expr) and isinstance(x.value, ast.Call)) else None
            if b is None:
                out.append(x)
            else:
                changed.append(x)
                out += b
        return out
    node = copy.deepcopy(fi.node)
    fi2 = FuncInfo(fi.qualname, fi.module, fi.cls, node, fi.path)
    for _ in range(3):
        n0 = len(changed)
        _map_blocks(node, f)
        if len(changed) == n0:
            break
    return fi2 if changed else fi


class _FoldNone(ast.NodeTransformer):
    """decide `x is None` / `x is not None` for the literal None and for names known not to be None; `not`, and/or of decided tests"""
    def __init__(self, notnone):
        self.notnone = set(notnone)

    def visit_Compare(self, n):
        self.generic_visit(n)
        if len(n.ops) == 1 and isinstance(n.ops[0], (ast.Is, ast.IsNot)) and isinstance(n.comparators[0], ast.Constant) and n.comparators[0].value is None:
            isnone = None
            if isinstance(n.left, ast.Constant):
                isnone = n.left.value is None
            elif isinstance(n.left, ast.Name) and n.left.id in self.notnone:
                isnone = False
            if isnone is not None:
                return ast.copy_location(ast.Constant(value=(isnone == isinstance(n.ops[0], ast.Is))), n)
        return n

    def visit_UnaryOp(self, n):
        self.generic_visit(n)
        if isinstance(n.op, ast.Not) and isinstance(n.operand, ast.Constant) and isinstance(n.operand.value, bool):
            return ast.copy_location(ast.Constant(value=not n.operand.value), n)
        return n

    def visit_BoolOp(self, n):
        self.generic_visit(n)
        isand = isinstance(n.op, ast.And)
        vals = []
        for v in n.values:
            if isinstance(v, ast.Constant) and isinstance(v.value, bool):
                if v.value != isand:
                    return ast.copy_location(ast.Constant(value=v.value), n)
                continue
            vals.append(v)
        if not vals:
            return ast.copy_location(ast.Constant(value=isand), n)
        return vals[0] if len(vals) == 1 else ast.copy_location(ast.BoolOp(op=n.op, values=vals), n)


def _specialise_none(fi, notnone):
    node = _FoldNone([x for x in notnone if x not in _stored_names(fi.node)]).visit(copy.deepcopy(fi.node))

    def f(stmts):
        out = []
        for x in stmts:
            if isinstance(x, ast.If) and isinstance(x.test, ast.Constant) and isinstance(x.test.value, bool):
                out += x.body if x.test.value else x.orelse
            else:
                out.append(x)
        return out
    _map_blocks(node, f)
    ast.fix_missing_locations(node)
    if ast.dump(node) == ast.dump(fi.node):
        return fi
    return FuncInfo(fi.qualname, fi.module, fi.cls, node, fi.path)


def _undelegate(repo, fi, anchors):
    """calls in fi that are, argument for argument, the body of a delegating anchor, written as calls of that anchor"""
    temps = []
    for a in anchors:
        d = _delegation(repo, a)
        if d is not None:
            temps.append((a, d[0], d[1]))
    if not temps:
        return fi
    node = copy.deepcopy(fi.node)
    fi2 = FuncInfo(fi.qualname, fi.module, fi.cls, node, fi.path)
    changed = False
    for c in [x for x in ast.walk(node) if isinstance(x, ast.Call)]:
        if c.keywords or any(isinstance(x, ast.Starred) for x in c.args):
            continue
        g = _callee(repo, fi2, c)
        for a, tg, tc in temps:
            if g is None or g.node is not tg.node or len(c.args) != len(tc.args):
                continue
            bind, ok = {}, True
            for t, v in zip(tc.args, c.args):
                if isinstance(t, ast.Constant):
                    ok = ok and isinstance(v, ast.Constant) and type(v.value) is type(t.value) and v.value == t.value
                elif t.id in bind:
                    ok = ok and ast.dump(bind[t.id]) == ast.dump(v)
                else:
                    bind[t.id] = v
            pa = _plain_params(a)
            if not ok or pa is None or set(bind) != set(pa):
                continue
            c.func = ast.copy_location(ast.Name(id=a.name, ctx=ast.Load()), c.func)
            c.args = [bind[p_] for p_ in pa]
            changed = True
            break
    return fi2 if changed else fi


_KEEP = []      # rewritten functions stay alive for the whole run: the engine caches CFGs and definitions by id(node)


def _normal_form(repo, fi, arrays=(), anchors=()):
    f0 = fi
    fi = _follow_delegation(repo, fi)
    fi = _inline_procedures(repo, fi)
    fi = _specialise_none(fi, arrays)
    fi = _undelegate(repo, fi, [a for a in anchors if a.node is not f0.node])
    _KEEP.append(fi)
    return fi


# ---------------------------------------------------------------------------
class _Rename(ast.NodeTransformer):
    def __init__(self, m):
        self.m = m

    def visit_Name(self, n):
        if n.id in self.m:
            return ast.copy_location(ast.Name(id=self.m[n.id], ctx=n.ctx), n)
        return n


def _truth_flags(fn, params):
    """local names that are only ever bound to a literal 0 / 1 / False / True by a plain assignment and only ever read for their truth
    value (operand of `not`, test of if / while / conditional expression): whether the literal is spelled as int or bool is immaterial"""
    pm = _parent_map(fn)
    good, bad = set(), set(params)
    for x in ast.walk(fn):
        if isinstance(x, (ast.Global, ast.Nonlocal)):
            bad |= set(x.names)
        if not isinstance(x, ast.Name):
            continue
        par = pm.get(id(x))
        if isinstance(x.ctx, ast.Store):
            if isinstance(par, ast.Assign) and len(par.targets) == 1 and par.targets[0] is x and isinstance(par.value, ast.Constant) \
                    and type(par.value.value) in (int, bool) and par.value.value in (0, 1):
                good.add(x.id)
            else:
                bad.add(x.id)
        elif isinstance(x.ctx, ast.Load):
            if not ((isinstance(par, ast.UnaryOp) and isinstance(par.op, ast.Not)) or (isinstance(par, (ast.If, ast.While, ast.IfExp)) and par.test is x)):
                bad.add(x.id)
        else:
            bad.add(x.id)
    return good - bad


class _Canon(ast.NodeTransformer):
    """one spelling for equivalent statements over integer cursors and array elements of a partition skeleton"""
    def __init__(self, flags):
        self.flags = flags

    def visit_AugAssign(self, n):
        self.generic_visit(n)
        if isinstance(n.target, ast.Name):
            v = ast.BinOp(left=ast.Name(id=n.target.id, ctx=ast.Load()), op=n.op, right=n.value)
            return ast.copy_location(ast.Assign(targets=[n.target], value=self._commute(v)), n)
        return n

    def visit_Assign(self, n):
        self.generic_visit(n)
        if len(n.targets) == 1 and isinstance(n.targets[0], ast.Name) and n.targets[0].id in self.flags and isinstance(n.value, ast.Constant):
            n.value = ast.copy_location(ast.Constant(value=bool(n.value.value)), n.value)
        return n

    def visit_Compare(self, n):
        self.generic_visit(n)
        if len(n.ops) == 1 and isinstance(n.ops[0], (ast.Gt, ast.GtE)):
            op = ast.Lt() if isinstance(n.ops[0], ast.Gt) else ast.LtE()
            return ast.copy_location(ast.Compare(left=n.comparators[0], ops=[op], comparators=[n.left]), n)
        return n

    def _commute(self, n):
        def lit(x):
            return isinstance(x, ast.Constant) and type(x.value) is int
        if isinstance(n.op, ast.Add) and lit(n.left) and not lit(n.right):
            n.left, n.right = n.right, n.left
        return n

    def visit_BinOp(self, n):
        self.generic_visit(n)
        return self._commute(n)


def _skeleton(fn, params):
    """the body of a function in a canonical spelling, as text: parameters named by position, locals by the order in which they are
    first bound, and the idioms of _Canon in one form.  Two functions with the same skeleton run the same statements on the same values"""
    fn = copy.deepcopy(fn)
    if any(isinstance(x, (ast.Global, ast.Nonlocal)) for x in ast.walk(fn)) or _has_nested(fn):
        return object()                 # equal to nothing
    fn = _Canon(_truth_flags(fn, params)).visit(fn)
    ast.fix_missing_locations(fn)
    m = {p_: "$p%d" % k for k, p_ in enumerate(params)}
    order = []

    class first_bindings(ast.NodeVisitor):
        def visit_Name(self, x):
            if isinstance(x.ctx, ast.Store) and x.id not in m and x.id not in order:
                order.append(x.id)
    first_bindings().visit(fn)
    for k, x in enumerate(order):
        m[x] = "$v%d" % k
    fn = _Rename(m).visit(fn)
    return [ast.dump(x) for x in fn.body if not _isdoc(x)]


def keyvalue(chk, repo):
    pk0 = repo.func("esutil.algorithm.partition_keyvalue")
    pp0 = repo.func("esutil.algorithm.partition")
    chk.analysed_unit(pk0.qualname)
    chk.analysed_unit(pp0.qualname)
    if len(pk0.params) < 2 or not pp0.params:
        raise AnalysisError("the partition functions lost their array parameters")
    # the bodies the two anchors stand for (a shared helper is followed, see _normal_form)
    pk = _normal_form(repo, pk0, arrays=pk0.params[:2])
    pp = _normal_form(repo, pp0, arrays=pp0.params[:1])
    if pk is not pk0 or pp is not pp0:
        chk.assume("the arrays handed to the sorts are not None")
    q = pk.qualname
    keys, vals = pk.params[0], pk.params[1]
    # pairing: every store keys[i] = keys[j] is immediately followed by vals[i] = vals[j]
    n_pairs = 0

    def visit(stmts):
        nonlocal n_pairs
        for i, s in enumerate(stmts):
            if isinstance(s, ast.Assign) and isinstance(s.targets[0], ast.Subscript) and norm(s.targets[0].value) == keys:
                nxt = stmts[i + 1] if i + 1 < len(stmts) else None
                idx = norm(s.targets[0].slice)
                ok = isinstance(nxt, ast.Assign) and isinstance(nxt.targets[0], ast.Subscript) and norm(nxt.targets[0].value) == vals \
                    and norm(nxt.targets[0].slice) == idx
                if ok:
                    # right-hand sides correspond: keys[j] <-> vals[j], pivot <-> pivot value
                    if isinstance(s.value, ast.Subscript) and norm(s.value.value) == keys:
                        ok = isinstance(nxt.value, ast.Subscript) and norm(nxt.value.value) == vals and norm(nxt.value.slice) == norm(s.value.slice)
                    else:
                        ok = isinstance(nxt.value, ast.Name) and isinstance(s.value, ast.Name)
                n_pairs += 1
                chk.ob("R20.kv", "%s::paired-store::%s" % (q, norm(s)), ok, pk.where(s),
                       "key store `%s` is paired with the same-index value store (next statement: `%s`)" % (norm(s), norm(nxt) if nxt is not None else None))
            for f in ("body", "orelse"):
                if hasattr(s, f) and isinstance(getattr(s, f), list):
                    visit(getattr(s, f))
    visit(pk.node.body)
    chk.ob("R20.kv", q + "::key-stores-found", n_pairs == 3, pk.where(), "three key stores (two exchanges and the pivot placement): %d" % n_pairs)
    # value stores without a key store are forbidden
    vstores = [x for x in ast.walk(pk.node) if isinstance(x, ast.Assign) and isinstance(x.targets[0], ast.Subscript) and norm(x.targets[0].value) == vals]
    chk.ob("R20.kv", q + "::no-unpaired-value-store", len(vstores) == n_pairs, pk.where(), "every value store belongs to a key store (%d vs %d)" % (len(vstores), n_pairs))
    # pivot value taken at the pivot position
    piv = {norm(x.targets[0]): norm(x.value) for x in pk.node.body if isinstance(x, ast.Assign) and isinstance(x.targets[0], ast.Name)}
    kp = [k for k, v in piv.items() if v == "%s[end]" % keys]
    vp = [k for k, v in piv.items() if v == "%s[end]" % vals]
    chk.ob("R20.kv", q + "::pivot-pair", len(kp) == 1 and len(vp) == 1, pk.where(), "pivot key and pivot value are read at the same position")
    # sibling skeleton: drop value statements, rename keys -> data, compare with the plain partition
    a = copy.deepcopy(pk.node)

    def strip_vals(stmts):
        out = []
        for s in stmts:
            if isinstance(s, ast.Assign):
                t = s.targets[0]
                if isinstance(t, ast.Subscript) and norm(t.value) == vals:
                    continue
                if isinstance(t, ast.Name) and vp and t.id == vp[0]:
                    continue
            for f in ("body", "orelse"):
                if hasattr(s, f) and isinstance(getattr(s, f), list):
                    setattr(s, f, strip_vals(getattr(s, f)))
            out.append(s)
        return out
    a.body = strip_vals(a.body)
    a = _Rename({keys: pp.params[0]}).visit(a)
    same = [ast.dump(x) for x in a.body if not _isdoc(x)] == [ast.dump(x) for x in pp.node.body if not _isdoc(x)]
    if not same:
        # the same comparison on one canonical spelling of both skeletons (see _skeleton): parameters by position, locals by order of
        # first binding, `x op= e` as `x = x op e`, `a > b` as `b < a`, `1 + x` as `x + 1`, a flag that is only ever tested set to a bool
        kparams = [p_ for p_ in pk.params if p_ != vals]
        if len(kparams) == len(pp.params):
            same = _skeleton(a, [pp.params[0]] + kparams[1:]) == _skeleton(pp.node, pp.params)
    chk.ob("R20.kv", "partition-siblings-agree", same, pk.where(), "partition_keyvalue minus its value stores is the plain partition (comparisons, cursor moves and exits agree)")
    # recursion wrappers
    for q2, part, nargs in (("esutil.algorithm._quicksort", "partition", 1), ("esutil.algorithm._quicksort_keyvalue", "partition_keyvalue", 2)):
        fi = repo.func(q2)
        chk.analysed_unit(q2)
        fi = _normal_form(repo, fi, arrays=fi.params[:nargs], anchors=[pp0 if nargs == 1 else pk0, fi])
        ok, found = _sort_ranges(fi, part, nargs)
        chk.ob("R20.sort", q2 + "::recursion", ok, fi.where(),
               "partition [start, end], then sort both [start, split-1] and [split+1, end] (by recursion, or by carrying on in a loop) (%s)" % found)
        pcs = [x for x in walk_no_nested(fi.node) if isinstance(x, ast.Call) and call_name(x) == part]
        if ok and len(pcs) == 1 and len(pcs[0].args) == nargs + 2:
            sorts_unless_idle(chk, fi, q2, pcs[0], fi.params[:nargs], "partitioning the range (`%s`)" % norm(pcs[0]))
        cfg = cfg_of(fi)
        v = cfg.view()
        lo, hi = fi.params[nargs:nargs + 2] if len(fi.params) >= nargs + 2 else ("start", "end")
        withcalls = [n for n in cfg.nodes if any(call_name(c) in (part, fi.name) for c in rules.stmts_calls(n))]
        ok = bool(withcalls) and all("%s < %s" % (lo, hi) in _facts(v, n) for n in withcalls)
        chk.ob("R20.sort", q2 + "::guard", ok, fi.where(), "partition and recursion only for ranges of two or more elements (start < end)")
    # no element is lost or duplicated by either partition (typestate of the vacated slot)
    permutation(chk, pp, pp.params[:1], repo)
    permutation(chk, pk, pk.params[:2], repo)


# ---------------------------------------------------------------------------
# R20.perm: the partition keeps the elements of every array it moves (a permutation), decided by a typestate analysis of the
# "vacated slot".  Abstract state, per path through the CFG (all inputs at once; nothing is executed):
#   * equalities / disequalities between index terms (names, literals, `start - 1`), learnt from assignments and from the tests on
#     the branch taken; flags such as `done` are index terms equal to a literal, which also prunes the edges a flag rules out;
#   * per array: closed (every element is in some slot), or open: the local that holds the element taken out, and the slot whose
#     content is a stale duplicate ("$h:<array>", an index term like any other);
#   * locals that hold a copy of a slot ("$c:<local>" is the index term of that slot).
# `a[i] = a[j]` must have i == the vacated slot (the vacated slot becomes j); `a[i] = saved` with i == the vacated slot closes the
# array; so does the "equal" side of a test a[i] == saved with i the vacated slot (the slot already holds an equal element).  Every
# path must reach the return with every array closed.
_IDENT = None


def _idents(text):
    global _IDENT
    if _IDENT is None:
        import re
        _IDENT = re.compile(r"[A-Za-z_]\w*")
    return set(_IDENT.findall(text)) if not text.startswith("$") else set()


def _is_const(t):
    return t in ("True", "False", "None") or t.lstrip("-").isdigit()


def _const_val(t):
    return {"True": 1, "False": 0, "None": None}.get(t, None) if not t.lstrip("-").isdigit() else int(t)


class _HS:
    """one abstract state of the vacated-slot analysis (see above)"""
    __slots__ = ("eq", "ne", "open", "cp", "unk")

    def __init__(self):
        self.eq = []        # list of sets of index terms known equal (size >= 2)
        self.ne = set()     # frozenset({a, b}): known different
        self.open = {}      # array -> local holding the element taken out
        self.cp = {}        # local -> array: the local holds a copy of array[$c:local]
        self.unk = None     # text of a construct the analysis does not follow

    def copy(self):
        o = _HS()
        o.eq = [set(c) for c in self.eq]
        o.ne = set(self.ne)
        o.open = dict(self.open)
        o.cp = dict(self.cp)
        o.unk = self.unk
        return o

    def key(self):
        return (frozenset(frozenset(c) for c in self.eq if len(c) > 1), frozenset(self.ne), tuple(sorted(self.open.items())),
                tuple(sorted(self.cp.items())), self.unk)

    def cls(self, t):
        for c in self.eq:
            if t in c:
                return c
        return {t}

    def same(self, a, b):
        return a == b or b in self.cls(a)

    def differ(self, a, b):
        for x in self.cls(a):
            for y in self.cls(b):
                if frozenset((x, y)) in self.ne or (_is_const(x) and _is_const(y) and x != y):
                    return True
        return False

    def union(self, a, b):
        """False: the state is infeasible (a != b is known)"""
        if self.same(a, b):
            return True
        if self.differ(a, b):
            return False
        ca, cb = self.cls(a), self.cls(b)
        self.eq = [c for c in self.eq if c is not ca and c is not cb] + [set(ca) | set(cb)]
        return True

    def set_ne(self, a, b):
        if self.same(a, b):
            return False
        self.ne.add(frozenset((a, b)))
        return True

    def forget(self, pred):
        """drop the index terms selected by pred; what is known about them passes to a surviving term of their class"""
        for c in list(self.eq):
            dead = {t for t in c if pred(t)}
            if not dead:
                continue
            live = c - dead
            rep = sorted(live)[0] if live else None
            for pr in list(self.ne):
                if pr & dead:
                    self.ne.discard(pr)
                    other = pr - dead
                    if rep is not None and len(other) == 1:
                        self.ne.add(frozenset((rep, next(iter(other)))))
            self.eq.remove(c)
            if len(live) > 1:
                self.eq.append(live)
        for pr in list(self.ne):
            if any(pred(t) for t in pr):
                self.ne.discard(pr)

    def kill_name(self, x):
        self.forget(lambda t: x in _idents(t))

    def kill_term(self, t0):
        self.forget(lambda t: t == t0)


def _index_term(e):
    """text of an index expression the analysis can name (names, literals, + and - of those), else None"""
    if isinstance(e, ast.Name):
        return e.id
    if isinstance(e, ast.Constant) and (isinstance(e.value, (int, bool)) or e.value is None):
        return norm(e)
    if isinstance(e, ast.UnaryOp) and isinstance(e.op, ast.USub) and isinstance(e.operand, ast.Constant) and isinstance(e.operand.value, int):
        return norm(e)
    if isinstance(e, ast.BinOp) and isinstance(e.op, (ast.Add, ast.Sub)) and _index_term(e.left) is not None and _index_term(e.right) is not None:
        return norm(e)
    return None


def _reads_only(repo, h, p, seen=()):
    """the function h uses its parameter p for nothing but reading single elements (`p[i]`), `len(p)`, and passing it bare to package
    functions that do the same: it stores nothing into p, makes no view or alias of it and does not keep it"""
    if (h.qualname, p) in seen:
        return True
    if len(seen) > 4 or rules.is_generator(h.node) or _has_nested(h.node) or _plain_params(h) is None or p not in _plain_params(h):
        return False
    pm = _parent_map(h.node)
    for x in ast.walk(h.node):
        if not (isinstance(x, ast.Name) and x.id == p):
            continue
        if not isinstance(x.ctx, ast.Load):
            return False
        par = pm.get(id(x))
        if isinstance(par, ast.Subscript) and par.value is x and isinstance(par.ctx, ast.Load) \
                and not any(isinstance(y, (ast.Slice, ast.Tuple, ast.Starred)) for y in ast.walk(par.slice)):
            continue
        if isinstance(par, ast.Call) and not par.keywords and any(a is x for a in par.args) and not any(isinstance(a, ast.Starred) for a in par.args):
            if isinstance(par.func, ast.Name) and par.func.id == "len" and len(par.args) == 1:
                continue
            g = _callee(repo, h, par)
            gp = _plain_params(g) if g is not None else None
            if gp is not None and len(gp) == len(par.args) and \
                    all(_reads_only(repo, g, gp[i], seen + ((h.qualname, p),)) for i, a in enumerate(par.args) if a is x):
                continue
        return False
    return True


class _Vacated:
    def __init__(self, fi, arrays, repo=None):
        self.repo = repo
        self.fi = fi
        self.arrays = list(arrays)
        self.cfg = cfg_of(fi)
        self.view = self.cfg.view()
        self.stores = {}       # id(stmt) -> (stmt, [verdicts], [texts])
        self.exits = []        # states that reach the normal exit
        self.blown = False

    # -- expressions ------------------------------------------------------
    def elem(self, e):
        """(array, index term) of `array[index]`, else None"""
        if isinstance(e, ast.Subscript) and isinstance(e.value, ast.Name) and e.value.id in self.arrays and not isinstance(e.slice, (ast.Slice, ast.Tuple)):
            t = _index_term(e.slice)
            return (e.value.id, t if t is not None else "?" + norm(e.slice))
        return None

    def touches(self, node):
        """does the node hand an array to something, or store to it in a way that is not a plain element store?  An array passed
        bare to a helper of the package that only reads elements of that parameter (see _reads_only) is not handed on: the call
        leaves every slot as it is and what it returns is an index (or value) the analysis knows nothing about"""
        stack = [node]
        while stack:
            x = stack.pop()
            if isinstance(x, ast.Name) and x.id in self.arrays:
                return True
            if isinstance(x, ast.Call) and self.reading_call(x):
                stack.extend(a for a in x.args if not (isinstance(a, ast.Name) and a.id in self.arrays))
                continue
            stack.extend(ast.iter_child_nodes(x))
        return False

    def reading_call(self, c):
        """a call of a package function that receives arrays bare, each in a parameter the callee only reads element by element"""
        if self.repo is None or c.keywords or any(isinstance(a, ast.Starred) for a in c.args):
            return False
        if not any(isinstance(a, ast.Name) and a.id in self.arrays for a in c.args):
            return False
        h = _callee(self.repo, self.fi, c)
        if h is None or h.node is self.fi.node:
            return False
        params = _plain_params(h)
        if params is None or len(params) != len(c.args):
            return False
        return all(_reads_only(self.repo, h, p_) for p_, a in zip(params, c.args) if isinstance(a, ast.Name) and a.id in self.arrays)

    def truth(self, t, st):
        if isinstance(t, ast.Constant):
            return bool(t.value)
        if isinstance(t, ast.UnaryOp) and isinstance(t.op, ast.Not):
            v = self.truth(t.operand, st)
            return None if v is None else (not v)
        if isinstance(t, ast.BoolOp):
            vs = [self.truth(v, st) for v in t.values]
            if isinstance(t.op, ast.And):
                return False if any(v is False for v in vs) else (True if all(v is True for v in vs) else None)
            return True if any(v is True for v in vs) else (False if all(v is False for v in vs) else None)
        if isinstance(t, ast.Name):
            for x in st.cls(t.id):
                if _is_const(x):
                    return bool(_const_val(x))
            return None
        if isinstance(t, ast.Compare) and len(t.ops) == 1 and isinstance(t.ops[0], (ast.Eq, ast.NotEq)):
            a, b = _index_term(t.left), _index_term(t.comparators[0])
            if a is not None and b is not None:
                r = True if st.same(a, b) else (False if st.differ(a, b) else None)
                return r if (r is None or isinstance(t.ops[0], ast.Eq)) else (not r)
        return None

    def assume(self, t, val, st):
        """refine st with `t` having the truth value `val`; False: infeasible"""
        if isinstance(t, ast.UnaryOp) and isinstance(t.op, ast.Not):
            return self.assume(t.operand, not val, st)
        if isinstance(t, ast.BoolOp):
            if isinstance(t.op, ast.And) == val:
                return all(self.assume(v, val, st) for v in t.values)
            return True
        if isinstance(t, ast.Compare) and len(t.ops) == 1 and isinstance(t.ops[0], (ast.Eq, ast.NotEq)):
            equal = isinstance(t.ops[0], ast.Eq) == val
            a, b = _index_term(t.left), _index_term(t.comparators[0])
            if a is not None and b is not None:
                return st.union(a, b) if equal else st.set_ne(a, b)
            # content test: array[i] == saved, i the vacated slot -> the slot holds an element equal to the one taken out
            for l, r in ((t.left, t.comparators[0]), (t.comparators[0], t.left)):
                el = self.elem(l)
                if equal and el is not None and isinstance(r, ast.Name) and st.open.get(el[0]) == r.id and st.same(el[1], "$h:" + el[0]):
                    self.close(st, el[0], el[1])
        return True

    def close(self, st, arr, idx):
        sv = st.open.pop(arr)
        st.kill_term("$h:" + arr)
        st.kill_term("$c:" + sv)
        st.union("$c:" + sv, idx)

    # -- statements -------------------------------------------------------
    def note(self, stmt, verdict, text):
        rec = self.stores.setdefault(id(stmt), (stmt, [], []))
        rec[1].append(verdict)
        if verdict is not True and text not in rec[2]:
            rec[2].append(text)

    def store(self, st, stmt, target, value):
        """array[i] = value"""
        arr, i = self.elem(target)
        src = self.elem(value)
        saved = st.open.get(arr)
        if src is None and isinstance(value, ast.Name) and st.cp.get(value.id) == arr and value.id != saved:
            src = (arr, "$c:" + value.id)            # a local copy of a slot stands for that slot
        hole = "$h:" + arr
        if src is not None and src[0] == arr:
            j = src[1]
            if st.same(i, j):
                self.note(stmt, True, "")
                return
            if saved is not None:
                if st.same(i, hole):
                    st.kill_term(hole)
                    st.union(hole, j)
                    self.drop_copies(st, arr, i, keep=saved)
                    self.note(stmt, True, "")
                elif st.differ(i, hole):
                    self.note(stmt, False, "`%s` overwrites %s[%s], which is not the vacated slot: that element is lost" % (norm(stmt), arr, i))
                    st.unk = norm(stmt)
                else:
                    self.note(stmt, None, "`%s`: %s is not known to be the vacated slot" % (norm(stmt), i))
                    st.unk = norm(stmt)
                return
            keepers = [v for v, a in st.cp.items() if a == arr and st.same("$c:" + v, i)]
            if keepers:
                sv = sorted(keepers)[0]
                st.open[arr] = sv
                st.kill_term(hole)
                st.union(hole, j)
                self.drop_copies(st, arr, i, keep=sv)
                self.note(stmt, True, "")
            elif not any(a == arr for a in st.cp.values()):
                self.note(stmt, False, "`%s` overwrites %s[%s] while no local keeps that element" % (norm(stmt), arr, i))
                st.unk = norm(stmt)
            else:
                self.note(stmt, None, "`%s`: no local is known to keep %s[%s]" % (norm(stmt), arr, i))
                st.unk = norm(stmt)
            return
        if isinstance(value, ast.Name) and saved == value.id:
            if st.same(i, hole):
                self.close(st, arr, i)
                self.note(stmt, True, "")
            elif st.differ(i, hole):
                self.note(stmt, False, "`%s` puts the element taken out into %s[%s], which is not the vacated slot" % (norm(stmt), arr, i))
                st.unk = norm(stmt)
            else:
                self.note(stmt, None, "`%s`: %s is not known to be the vacated slot" % (norm(stmt), i))
                st.unk = norm(stmt)
            return
        self.note(stmt, None, "`%s`: the stored value is neither an element of %s nor the element taken out" % (norm(stmt), arr))
        st.unk = norm(stmt)

    def drop_copies(self, st, arr, i, keep):
        for v, a in list(st.cp.items()):
            if a == arr and v != keep and not st.differ("$c:" + v, i):
                del st.cp[v]
                st.kill_term("$c:" + v)

    def assign_name(self, st, name, value):
        if name in self.arrays:
            st.unk = "array %s re-bound" % name
            return
        if name in st.open.values():
            st.unk = "the local `%s` that holds the element taken out is re-bound" % name
        if name in st.cp:
            del st.cp[name]
            st.kill_term("$c:" + name)
        t = _index_term(value) if value is not None else None
        st.kill_name(name)
        el = self.elem(value) if value is not None else None
        if el is not None:
            if el[1].startswith("?"):
                st.unk = "element read at an index the analysis cannot name: `%s`" % norm(value)
                return
            st.cp[name] = el[0]
            st.union("$c:" + name, el[1])
        elif t is not None and name not in _idents(t):
            st.union(name, t)
        elif value is not None and self.touches(value):
            st.unk = "`%s = %s`" % (name, norm(value))

    def stmt(self, st, a):
        if isinstance(a, ast.Assign):
            pairs = []
            for t in a.targets:
                if isinstance(t, (ast.Tuple, ast.List)):
                    if isinstance(a.value, (ast.Tuple, ast.List)) and len(a.value.elts) == len(t.elts):
                        pairs += list(zip(t.elts, a.value.elts))
                    else:
                        pairs += [(x, None) for x in t.elts]
                else:
                    pairs.append((t, a.value))
            arrs = [self.elem(t)[0] for t, _ in pairs if self.elem(t) is not None]
            if len(pairs) > 1 and (len(set(arrs)) != len(arrs) or any(self.elem(t) is None for t, _ in pairs)):
                if self.touches(a):
                    st.unk = norm(a)          # parallel assignment mixing slots of one array (a swap): another algorithm
                    return
            for t, v in pairs:
                if self.elem(t) is not None and v is not None:
                    self.store(st, a, t, v)
                elif isinstance(t, ast.Name):
                    self.assign_name(st, t.id, v)
                elif self.touches(t) or (v is not None and self.touches(v)):
                    st.unk = norm(a)
            return
        if isinstance(a, ast.AugAssign):
            if isinstance(a.target, ast.Name) and not self.touches(a.value):
                self.assign_name(st, a.target.id, None)
            elif self.touches(a):
                st.unk = norm(a)
            return
        if isinstance(a, (ast.Pass, ast.Break, ast.Continue, ast.Import, ast.ImportFrom, ast.Global, ast.Nonlocal)):
            return
        if isinstance(a, ast.Expr) and isinstance(a.value, ast.Constant):
            return
        if isinstance(a, ast.Assert):
            return
        if self.touches(a):
            st.unk = norm(a)[:60]
            return
        for x in ast.walk(a):
            if isinstance(x, ast.Name) and isinstance(x.ctx, (ast.Store, ast.Del)):
                self.assign_name(st, x.id, None)

    # -- exploration ------------------------------------------------------
    def run(self):
        cfg = self.cfg
        seen = set()
        work = [(cfg.entry, _HS())]
        while work:
            n, st = work.pop()
            k = (n.id, st.key())
            if k in seen:
                continue
            seen.add(k)
            if len(seen) > 20000:
                self.blown = True
                return
            if n is cfg.exit:
                self.exits.append(st)
                continue
            if n is cfg.raise_exit:
                continue
            a = n.ast
            test = None
            if n.kind == "branch" or (n.kind == "loop" and isinstance(a, ast.While)):
                test = a.test
            elif n.kind == "loop":
                st = st.copy()
                for x in ast.walk(a.target):
                    if isinstance(x, ast.Name):
                        self.assign_name(st, x.id, None)
                if self.touches(a.iter):
                    st.unk = "loop over `%s`" % norm(a.iter)
            elif n.kind == "stmt":
                st = st.copy()
                self.stmt(st, a)
            elif n.kind in ("return", "raise"):
                if a is not None and getattr(a, "value", None) is not None and any(isinstance(x, ast.Call) for x in ast.walk(a.value)) and self.touches(a.value):
                    st = st.copy()
                    st.unk = norm(a)
            elif n.kind in ("with", "try", "handler", "def"):
                if n.kind != "try" and a is not None:
                    st = st.copy()
                    st.unk = "%s block" % n.kind
                elif n.kind == "try":
                    st = st.copy()
                    st.unk = "try block"
            tv = self.truth(test, st) if test is not None else None
            for j in self.view.g.successors(n.id):
                labs = self.view.g[n.id][j]["labels"]
                m = self.cfg.node(j)
                if test is None:
                    work.append((m, st))
                    continue
                for lab in ("T", "F"):
                    if lab not in labs or tv is (lab == "F"):
                        continue
                    s2 = st.copy()
                    if self.assume(test, lab == "T", s2):
                        work.append((m, s2))

    # -- verdicts ---------------------------------------------------------
    def write_backs(self, arr):
        """statements `arr[i] = <local that was read from arr>`"""
        out = []
        readers = {x.targets[0].id for x in walk_no_nested(self.fi.node) if isinstance(x, ast.Assign) and len(x.targets) == 1
                   and isinstance(x.targets[0], ast.Name) and self.elem(x.value) is not None and self.elem(x.value)[0] == arr}
        for x in walk_no_nested(self.fi.node):
            if isinstance(x, ast.Assign):
                ts = x.targets[0].elts if isinstance(x.targets[0], (ast.Tuple, ast.List)) else x.targets
                vs = x.value.elts if isinstance(x.targets[0], (ast.Tuple, ast.List)) and isinstance(x.value, (ast.Tuple, ast.List)) else [x.value] * len(ts)
                for t, v in zip(ts, vs):
                    if self.elem(t) is not None and self.elem(t)[0] == arr and isinstance(v, ast.Name) and v.id in readers:
                        out.append(x)
        return out

    def content_only(self, test):
        """the test compares nothing but array elements and locals read from the arrays (it says nothing about positions)"""
        readers = {x.targets[0].id for x in walk_no_nested(self.fi.node) if isinstance(x, ast.Assign) and len(x.targets) == 1
                   and isinstance(x.targets[0], ast.Name) and self.elem(x.value) is not None}
        ops = []

        def leaves(t):
            if isinstance(t, ast.BoolOp):
                for v in t.values:
                    leaves(v)
            elif isinstance(t, ast.UnaryOp) and isinstance(t.op, ast.Not):
                leaves(t.operand)
            elif isinstance(t, ast.Compare):
                ops.extend([t.left] + list(t.comparators))
            else:
                ops.append(None)
        leaves(test)
        return bool(ops) and all(o is not None and (self.elem(o) is not None or (isinstance(o, ast.Name) and o.id in readers)) for o in ops)


def permutation(chk, fi, arrays, repo=None):
    q = fi.qualname
    va = _Vacated(fi, arrays, repo)
    try:
        va.run()
    except AnalysisError:
        va.blown = True
    unk = sorted({st.unk for st in va.exits if st.unk is not None})
    for k, (stmt, verdicts, texts) in enumerate(sorted(va.stores.values(), key=lambda r: _pos(r[0]))):
        ok = False if any(v is False for v in verdicts) else (None if any(v is None for v in verdicts) else True)
        chk.ob("R20.perm", "%s::store-fills-the-vacated-slot::S%d::%s" % (q, k + 1, norm(stmt)), ok, fi.where(stmt),
               "an element store overwrites only the slot whose element is held elsewhere (the pivot's slot, then the slot last moved from): "
               "no element is lost or duplicated %s" % ("; ".join(texts)))
    bad_store = any(any(v is False for v in r[1]) for r in va.stores.values())
    for arr in arrays:
        left = [st for st in va.exits if st.unk is None and arr in st.open]
        ok, why = True, ""
        if va.blown or not va.exits:
            ok, why = None, "the paths of the function could not be enumerated"
        elif left:
            wbs = va.write_backs(arr)
            sv = sorted({st.open[arr] for st in left})
            if not wbs:
                ok, why = False, "`%s` is taken out of %s and never stored back" % (sv[0], arr)
            else:
                tests = []
                for w in wbs:
                    nd = rules.node_of_stmt(va.cfg, w)
                    if nd is None:
                        continue
                    # the tests the write-back depends on and the return does not
                    common = None
                    for rn in rules.return_nodes(va.cfg) + [x for x in rules.falls_off_end(va.cfg, va.view)]:
                        cb = {(b.id, lab) for b, lab in va.view.controlling_branches(rn)}
                        common = cb if common is None else (common & cb)
                    for b, lab in va.view.controlling_branches(nd):
                        if (b.id, lab) not in (common or set()) and (b.kind == "branch" or isinstance(b.ast, ast.While)):
                            tests.append((b.ast.test, lab))
                if tests and all(va.content_only(t) for t, _ in tests):
                    ok = False
                    why = "the write-back `%s` is skipped when `%s` is %s, a comparison of contents that says nothing about %s[...]: the vacated slot keeps a stale " \
                          "copy of a moved element and the element in `%s` is lost" % (norm(wbs[0]), norm(tests[0][0]), "false" if tests[0][1] == "T" else "true", arr, sv[0])
                else:
                    ok, why = None, "a path returns without the write-back `%s`; the condition it depends on is not understood" % norm(wbs[0])
        elif unk and not bad_store:
            ok, why = None, "construct not followed: %s" % unk
        elif unk:
            continue                    # reported by the store instance
        chk.ob("R20.perm", "%s::element-taken-out-is-put-back::%s" % (q, arr), ok, fi.where(),
               "every path to the return stores the element taken out of `%s` (the pivot) back into the vacated slot, or finds an equal element there%s"
               % (arr, (": " + why) if why else ""))


def _sort_ranges(fi, part, nargs):
    """(verdict, text): after `split = partition(arrays, start, end)` the ranges [start, split-1] and [split+1, end] are both handed on,
    each by a recursive call or by the next round of the enclosing `while start < end` loop"""
    fn = fi.node
    if len(fi.params) < nargs + 2:
        return None, "parameters changed"
    arrs = fi.params[:nargs]
    lo, hi = fi.params[nargs], fi.params[nargs + 1]
    pm = _parent_map(fn)
    pcalls = [x for x in walk_no_nested(fn) if isinstance(x, ast.Call) and call_name(x) == part]
    if len(pcalls) != 1:
        return None, "%d calls of %s" % (len(pcalls), part)
    pc = pcalls[0]
    st = pm.get(id(pc))
    if not (isinstance(st, ast.Assign) and st.value is pc and len(st.targets) == 1 and isinstance(st.targets[0], ast.Name)):
        return None, "the split point is not kept in a local"
    split = st.targets[0].id
    owner = pm.get(id(st))
    block = None
    for f in ("body", "orelse"):
        if isinstance(getattr(owner, f, None), list) and st in getattr(owner, f):
            block = getattr(owner, f)
    if block is None or not isinstance(owner, (ast.If, ast.While, ast.FunctionDef)):
        return None, "partition call in an unrecognised position"
    k = block.index(st)
    if any(isinstance(x, ast.Name) and isinstance(x.ctx, ast.Store) and x.id in (lo, hi) for b in block[:k] for x in ast.walk(b)):
        return None, "range re-bound before the partition"
    S, E, P = sp.Symbol(lo, integer=True), sp.Symbol(hi, integer=True), sp.Symbol(split, integer=True)
    sx = _Sx({lo: S, hi: E, split: P})
    if pc.keywords or any(isinstance(a, ast.Starred) for a in pc.args):
        return None, norm(pc)
    if [norm(a) for a in pc.args[:nargs]] != arrs or len(pc.args) != nargs + 2:
        return False, norm(pc)
    if not (_teq(sx.ev(pc.args[nargs]), S) is True and _teq(sx.ev(pc.args[nargs + 1]), E) is True):
        return False, norm(pc)
    handed = []
    skips = []
    for b in block[k + 1:]:
        if isinstance(b, ast.Expr) and isinstance(b.value, ast.Call) and call_name(b.value) == fi.name and isinstance(b.value.func, ast.Name):
            c = b.value
            if c.keywords or any(isinstance(a, ast.Starred) for a in c.args):
                return None, norm(c)
            if [norm(a) for a in c.args[:nargs]] != arrs or len(c.args) != nargs + 2:
                return False, norm(c)
            handed.append((sx.ev(c.args[nargs]), sx.ev(c.args[nargs + 1])))
        elif isinstance(b, ast.Expr) and isinstance(b.value, ast.Call) and isinstance(b.value.func, ast.Attribute) and b.value.func.attr == "append" \
                and isinstance(b.value.func.value, ast.Name):
            # the range is put on a list of ranges still to be sorted, which the enclosing loop works off until it is empty
            c = b.value
            why = _worklist(fn, pm, c.func.value.id, st, lo, hi, block[k + 1:])
            if why:
                return None, why
            if len(c.args) != 1 or c.keywords or not (isinstance(c.args[0], ast.Tuple) and len(c.args[0].elts) == 2):
                return None, norm(c)
            handed.append((sx.ev(c.args[0].elts[0]), sx.ev(c.args[0].elts[1])))
        elif isinstance(b, ast.Assign) and len(b.targets) == 1 and isinstance(b.targets[0], ast.Name):
            if b.targets[0].id == split:
                return None, "split point re-bound"
            sx.env[b.targets[0].id] = sx.ev(b.value)
            sx.env.pop("[]" + b.targets[0].id, None)
            if isinstance(b.value, ast.Subscript) and isinstance(b.value.value, ast.Name) and b.value.value.id in arrs and not isinstance(b.value.slice, ast.Slice) \
                    and _teq(sx.ev(b.value.slice), P) is True:
                sx.env["[]" + b.targets[0].id] = (b.value.value.id, "split")      # the pivot's key (or payload) kept in a local
        elif isinstance(b, ast.AugAssign) and isinstance(b.target, ast.Name):
            sx.env[b.target.id] = sx.binop(ast.BinOp(left=b.target, op=b.op, right=b.value), sx.ev(b.target), sx.ev(b.value))
        elif isinstance(b, (ast.Pass,)) or (isinstance(b, ast.Expr) and isinstance(b.value, ast.Constant)) or (isinstance(b, ast.Return) and b.value is None) \
                or isinstance(b, ast.Continue):
            if isinstance(b, (ast.Return, ast.Continue)):
                break
        elif isinstance(b, ast.While):
            # a bound that walks away from the split point while the element it stands on is the pivot again
            v, why = _skips_pivot_keys(b, sx, arrs, P, len(skips))
            if v is not True:
                return v, why
            skips.append(sx.env[why].free_symbols - {S, E, P})
        else:
            return None, "unrecognised statement `%s` after the partition" % norm(b)[:60]
    if isinstance(owner, ast.While) and block is owner.body and not (block and isinstance(block[-1], ast.Return)):
        cont = (sx.env[lo], sx.env[hi])
        if not (_teq(cont[0], S) is True and _teq(cont[1], E) is True):
            handed.append(cont)
        else:
            return False, "the loop goes round with an unchanged range"
    if not all(isinstance(a, sp.Basic) and isinstance(b, sp.Basic) for a, b in handed):
        return None, "unrecognised range"
    want = [(S, P - 1), (P + 1, E)]
    text = ", ".join("[%s, %s]" % (a, b) for a, b in handed)
    if len(handed) != 2:
        return False, text
    # positions left out because their key was found equal to the pivot's are in their final place: such a range stands for the
    # full one (the number of positions skipped, a symbol >= 0, set to 0)
    zero = {y: 0 for x in skips for y in x}
    full = [tuple(sp.expand(t.subs(zero)) for t in r) for r in handed] if zero else handed
    for perm in (full, full[::-1]):
        rs = [_teq(perm[i][j], want[i][j]) for i in range(2) for j in range(2)]
        if all(r is True for r in rs):
            return True, text
    if zero and any(t.free_symbols & set(zero) for r in handed for t in r):
        for perm in (full, full[::-1]):
            d = [sp.expand(perm[i][0] - want[i][0]) for i in range(2)] + [sp.expand(want[i][1] - perm[i][1]) for i in range(2)]
            if all(x.is_Integer and x >= 0 for x in d):
                return False, text + " (a range is narrower than the positions whose keys were found equal to the pivot's allow)"
        return None, text + " (bounds moved over keys equal to the pivot's, used in a way that is not recognised)"
    return (False if all(_known(a) and _known(b) for a, b in handed) else None), text


def _skips_pivot_keys(loop, sx, arrs, P, k):
    """`while <...> and K[i] == K[split]: i = i -/+ 1` with i standing next to the split point on the side it walks away to: the
    positions passed hold keys equal to the pivot's, which the partition left in their final place, so the range that ends at i is as
    good as the one that ends next to the split.  K must be the array the order is defined on (the first one): equal payload
    values say nothing about the keys.  (True, name of i) with sx.env[i] moved by a fresh symbol; (False | None, why) otherwise"""
    txt = "`while %s`" % norm(loop.test)[:70]
    body = [s_ for s_ in loop.body if not _isdoc(s_) and not isinstance(s_, ast.Pass)]
    if loop.orelse or len(body) != 1:
        return None, "unrecognised loop %s after the partition" % txt
    st = body[0]
    if isinstance(st, ast.Assign) and len(st.targets) == 1 and isinstance(st.targets[0], ast.Name):
        i, new = st.targets[0].id, st.value
    elif isinstance(st, ast.AugAssign) and isinstance(st.target, ast.Name):
        i, new = st.target.id, ast.BinOp(left=ast.Name(id=st.target.id, ctx=ast.Load()), op=st.op, right=st.value)
    else:
        return None, "unrecognised loop %s after the partition" % txt
    cur = sx.env.get(i)
    if not isinstance(cur, sp.Basic) or not _known(cur):
        return None, "loop %s over a bound that is not recognised" % txt
    I = sp.Symbol("@" + i, integer=True)
    step = sp.expand(_Sx(dict(sx.env, **{i: I})).ev(new) - I)
    if step not in (sp.Integer(1), sp.Integer(-1)) or _teq(cur, P + step) is not True:
        return None, "loop %s does not walk away from the split point one position at a time" % txt
    if any(isinstance(x, (ast.NamedExpr, ast.Call, ast.Await, ast.Yield, ast.Lambda)) for x in ast.walk(loop.test)):
        return None, "loop %s: test not recognised" % txt
    conj = loop.test.values if (isinstance(loop.test, ast.BoolOp) and isinstance(loop.test.op, ast.And)) else [loop.test]

    def element(e):
        """(array, 'i' | 'split') for A[i] / A[<the split point>], A one of the arrays being sorted"""
        if isinstance(e, ast.Subscript) and isinstance(e.value, ast.Name) and e.value.id in arrs and not isinstance(e.slice, ast.Slice):
            if isinstance(e.slice, ast.Name) and e.slice.id == i:
                return e.value.id, "i"
            if _teq(sx.ev(e.slice), P) is True:
                return e.value.id, "split"
            return e.value.id, None
        if isinstance(e, ast.Name) and isinstance(sx.env.get("[]" + e.id), tuple):
            return sx.env["[]" + e.id]
        return None
    good, wrong, unclear = [], [], []
    for c in conj:
        reads = [x for x in ast.walk(c) if (isinstance(x, ast.Subscript) and isinstance(x.value, ast.Name) and x.value.id in arrs)
                 or (isinstance(x, ast.Name) and ("[]" + x.id) in sx.env)]
        if not reads:
            continue                    # a test on positions only: it can only stop the walk earlier
        if not (isinstance(c, ast.Compare) and len(c.ops) == 1):
            unclear.append(c)
            continue
        a, b_ = element(c.left), element(c.comparators[0])
        op = type(c.ops[0])
        if a is None or b_ is None or a[1] is None or b_[1] is None or {a[1], b_[1]} != {"i", "split"}:
            unclear.append(c)
            continue
        if a[1] == "split":
            a, b_ = b_, a
            op = {ast.Lt: ast.Gt, ast.Gt: ast.Lt, ast.LtE: ast.GtE, ast.GtE: ast.LtE}.get(op, op)
        if a[0] != b_[0]:
            wrong.append("`%s` compares an element of %s with the pivot's place in %s" % (norm(c), a[0], b_[0]))
        elif a[0] != arrs[0]:
            wrong.append("`%s` compares the entries of %s, which are carried along, not the keys %s the order is defined on: positions with an equal %s entry but a "
                         "smaller or larger key are left out of the range and stay unsorted" % (norm(c), a[0], arrs[0], a[0]))
        elif op is ast.Eq:
            good.append(c)
        elif (op is ast.GtE and step == -1) or (op is ast.LtE and step == 1):
            unclear.append(c)           # equality, given what the partition guarantees for that side: not taken for granted here
        else:
            wrong.append("`%s` passes over positions whose key was not found equal to the pivot's" % norm(c))
    if good:
        # further conjuncts can only stop the walk earlier
        sx.env[i] = cur + step * sp.Symbol("skipped%d" % (k + 1), integer=True, nonnegative=True)
        return True, i
    if wrong:
        return False, "the range handed on is narrowed by %s, but %s" % (txt, wrong[0])
    return None, "loop %s: test not recognised" % txt


def _worklist(fn, pm, w, st, lo, hi, after):
    """is `w` a list of pending (lo, hi) ranges: bound once to [(lo, hi)] with the function's own range, worked off by an enclosing
    `while w:` loop that takes one range per round into (lo, hi) before anything else and never leaves early, and otherwise only
    appended to?  Returns '' if so, else what is not recognised.  The order in which pending ranges are taken does not matter: they
    are disjoint."""
    sd = rules.single_defs(fn)
    init = sd.get(w)
    if not (isinstance(init, ast.List) and len(init.elts) == 1 and isinstance(init.elts[0], ast.Tuple) and [norm(x) for x in init.elts[0].elts] == [lo, hi]):
        return "`%s` does not start as [(%s, %s)]" % (w, lo, hi)
    loop = None
    for a in _ancestors(pm, st):
        if isinstance(a, ast.While):
            t = a.test
            if isinstance(t, ast.Compare) and len(t.ops) == 1 and isinstance(t.ops[0], (ast.Gt, ast.NotEq)) and norm(t.comparators[0]) == "0":
                t = t.left
            if isinstance(t, ast.Call) and isinstance(t.func, ast.Name) and t.func.id == "len" and len(t.args) == 1:
                t = t.args[0]
            if isinstance(t, ast.Name) and t.id == w:
                loop = a
            break
    if loop is None or loop.orelse or loop not in fn.body:
        return "no enclosing `while %s:` loop" % w
    k = fn.body.index(loop)
    defst = [x for x in fn.body[:k] if isinstance(x, ast.Assign) and x.value is init]
    if len(defst) != 1:
        return "`%s` is not set up in front of the loop" % w
    if any(isinstance(x, ast.Name) and isinstance(x.ctx, ast.Store) and x.id in (lo, hi) for b in fn.body[:k] for x in ast.walk(b)):
        return "range re-bound before the loop"
    first = loop.body[0] if loop.body else None
    okp = isinstance(first, ast.Assign) and len(first.targets) == 1 and isinstance(first.targets[0], ast.Tuple) and [norm(x) for x in first.targets[0].elts] == [lo, hi] \
        and isinstance(first.value, ast.Call) and isinstance(first.value.func, ast.Attribute) and norm(first.value.func.value) == w and not first.value.keywords \
        and ((first.value.func.attr == "pop" and [norm(x) for x in first.value.args] in ([], ["0"], ["-1"])) or (first.value.func.attr == "popleft" and not first.value.args))
    if not okp:
        return "the loop does not begin by taking one range off `%s` into (%s, %s)" % (w, lo, hi)
    if _early_exits(loop) or any(isinstance(x, ast.Continue) for x in ast.walk(loop)):
        return "the loop over `%s` can be left early" % w
    for x in ast.walk(fn):
        if isinstance(x, ast.Name) and x.id == w:
            par = pm.get(id(x))
            gp = pm.get(id(par)) if par is not None else None
            fine = (isinstance(par, ast.Assign) and par.value is init) or x is loop.test or (isinstance(par, ast.Call) and par in ast.walk(loop.test)) \
                or (isinstance(par, ast.Attribute) and isinstance(gp, ast.Call) and gp.func is par and (gp is first.value or par.attr == "append"))
            if not fine:
                return "`%s` is also used in `%s`" % (w, norm(gp if gp is not None else par)[:50])
    rebound = [x for b in loop.body[1:] for x in ast.walk(b) if isinstance(x, ast.Name) and isinstance(x.ctx, ast.Store) and x.id in (lo, hi)]
    if rebound:
        return "range re-bound inside the loop"
    # every append happens where the popped range is the one that was just partitioned
    for x in ast.walk(fn):
        if isinstance(x, ast.Call) and isinstance(x.func, ast.Attribute) and x.func.attr == "append" and norm(x.func.value) == w \
                and not any(isinstance(b, ast.Expr) and b.value is x for b in after):
            return "`%s` elsewhere than after the partition" % norm(x)
    return ""


def _isdoc(x):
    return isinstance(x, ast.Expr) and isinstance(x.value, ast.Constant) and isinstance(x.value.value, str)


# ---------------------------------------------------------------------------
# R20.sort ...::sorts-unless-nothing-to-do.  A sort may leave its input alone only when there is nothing to do.  Every test that
# decides whether the work call (the driver call of a public sort, the partition call of a driver) is reached is read as a condition
# on the range [lo, hi] handed to that call: with n = hi - lo + 1 elements, the side of the test that leaves without the work must
# imply n <= 1, or that every adjacent pair (x, x+1), lo <= x < hi, of the key array was found in order.  The condition is put in
# disjunctive form; each conjunct is a constraint on n (a set of integers, solved exactly from the linear comparison), a set of
# positions x whose pair was compared (interval with end points a + b*n), or not understood.  Whether the positions cover
# [0, n-1) for every n the constraints allow is decided exactly: the order of the end points is fixed above a bound computed from
# their constants, below it each n is a separate case.  Nothing is executed.
_NSYM = sp.Symbol("n_elements", integer=True)


def _affine(t, sym=_NSYM):
    """(a, b) with t == a + b*sym for integers a, b; else None"""
    try:
        t = sp.expand(t)
        b = t.coeff(sym)
        a = sp.expand(t - b * sym)
        if a.is_Integer and b.is_Integer:
            return int(a), int(b)
    except Exception:
        pass
    return None


def _iset_and(A, B):
    """intersection of two sets of integers given as lists of closed intervals"""
    out = []
    for a in A:
        for b in B:
            lo, hi = max(a[0], b[0]), min(a[1], b[1])
            if lo <= hi:
                out.append((lo, hi))
    return sorted(out)


def _solve_linear(m, k, op):
    """the integers L with m*L + k <op> 0, op one of < <= == !=, as a list of closed intervals"""
    ALL = [(-_INF, _INF)]
    if m == 0:
        return ALL if {"<": k < 0, "<=": k <= 0, "==": k == 0, "!=": k != 0}[op] else []
    if op == "<":
        return [(-_INF, (-k - 1) // m)] if m > 0 else [(-((-(k + 1)) // (-m)), _INF)]
    if op == "<=":
        return [(-_INF, (-k) // m)] if m > 0 else [(-((-k) // (-m)), _INF)]
    pt = (-k) // m if (-k) % m == 0 else None
    if op == "==":
        return [(pt, pt)] if pt is not None else []
    return ALL if pt is None else [(-_INF, pt - 1), (pt + 1, _INF)]


def _covered(ivs, S):
    """do the position intervals [lo, hi) (end points (a, b) meaning a + b*n) cover 0 .. n-2 for every n in S (n >= 2)?
    (True, None) / (False, an n for which a position is left out, that position or None) / (None, None, None)"""
    S = _iset_and(S, [(2, _INF)])
    if not S:
        return True, None, None
    consts = [abs(e[0]) for iv in ivs for e in iv] + [1]
    if max(consts) > 200:
        return None, None, None
    M = 2 * max(consts) + 3                 # from here on the order of all end points (and of 0 and n-1) no longer changes
    for lo, hi in S:
        n = lo
        while n <= hi and n < M:
            for x in range(int(n) - 1):
                if not any(a[0] + a[1] * n <= x < b[0] + b[1] * n for a, b in ivs):
                    return False, int(n), x
            n += 1
    if S[-1][1] >= M:
        def key(e):
            return (e[1], e[0])
        cur, target, used = (0, 0), (-1, 1), set()
        while key(target) > key(cur):
            step = [k for k, (a, b) in enumerate(ivs) if k not in used and key(a) <= key(cur) < key(b)]
            if not step:
                return False, int(max(M, S[-1][0])), None
            used.add(step[0])
            cur = ivs[step[0]][1]
    return True, None, None


class _Idle:
    """reads the tests that let a sort return without doing its work (see above)"""

    def __init__(self, fi, arrays, nkeys, lo_e, hi_e):
        self.fi, self.fn = fi, fi.node
        self.arrays = list(arrays)
        self.keyarr = arrays[0]
        self.ok_setup = False
        self.sx = _Sx({})
        self.hsym = sp.Symbol("len(<input>)", integer=True)
        self.lens = {}
        for p_ in self.arrays:
            for t in ("len(%s)" % p_, "%s.size" % p_, "%s.shape[0]" % p_):
                self.lens[sp.Symbol(t, integer=True)] = self.hsym
        a_t, b_t = self.raw(lo_e), self.raw(hi_e)
        if a_t is None or b_t is None or not _known(a_t) or not _known(b_t):
            return
        # hi = lo + n - 1, solved for one symbol of hi that lo does not mention
        cands = [h for h in sorted(b_t.free_symbols - a_t.free_symbols, key=lambda x: (x != self.hsym, str(x)))
                 if sp.expand(b_t).coeff(h) in (1, -1) and not sp.expand(b_t - sp.expand(b_t).coeff(h) * h).has(h)]
        if not cands:
            return
        h = cands[0]
        c = sp.expand(b_t).coeff(h)
        self.sub = {h: sp.expand((_NSYM - 1 + a_t - (b_t - c * h)) / c)}
        self.lo = a_t
        self.ok_setup = True

    def raw(self, e):
        try:
            v = self.sx.ev(rules.expand(e, self.fn))
        except Exception:
            return None
        if not isinstance(v, sp.Basic):
            return None
        return sp.expand(v.subs(self.lens))

    def term(self, e):
        v = self.raw(e)
        return None if v is None else sp.expand(v.subs(self.sub))

    def rel(self, t):
        """a position relative to the start of the range, as (a, b)"""
        return None if t is None else _affine(sp.expand(t - self.lo.subs(self.sub)))

    # -- atoms ----------------------------------------------------------
    def length_atom(self, t, truth):
        """a test on the number of elements: the set of n for which it has the value `truth`, or None"""
        ops = {ast.Lt: "<", ast.LtE: "<=", ast.Gt: ">", ast.GtE: ">=", ast.Eq: "==", ast.NotEq: "!="}
        neg = {"<": ">=", "<=": ">", ">": "<=", ">=": "<", "==": "!=", "!=": "=="}
        if isinstance(t, ast.Compare) and len(t.ops) == 1 and type(t.ops[0]) in ops:
            a, b = self.term(t.left), self.term(t.comparators[0])
            if a is None or b is None:
                return None
            d = _affine(a - b)
            if d is None or not (a.has(_NSYM) or b.has(_NSYM)):
                return None
            op = ops[type(t.ops[0])]
            if not truth:
                op = neg[op]
            k, m = d
            if op in (">", ">="):
                k, m, op = -k, -m, {">": "<", ">=": "<="}[op]
            return _solve_linear(m, k, op)
        if isinstance(t, ast.Compare) and len(t.ops) == 1 and isinstance(t.ops[0], (ast.In, ast.NotIn)) \
                and isinstance(t.comparators[0], (ast.Tuple, ast.List, ast.Set)) and t.comparators[0].elts:
            a = self.term(t.left)
            if a is None or not a.has(_NSYM):
                return None
            isin = isinstance(t.ops[0], ast.In) == truth
            out = [] if isin else [(-_INF, _INF)]
            for el in t.comparators[0].elts:
                b = self.term(el)
                d = _affine(a - b) if b is not None else None
                if d is None:
                    return None
                if isin:
                    out = sorted(out + _solve_linear(d[1], d[0], "=="))
                else:
                    out = _iset_and(out, _solve_linear(d[1], d[0], "!="))
            return out
        # truthiness of the input, or of its length
        x = t
        if isinstance(x, ast.Name) and x.id in self.arrays:
            x = ast.Call(func=ast.Name(id="len", ctx=ast.Load()), args=[x], keywords=[])
        if (isinstance(x, ast.Call) and call_name(x) == "len" and isinstance(x.func, ast.Name)) or isinstance(x, (ast.Attribute, ast.BinOp)):
            a = self.term(x)
            d = _affine(a) if a is not None else None
            if d is None or not a.has(_NSYM):
                return None
            return _solve_linear(d[1], d[0], "!=" if truth else "==")
        return None

    def oriented(self, t, flip):
        """(smaller side, larger side, strict) of an order comparison, `flip` when it is read negated"""
        while isinstance(t, ast.UnaryOp) and isinstance(t.op, ast.Not):
            t, flip = t.operand, not flip
        if not (isinstance(t, ast.Compare) and len(t.ops) == 1 and isinstance(t.ops[0], (ast.Lt, ast.LtE, ast.Gt, ast.GtE))):
            return None
        a, b, op = t.left, t.comparators[0], type(t.ops[0])
        if flip:
            op = {ast.Lt: ast.GtE, ast.LtE: ast.Gt, ast.Gt: ast.LtE, ast.GtE: ast.Lt}[op]
        return (a, b) if op in (ast.Lt, ast.LtE) else (b, a)

    def which_array(self, name):
        if name == self.keyarr:
            return True
        if name in self.arrays:
            return ("bad", "it looks at the order of `%s`, which says nothing about the order of the keys `%s`" % (name, self.keyarr))
        return None

    def pair(self, small, large):
        """positions compared by `A[small] <= A[large]`: ('cover', [(lo, hi)]) / ('bad', why) / None"""
        d = _affine(sp.expand(large - small))
        if d is None or d[1] != 0:
            return None, None
        if d[0] == -1:
            return "bad", "it finds the pairs in DEscending order"
        if d[0] != 1:
            return "bad", "it compares elements %d apart, which does not put neighbours in order" % d[0]
        return "adjacent", None

    def index_term(self, e):
        """term of an index expression; a negative literal counts from the end"""
        t = self.term(e)
        if t is not None and t.is_Integer and t < 0:
            t = sp.expand((t + self.hsym).subs(self.sub))
        return t

    def scan(self, comp, flip):
        """`<compare> for i in range(..)` / `for a, b in zip(A, A[1:])` / `in pairwise(A)`"""
        if len(comp.generators) != 1:
            return None
        g = comp.generators[0]
        if g.ifs or g.is_async:
            return None
        o = self.oriented(comp.elt, flip)
        if o is None:
            return None
        small, large = o
        it = g.iter
        if not (isinstance(it, ast.Call) and not it.keywords and not any(isinstance(a, ast.Starred) for a in it.args)):
            return None
        cn = call_name(it)
        if cn in ("range", "xrange") and isinstance(it.func, ast.Name) and isinstance(g.target, ast.Name) and 1 <= len(it.args) <= 3:
            if len(it.args) == 3 and not (isinstance(it.args[2], ast.Constant) and it.args[2].value == 1):
                return None
            isym = sp.Symbol(g.target.id, integer=True)
            r_lo = sp.Integer(0) if len(it.args) == 1 else self.term(it.args[0])
            r_hi = self.term(it.args[0] if len(it.args) == 1 else it.args[1])
            if r_lo is None or r_hi is None or r_lo.has(isym) or r_hi.has(isym):
                return None
            idx = []
            for s_ in (small, large):
                if not (isinstance(s_, ast.Subscript) and isinstance(s_.value, ast.Name) and not isinstance(s_.slice, ast.Slice)):
                    return None
                w = self.which_array(s_.value.id)
                if w is not True:
                    return w
                t = self.term(s_.slice)
                if t is None or sp.expand(t - isym).has(isym):
                    return None
                idx.append(sp.expand(t - isym))
            kind, why = self.pair(idx[0], idx[1])
            if kind != "adjacent":
                return (kind, why) if kind else None
            lo, hi = self.rel(r_lo + idx[0]), self.rel(r_hi + idx[0])
            if lo is None or hi is None:
                return None
            return ("cover", [(lo, hi)])
        end = sp.expand(self.hsym.subs(self.sub))
        if cn == "pairwise" and len(it.args) == 1 and isinstance(it.args[0], ast.Name):
            srcs = [(it.args[0].id, sp.Integer(0), end - 1), (it.args[0].id, sp.Integer(1), end)]      # zip(A[:-1], A[1:])
        elif cn in ("zip", "izip") and len(it.args) == 2:
            srcs = []
            for a in it.args:
                if isinstance(a, ast.Name):
                    srcs.append((a.id, sp.Integer(0), None))
                elif isinstance(a, ast.Subscript) and isinstance(a.value, ast.Name) and isinstance(a.slice, ast.Slice) and a.slice.step is None:
                    lo = self.index_term(a.slice.lower) if a.slice.lower is not None else sp.Integer(0)
                    hi = self.index_term(a.slice.upper) if a.slice.upper is not None else None
                    if lo is None or (a.slice.upper is not None and hi is None):
                        return None
                    srcs.append((a.value.id, lo, hi))
                else:
                    return None
        else:
            return None
        if not (isinstance(g.target, ast.Tuple) and len(g.target.elts) == 2 and all(isinstance(x, ast.Name) for x in g.target.elts)):
            return None
        names = [x.id for x in g.target.elts]
        if not (isinstance(small, ast.Name) and isinstance(large, ast.Name) and {small.id, large.id} == set(names) and small.id != large.id):
            return None
        for nm, _, _ in srcs:
            w = self.which_array(nm)
            if w is not True:
                return w
        starts = [srcs[k][1] for k in (0, 1)]
        counts = []
        for k in (0, 1):
            hi = srcs[k][2] if srcs[k][2] is not None else end
            over = _affine(sp.expand(hi - end))
            if over is not None and over[1] == 0 and over[0] > 0:
                hi = end                # a slice stops at the end of the sequence
            counts.append(sp.expand(hi - srcs[k][1]))
        d = _affine(counts[0] - counts[1])
        if d is None or d[1] != 0:
            return None
        count = counts[0] if d[0] <= 0 else counts[1]
        ks, kl = names.index(small.id), names.index(large.id)
        kind, why = self.pair(starts[ks], starts[kl])
        if kind != "adjacent":
            return (kind, why) if kind else None
        lo, hi = self.rel(starts[ks]), self.rel(starts[ks] + count)
        if lo is None or hi is None:
            return None
        return ("cover", [(lo, hi)])

    def atom(self, t, truth):
        """('ok',) the input is in order / ('len', set of n) / ('cover', intervals) / ('bad', why) / None"""
        if isinstance(t, ast.Constant) and isinstance(t.value, (bool, int)):
            return ("len", [(-_INF, _INF)] if bool(t.value) == truth else [])
        if isinstance(t, ast.Call) and isinstance(t.func, ast.Name) and t.func.id in ("all", "any") and len(t.args) == 1 and not t.keywords \
                and isinstance(t.args[0], (ast.GeneratorExp, ast.ListComp)):
            isall = t.func.id == "all"
            r = self.scan(t.args[0], flip=not isall)
            if r is None or isall == truth:
                return r
            if r[0] == "cover":
                return ("bad", "it holds exactly when some pair is OUT of order")
            return None
        if isinstance(t, ast.Compare) and len(t.ops) == 1 and isinstance(t.ops[0], (ast.Eq, ast.NotEq)):
            def plain(x):
                if isinstance(x, ast.Call) and call_name(x) == "list" and len(x.args) == 1 and not x.keywords:
                    x = x.args[0]
                return x.id if isinstance(x, ast.Name) else None
            for a, b in ((t.left, t.comparators[0]), (t.comparators[0], t.left)):
                if isinstance(a, ast.Call) and isinstance(a.func, ast.Name) and a.func.id == "sorted" and len(a.args) == 1 and not a.keywords \
                        and plain(a.args[0]) == self.keyarr and plain(b) == self.keyarr:
                    return ("ok",) if isinstance(t.ops[0], ast.Eq) == truth else ("bad", "it holds exactly when the input is NOT in order")
        if isinstance(t, (ast.Compare, ast.UnaryOp)):
            o = self.oriented(t, not truth)
            if o is not None and all(isinstance(x, ast.Subscript) and isinstance(x.value, ast.Name) and not isinstance(x.slice, ast.Slice) for x in o):
                if o[0].value.id != o[1].value.id:
                    return None
                w = self.which_array(o[0].value.id)
                if w is not True:
                    return w
                a, b = self.index_term(o[0].slice), self.index_term(o[1].slice)
                if a is None or b is None:
                    return None
                kind, why = self.pair(a, b)
                if kind != "adjacent":
                    return None         # one comparison of two other elements: neither helps nor hurts
                lo = self.rel(a)
                return ("cover", [(lo, (lo[0] + 1, lo[1]))]) if lo is not None else None
        s_ = self.length_atom(t, truth)
        return ("len", s_) if s_ is not None else None

    # -- conditions -----------------------------------------------------
    def dnf(self, t, truth):
        """the condition `t has the value truth` as a list of conjunctions of (atom, truth)"""
        if isinstance(t, ast.UnaryOp) and isinstance(t.op, ast.Not):
            return self.dnf(t.operand, not truth)
        if isinstance(t, ast.BoolOp):
            parts = [self.dnf(v, truth) for v in t.values]
            if any(p_ is None for p_ in parts):
                return None
            if isinstance(t.op, ast.And) == truth:
                out = [[]]
                for p_ in parts:
                    out = [x + y for x in out for y in p_]
                    if len(out) > 32:
                        return None
                return out
            return [c for p_ in parts for c in p_]
        return [[(t, truth)]]

    def idle_ok(self, test, truth):
        """(verdict, why): whenever `test` has the value `truth` there is nothing to sort"""
        test = rules.expand(test, self.fn)
        d = self.dnf(test, truth)
        if d is None:
            return None, "the condition is too large to read"
        verdict, text = True, ""
        for conj in d:
            S, ivs, unknown, bad = [(-_INF, _INF)], [], [], []
            done = False
            for t, tr in conj:
                r = self.atom(t, tr)
                if r is None:
                    unknown.append(norm(t))
                elif r[0] == "ok":
                    done = True
                elif r[0] == "len":
                    S = _iset_and(S, r[1])
                elif r[0] == "cover":
                    ivs += r[1]
                else:
                    bad.append(r[1])
            if done:
                continue
            cov, n, x = _covered(ivs, S)
            if cov is True:
                continue
            if cov is None or unknown:
                if verdict is True:
                    verdict, text = None, "not understood: `%s`" % (unknown[0] if unknown else norm(test))[:80]
                continue
            what = ("the pair at positions (%d, %d) of the range is not compared" % (x, x + 1)) if (x is not None and ivs) else \
                   ("the pairs up to the end of the range are not all compared" if ivs else "no pair of neighbours is compared")
            verdict = False
            text = "for a range of %d elements %s%s" % (n, what, ("; " + "; ".join(bad)) if bad else "")
            break
        return verdict, text


def _first_entry_truthy(fn, loop, pm):
    """`while W:` (or len(W), len(W) > 0) where W is bound once, in front of the loop, to a non-empty display and otherwise only
    touched inside the loop: the loop body runs before the loop can be left, so leaving it is not a way around the body"""
    t = loop.test
    if isinstance(t, ast.Compare) and len(t.ops) == 1 and isinstance(t.ops[0], (ast.Gt, ast.NotEq)) and norm(t.comparators[0]) == "0":
        t = t.left
    if isinstance(t, ast.Call) and isinstance(t.func, ast.Name) and t.func.id == "len" and len(t.args) == 1:
        t = t.args[0]
    if not isinstance(t, ast.Name):
        return False
    inside = {id(x) for x in ast.walk(loop)}
    outside = [x for x in walk_no_nested(fn) if isinstance(x, ast.Name) and x.id == t.id and id(x) not in inside]
    if len(outside) != 1 or not isinstance(outside[0].ctx, ast.Store):
        return False
    st = pm.get(id(outside[0]))
    if not (isinstance(st, ast.Assign) and len(st.targets) == 1 and st.targets[0] is outside[0] and isinstance(st.value, (ast.List, ast.Tuple)) and st.value.elts
            and not any(isinstance(e, ast.Starred) for e in st.value.elts)):
        return False
    return st in fn.body and loop in fn.body and fn.body.index(st) < fn.body.index(loop)


def sorts_unless_idle(chk, fi, q, work, arrays, what):
    """every way around the work call `work` (ast.Call with the arrays, then lo and hi) is taken only when there is nothing to sort"""
    import networkx as nx
    key = q + "::sorts-unless-nothing-to-do"
    msg = "every path through %s reaches %s unless the range has fewer than two elements or every pair of neighbouring keys in it was found in order" % (fi.name, what)
    cfg = cfg_of(fi)
    view = cfg.view()
    wn = next((n for n in cfg.nodes if any(c is work for c in rules.stmts_calls(n))), None)
    if wn is None:
        return
    if not view.reachable(wn):
        chk.ob("R20.sort", key, False, fi.where(work), msg + ": `%s` cannot be reached" % norm(work))
        return
    nargs = len(arrays)
    idle = _Idle(fi, arrays, nargs, work.args[nargs], work.args[nargs + 1])
    rin, _ = view.reaching_defs()
    pm = _parent_map(fi.node)
    verdict, notes, where = True, [], fi.where(work)
    for b, lab in view.controlling_branches(wn):
        if lab not in ("T", "F"):
            continue
        other = [j for j in view.g.successors(b.id) if lab not in view.g[b.id][j]["labels"]]
        ex = cfg.exit.id
        if other and not any(j == ex or ex in nx.descendants(view.g, j) for j in other):
            continue                    # the other side only raises: the input is rejected, not returned unsorted
        if b.kind == "loop" and isinstance(b.ast, ast.While) and lab == "T" and _first_entry_truthy(fi.node, b.ast, pm):
            continue
        if not (b.kind == "branch" or (b.kind == "loop" and isinstance(b.ast, ast.While))):
            if verdict is True:
                verdict = None
                notes.append("`%s` is reached only inside `for %s in %s`" % (norm(work), norm(b.ast.target), norm(b.ast.iter)[:40]))
            continue
        # the side that leaves without the work call does something to the arrays itself: sorted by other means, not judged here
        side, todo = set(), list(other)
        while todo:
            j = todo.pop()
            if j in side or j == b.id or j == wn.id:
                continue
            side.add(j)
            todo.extend(view.g.successors(j))
        own = False
        for j in side:
            nd = cfg.node(j)
            roots = [nd.ast.test] if nd.kind == "branch" or (nd.kind == "loop" and isinstance(nd.ast, ast.While)) else \
                ([nd.ast.iter] if nd.kind == "loop" else ([nd.ast] if nd.kind in ("stmt", "return") and nd.ast is not None else []))
            for r_ in roots:
                for x in ast.walk(r_):
                    if isinstance(x, ast.Subscript) and isinstance(x.ctx, (ast.Store, ast.Del)) and isinstance(x.value, ast.Name) and x.value.id in arrays:
                        own = True
                    if isinstance(x, ast.Call) and not (isinstance(x.func, ast.Name) and x.func.id in ("len", "all", "any", "range", "zip", "sorted", "list", "isinstance")):
                        if any(isinstance(a, ast.Name) and a.id in arrays for a in list(x.args) + [k.value for k in x.keywords]) or \
                                (isinstance(x.func, ast.Attribute) and isinstance(x.func.value, ast.Name) and x.func.value.id in arrays):
                            own = True
        test = b.ast.test
        # the names the test reads stand for what they stand for at the work call
        names = {x.id for x in ast.walk(test) if isinstance(x, ast.Name) and isinstance(x.ctx, ast.Load)}
        moved = [nm for nm in sorted(names) if nm in rin.get(b.id, {}) and rin.get(b.id, {}).get(nm) != rin.get(wn.id, {}).get(nm)]
        if own or moved or not idle.ok_setup:
            v, why = None, ("the side that leaves works on the arrays itself" if own else
                            ("`%s` is re-bound between the test and the call" % moved[0] if moved else "the range handed to the call is not recognised"))
        else:
            v, why = idle.idle_ok(test, lab == "F")
        if v is False:
            verdict, where = False, fi.where(test)
            notes = ["when `%s` is %s, %s returns without %s, but that does not mean there is nothing to sort: %s -- such input is returned unsorted"
                     % (norm(rules.expand(test, fi.node))[:160], "true" if lab == "F" else "false", fi.name, what, why)]
            break
        if v is None and verdict is True:
            verdict = None
            notes.append("`%s`: %s" % (norm(test)[:80], why))
    chk.ob("R20.sort", key, verdict, where, msg + ((": " + "; ".join(notes)) if notes else ""))


def quicksort(chk, repo):
    for q, callee, n in (("esutil.algorithm.quicksort", "_quicksort", 1), ("esutil.algorithm.quicksort_keyvalue", "_quicksort_keyvalue", 2)):
        fi = repo.func(q)
        chk.analysed_unit(q)
        drv = q.rsplit(".", 1)[0] + "." + callee
        if repo.has(drv):
            fi = _undelegate(repo, fi, [repo.func(drv)])
            _KEEP.append(fi)
        calls = [x for x in walk_no_nested(fi.node) if isinstance(x, ast.Call) and call_name(x) == callee]
        ok = len(calls) == 1 and [norm(a) for a in calls[0].args[:n]] == fi.params[:n] and len(calls[0].args) == n + 2
        if ok:
            sx = _SplitEval({}, fi.node)
            lo, hi = sx.ev(calls[0].args[n]), sx.ev(calls[0].args[n + 1])
            ok = _teq(lo, 0) is True and any(_teq(hi, sp.Symbol("len(%s)" % p, integer=True) - 1) is True for p in fi.params[:n])
        chk.ob("R20.sort", q + "::whole-range", ok, fi.where(), "the public sort covers the whole input: %s(<arrays>, 0, len-1)" % callee)
        if ok:
            sorts_unless_idle(chk, fi, q, calls[0], fi.params[:n], "the call `%s`" % norm(calls[0]))


# ---------------------------------------------------------------------------
# integer term evaluation (names, + - *, // and %, divmod) on sympy terms: two spellings of the same quantity give the same
# term whatever temporaries they go through
_fdiv = sp.Function("fdiv")
_fmod = sp.Function("fmod")
_cdiv = sp.Function("cdiv")


def _opq(text):
    return sp.Symbol("?" + text)


def _known(t):
    """no unrecognised sub-term in a sympy term"""
    try:
        return not any(str(s).startswith("?") for s in t.free_symbols) and not t.has(sp.Piecewise)
    except Exception:
        return False


def _teq(a, b):
    """term equality: True / False / None (an unrecognised sub-term takes part in the difference)"""
    try:
        d = sp.expand(sp.sympify(a) - sp.sympify(b))
        if d == 0:
            return True
        # x % y == x - y * (x // y)
        d = sp.expand(d.replace(_fmod, lambda x, y: x - y * _fdiv(x, y)))
        if d == 0 or sp.simplify(d) == 0:
            return True
        return False if _known(d) else None
    except Exception:
        return None


def _pull(a, b):
    """a = a' + k*b with integer k: (a', k)"""
    a = sp.expand(a)
    if b.is_Symbol:
        k = a.coeff(b)
        # k*b with k an integer-valued term (an integer, or a product / sum of integer names) is a whole multiple of b
        if k != 0 and (k.is_Integer or (k.is_integer is True and k.is_polynomial() and b not in k.free_symbols)):
            return sp.expand(a - k * b), k
    return a, sp.Integer(0)


def _ceildiv(a, b):
    a, k = _pull(a, b)
    if a == 0:
        return k
    return _cdiv(a, b) + k


def _floordiv(a, b):
    """a // b with the integer identities floor(-x / b) == -ceil(x / b) and floor((x - 1) / b) == ceil(x / b) - 1 (b > 0) applied, so
    that -(-x // b), (x + b - 1) // b and (x - 1) // b + 1 are one term"""
    try:
        a, k = _pull(a, b)
        if a == 0:
            return k
        if a.could_extract_minus_sign():
            return -_ceildiv(-a, b) + k
        if a.as_coeff_Add()[0] == -1:
            return _ceildiv(a + 1, b) - 1 + k
        return _fdiv(a, b) + k
    except Exception:
        return _fdiv(a, b)


class _Sx:
    """python integer expression -> sympy term.  env: name -> value (term, tuple of values, or an abstract object)"""

    def __init__(self, env=None):
        self.env = dict(env or {})

    def sym(self, text):
        return sp.Symbol(text, integer=True)

    def scalar(self, v):
        return isinstance(v, sp.Basic)

    def ev(self, e):
        if isinstance(e, ast.Constant):
            if isinstance(e.value, bool) or not isinstance(e.value, int):
                return _opq(norm(e))
            return sp.Integer(e.value)
        if isinstance(e, ast.Name):
            return self.env[e.id] if e.id in self.env else self.sym(e.id)
        if isinstance(e, ast.Attribute):
            d = dotted_name(e)
            if d is not None:
                return self.env[d] if d in self.env else self.sym(d)
            return _opq(norm(e))
        if isinstance(e, ast.UnaryOp) and isinstance(e.op, (ast.USub, ast.UAdd)):
            v = self.ev(e.operand)
            if self.scalar(v):
                return -v if isinstance(e.op, ast.USub) else v
            return None
        if isinstance(e, ast.BinOp):
            return self.binop(e, self.ev(e.left), self.ev(e.right))
        if isinstance(e, ast.Tuple):
            return tuple(self.ev(x) for x in e.elts)
        if isinstance(e, ast.Call):
            return self.call(e)
        if isinstance(e, ast.Subscript):
            return self.subscript(e)
        return _opq(norm(e))

    def binop(self, e, a, b):
        if self.scalar(a) and self.scalar(b):
            if isinstance(e.op, ast.Add):
                return a + b
            if isinstance(e.op, ast.Sub):
                return a - b
            if isinstance(e.op, ast.Mult):
                return a * b
            if isinstance(e.op, ast.FloorDiv):
                return _floordiv(a, b)
            if isinstance(e.op, ast.Mod):
                return _fmod(a, b)
            if isinstance(e.op, ast.Div):
                return a / b
        return _opq(norm(e))

    def call(self, e):
        cn = call_name(e)
        if cn == "int" and len(e.args) == 1 and isinstance(e.func, ast.Name):
            v = self.ev(e.args[0])
            # int(ceil(x / y)) for integer x, y
            return v
        if cn == "ceil" and len(e.args) == 1 and isinstance(e.args[0], ast.BinOp) and isinstance(e.args[0].op, ast.Div):
            a, b = self.ev(e.args[0].left), self.ev(e.args[0].right)
            if self.scalar(a) and self.scalar(b):
                return _ceildiv(a, b)
        if cn == "float" and len(e.args) == 1:
            return self.ev(e.args[0])
        if cn == "divmod" and len(e.args) == 2 and isinstance(e.func, ast.Name):
            a, b = self.ev(e.args[0]), self.ev(e.args[1])
            if self.scalar(a) and self.scalar(b):
                return (_floordiv(a, b), _fmod(a, b))
        if cn == "len" and len(e.args) == 1 and isinstance(e.func, ast.Name):
            return self.sym("len(%s)" % norm(e.args[0]))
        return _opq(norm(e))

    def subscript(self, e):
        return _opq(norm(e))


def _rel(t, neg=False):
    """a test as a set of canonical relational facts 'a < b' / 'a <= b' / 'a == b' / 'a != b' / 'truthy x' / 'falsy x' that hold
    when the test has the value `not neg` (conjunctions split; a disjunction under negation splits as well)"""
    if isinstance(t, ast.UnaryOp) and isinstance(t.op, ast.Not):
        return _rel(t.operand, not neg)
    if isinstance(t, ast.BoolOp):
        if isinstance(t.op, ast.And) != neg:
            out = set()
            for v in t.values:
                out |= _rel(v, neg)
            return out
        return set()
    if isinstance(t, ast.Compare) and len(t.ops) == 1:
        a, b, op = norm(t.left), norm(t.comparators[0]), type(t.ops[0])
        if neg:
            op = {ast.Lt: ast.GtE, ast.LtE: ast.Gt, ast.Gt: ast.LtE, ast.GtE: ast.Lt, ast.Eq: ast.NotEq, ast.NotEq: ast.Eq,
                  ast.Is: ast.IsNot, ast.IsNot: ast.Is}.get(op)
        if op in (ast.Gt, ast.GtE):
            a, b, op = b, a, {ast.Gt: ast.Lt, ast.GtE: ast.LtE}[op]
        sym = {ast.Lt: "<", ast.LtE: "<=", ast.Eq: "==", ast.NotEq: "!=", ast.Is: "is", ast.IsNot: "is not"}.get(op)
        if sym is None:
            return set()
        if sym in ("==", "!=") and a > b:
            a, b = b, a
        return {"%s %s %s" % (a, sym, b)}
    return {("falsy " if neg else "truthy ") + norm(t)}


def _facts(view, n):
    """canonical facts (see _rel) implied by the branch and while tests that control CFG node n"""
    out = set()
    for b, lab in view.controlling_branches(n):
        if b.kind == "branch" or (b.kind == "loop" and isinstance(b.ast, ast.While)):
            if lab in ("T", "F"):
                out |= _rel(b.ast.test, lab == "F")
    return out


# ---------------------------------------------------------------------------
# isplit: abstract evaluation of the straight-line body.  Lists / arrays that are piecewise constant are kept as runs
# [(count, value)], their cumulative sum as _Cum, the structured result as _Tab whose fields are read off a _Cum at an offset.
class _Rep:
    def __init__(self, segs):
        self.segs = list(segs)


class _Cum:
    def __init__(self, segs):
        self.segs = list(segs)


class _Tab:
    def __init__(self, n, fields):
        self.n = n
        self.fields = dict(fields)     # name -> None (not stored) | (cum, offset) | "?" (stored, not understood)


class _Seq:
    """an integer array given by its length and its i-th element as a term in _ISYM (np.arange and what is computed from it element by element)"""
    def __init__(self, n, elem):
        self.n, self.elem = n, elem


class _Elem:
    def __init__(self, cum, idx):
        self.cum, self.idx = cum, idx


class _Shift:
    def __init__(self, cum, lo, hi):
        self.cum, self.lo, self.hi = cum, lo, hi


class _FieldView:
    """`T['f']` kept under a name: a store through it is a store into that field of the table"""
    def __init__(self, tab, field):
        self.tab, self.field = tab, field


def _pw_fold(t):
    """a term with its case distinctions pulled to the top and every arm expanded"""
    t = sp.piecewise_fold(sp.expand(t))
    if isinstance(t, sp.Piecewise):
        return sp.Piecewise(*[(sp.expand(v), c) for v, c in t.args])
    return sp.expand(t)


def _pw_eq(a, b):
    """are two terms (possibly with case distinctions on the same conditions) equal in every case?  True / None"""
    try:
        d = _pw_fold(a - b)
        if isinstance(d, sp.Piecewise):
            return True if all(_teq(v, 0) is True for v, _ in d.args) else None
        return True if _teq(d, 0) is True else None
    except Exception:
        return None


def _runs_of(d, i, n):
    """the values d(0), ..., d(n-1) of a term in the round number i as runs [(count, value)]: one run when d does not depend on i, two
    when d is `x if i < k else y` (or `y if i >= k else x`) with k the remainder of a division by n, so that 0 <= k <= n.  None: not of that form"""
    try:
        d = _pw_fold(d)
        if not d.has(sp.Piecewise):
            return [(n, d)] if (i not in d.free_symbols and _known(d)) else None
        if not (isinstance(d, sp.Piecewise) and len(d.args) == 2 and d.args[1][1] == True):    # noqa: E712 (a sympy truth value)
            return None
        (x, c), (y, _) = d.args
        if any(v.has(sp.Piecewise) or i in v.free_symbols or not _known(v) for v in (x, y)):
            return None
        if isinstance(c, (sp.StrictLessThan, sp.StrictGreaterThan)) and c.lts == i:
            k, first, second = c.gts, x, y                # i < k
        elif isinstance(c, (sp.LessThan, sp.GreaterThan)) and c.gts == i:
            k, first, second = c.lts, y, x                # i >= k
        else:
            return None
        if i in k.free_symbols or not _is_remainder_of(k, n):
            return None
        return [(k, first), (sp.expand(n - k), second)]
    except Exception:
        return None


def _total(segs):
    t = sp.Integer(0)
    for c, _ in segs:
        t = t + c
    return sp.expand(t)


class _IsplitEval(_Sx):
    def __init__(self, env):
        _Sx.__init__(self, env)
        self.cums = []
        self.ret = []
        self.loop = None       # (symbol, count) of the enclosing `for i in range(count)`
        self.swapped = False
        self.carried = {}      # symbol of a loop-carried running total "as the round begins" -> (its _Cum, increment per round)

    # -- expressions ------------------------------------------------------
    def ev(self, e):
        if isinstance(e, (ast.List, ast.Tuple)) and e.elts:
            vs = [_Sx.ev(self, x) if not isinstance(x, (ast.List, ast.Tuple)) else None for x in e.elts]
            if all(self.scalar(v) for v in vs) and isinstance(e, ast.List):
                return _Rep([(sp.Integer(1), v) for v in vs])
            if isinstance(e, ast.Tuple):
                return tuple(self.ev(x) for x in e.elts)
        if isinstance(e, ast.IfExp):
            c, a, b = self.cond(e.test), self.ev(e.body), self.ev(e.orelse)
            if c is not None and self.scalar(a) and self.scalar(b):
                return sp.Piecewise((a, c), (b, True))
            return None if (isinstance(a, (_Rep, _Cum, _Tab, _Seq, _FieldView)) or isinstance(b, (_Rep, _Cum, _Tab, _Seq, _FieldView))) else _opq(norm(e))
        if isinstance(e, ast.Compare):
            c = self.cond(e)               # a comparison used as a number: 1 where it holds, 0 elsewhere
            return sp.Piecewise((sp.Integer(1), c), (sp.Integer(0), True)) if c is not None else _opq(norm(e))
        return _Sx.ev(self, e)

    def cond(self, t):
        """an ordering test between integer terms as a sympy relation, else None"""
        if isinstance(t, ast.UnaryOp) and isinstance(t.op, ast.Not):
            c = self.cond(t.operand)
            return sp.Not(c) if c is not None else None
        if isinstance(t, ast.BoolOp) and isinstance(t.op, ast.And):
            cs = [self.cond(v) for v in t.values]
            return sp.And(*cs) if all(c is not None for c in cs) else None
        if isinstance(t, ast.Compare) and len(t.ops) == 1 and isinstance(t.ops[0], (ast.Lt, ast.LtE, ast.Gt, ast.GtE)):
            a, b = self.ev(t.left), self.ev(t.comparators[0])
            if self.scalar(a) and self.scalar(b) and _known(a) and _known(b):
                try:
                    c = {ast.Lt: sp.Lt, ast.LtE: sp.Le, ast.Gt: sp.Gt, ast.GtE: sp.Ge}[type(t.ops[0])](a, b)
                except Exception:
                    return None
                return c if isinstance(c, sp.core.relational.Relational) else None
        return None

    def binop(self, e, a, b):
        if isinstance(a, _FieldView) or isinstance(b, _FieldView):
            return None
        if isinstance(a, _Rep) and isinstance(b, _Rep) and isinstance(e.op, ast.Add):
            return _Rep(a.segs + b.segs)
        if isinstance(e.op, ast.Mult):
            for r, k in ((a, b), (b, a)):
                if isinstance(r, _Rep) and self.scalar(k):
                    if len(r.segs) == 1:
                        return _Rep([(sp.expand(r.segs[0][0] * k), r.segs[0][1])])
                    return None
        if isinstance(a, _Seq) or isinstance(b, _Seq):
            return self._elementwise(lambda x, y: _Sx.binop(self, e, x, y), a, b)
        if isinstance(a, (_Rep, _Cum, _Tab)) or isinstance(b, (_Rep, _Cum, _Tab)):
            return None
        return _Sx.binop(self, e, a, b)

    def _elementwise(self, f, a, b):
        """a binary operation applied element by element to arrays of one length (a scalar is broadcast)"""
        if isinstance(a, _Seq) and isinstance(b, _Seq):
            if _teq(a.n, b.n) is not True:
                return None
            n, x, y = a.n, a.elem, b.elem
        elif isinstance(a, _Seq) and self.scalar(b):
            n, x, y = a.n, a.elem, b
        elif isinstance(b, _Seq) and self.scalar(a):
            n, x, y = b.n, a, b.elem
        else:
            return None
        v = f(x, y)
        return _Seq(n, v) if self.scalar(v) else None

    def _arg(self, c, i, name):
        if len(c.args) > i:
            return c.args[i]
        return kwarg(c, name)

    def call(self, c):
        cn = call_name(c)
        if cn in ("array", "asarray", "asanyarray", "list", "ascontiguousarray") and c.args:
            v = self.ev(c.args[0])
            if isinstance(v, (_Rep, _Cum, _Seq)):
                return v
            return None
        if cn == "arange" and not any(k.arg not in ("dtype", "like") for k in c.keywords) and 1 <= len(c.args) <= 2:
            # arange(n) / arange(lo, hi): element i is lo + i, hi - lo elements (counts are positive here: nchunks >= 1 past the guard)
            lo = self.ev(c.args[0]) if len(c.args) == 2 else sp.Integer(0)
            hi = self.ev(c.args[-1])
            if self.scalar(lo) and self.scalar(hi):
                return _Seq(sp.expand(hi - lo), lo + _ISYM)
            return None
        if cn in ("minimum", "maximum") and len(c.args) == 2 and not c.keywords and isinstance(c.func, ast.Attribute):
            a, b = self.ev(c.args[0]), self.ev(c.args[1])
            f = sp.Min if cn == "minimum" else sp.Max
            if isinstance(a, _Seq) or isinstance(b, _Seq):
                return self._elementwise(f, a, b)
            return f(a, b) if (self.scalar(a) and self.scalar(b)) else None
        if cn in ("min", "max") and len(c.args) == 2 and not c.keywords and isinstance(c.func, ast.Name):
            a, b = self.ev(c.args[0]), self.ev(c.args[1])
            return (sp.Min if cn == "min" else sp.Max)(a, b) if (self.scalar(a) and self.scalar(b)) else None
        if dotted_name(c.func) in ("operator.index", "index") and len(c.args) == 1 and not c.keywords:
            return self.ev(c.args[0])   # the identity on integers (anything else is rejected by it)
        if cn == "full":
            n, v = self._arg(c, 0, "shape"), self._arg(c, 1, "fill_value")
            if n is not None and v is not None:
                n, v = self.ev(n), self.ev(v)
                if self.scalar(n) and self.scalar(v):
                    return _Rep([(n, v)])
            return None
        if cn in ("zeros", "ones", "empty"):
            n = self._arg(c, 0, "shape")
            dt = self._arg(c, 1, "dtype")
            n = self.ev(n) if n is not None else None
            if not self.scalar(n):
                return None
            if isinstance(dt, ast.List):
                names = [x.elts[0].value for x in dt.elts if isinstance(x, ast.Tuple) and x.elts and isinstance(x.elts[0], ast.Constant)]
                if len(names) == len(dt.elts):
                    return _Tab(n, {k: None for k in names})
                return None
            return _Rep([(n, {"zeros": sp.Integer(0), "ones": sp.Integer(1), "empty": _opq("uninitialised")}[cn])])
        if cn == "cumsum" and kwarg(c, "out") is None:
            src = c.func.value if (isinstance(c.func, ast.Attribute) and not c.args) else (c.args[0] if c.args else None)
            v = self.ev(src) if src is not None else None
            if isinstance(v, _Rep):
                cu = _Cum(v.segs)
                self.cums.append(cu)
                return cu
            return None
        if cn in ("concatenate", "hstack", "r_") and c.args and isinstance(c.args[0], (ast.Tuple, ast.List)) and len(c.args[0].elts) == 2:
            a, b = self.ev(c.args[0].elts[0]), self.ev(c.args[0].elts[1])
            if isinstance(a, _Rep) and isinstance(b, _Cum) and len(a.segs) == 1 and a.segs[0] == (sp.Integer(1), sp.Integer(0)):
                cu = _Cum(a.segs + b.segs)
                self.cums.append(cu)
                return cu
            return None
        if cn == "insert" and len(c.args) == 3 and norm(c.args[1]) == "0" and norm(c.args[2]) == "0":
            b = self.ev(c.args[0])
            if isinstance(b, _Cum):
                cu = _Cum([(sp.Integer(1), sp.Integer(0))] + b.segs)
                self.cums.append(cu)
                return cu
            return None
        if cn == "divmod" and len(c.args) == 2:
            a, b = self.ev(c.args[0]), self.ev(c.args[1])
            if self.scalar(a) and self.scalar(b) and {str(a), str(b)} == {"num", "nchunks"} and str(a) == "nchunks":
                self.swapped = True
        return _Sx.call(self, c)

    def subscript(self, e):
        base = self.ev(e.value)
        if isinstance(base, (_Cum, _Seq)):
            if isinstance(e.slice, ast.Slice):
                if e.slice.step is not None:
                    return None
                lo = self.ev(e.slice.lower) if e.slice.lower is not None else None
                hi = self.ev(e.slice.upper) if e.slice.upper is not None else None
                return _Shift(base, lo, hi)
            i = self.ev(e.slice)
            if self.scalar(i):
                return _Elem(base, i)
            return None
        if isinstance(base, _Tab) and isinstance(e.slice, ast.Constant) and isinstance(e.slice.value, str) and e.slice.value in base.fields:
            return _FieldView(base, e.slice.value)
        if isinstance(base, (_Rep, _Tab, _FieldView)):
            return None
        return _Sx.subscript(self, e)

    # -- statements -------------------------------------------------------
    def _kill(self, st):
        for x in ast.walk(st):
            if isinstance(x, ast.Name) and isinstance(x.ctx, ast.Load):
                # a table (or a field of it kept under a name) that a statement the evaluation does not follow gets hold of
                v = self.env.get(x.id)
                if isinstance(v, _FieldView):
                    v.tab.fields[v.field] = "?"
                elif isinstance(v, _Tab):
                    for f_ in v.fields:
                        v.fields[f_] = "?"
        for x in ast.walk(st):
            if isinstance(x, ast.Name) and isinstance(x.ctx, ast.Store):
                self.env[x.id] = None
            elif isinstance(x, (ast.Subscript, ast.Attribute)) and isinstance(x.ctx, ast.Store):
                b = x
                while isinstance(b, (ast.Subscript, ast.Attribute)):
                    b = b.value
                if isinstance(b, ast.Name):
                    self.env[b.id] = None

    def run(self, stmts):
        for st in stmts:
            self.stmt(st)

    def stmt(self, st):
        if isinstance(st, ast.Expr) and isinstance(st.value, ast.Constant):
            return
        if isinstance(st, (ast.Import, ast.ImportFrom, ast.Pass, ast.Assert)):
            return
        if isinstance(st, ast.Assign) and len(st.targets) == 1:
            t = st.targets[0]
            if isinstance(t, ast.Name):
                self.env[t.id] = self.ev(st.value)
                return
            if isinstance(t, (ast.Tuple, ast.List)) and all(isinstance(x, ast.Name) for x in t.elts):
                v = self.ev(st.value)
                for i, x in enumerate(t.elts):
                    self.env[x.id] = v[i] if isinstance(v, tuple) and len(v) == len(t.elts) else None
                return
            if isinstance(t, ast.Subscript):
                self.store(t, st.value, None)
                return
        if isinstance(st, ast.AugAssign):
            if isinstance(st.target, ast.Name) and isinstance(self.env.get(st.target.id), (_FieldView, _Tab)):
                self._kill(st)             # in-place arithmetic on the table
                return
            if isinstance(st.target, ast.Name):
                v = self.binop(ast.BinOp(left=st.target, op=st.op, right=st.value), self.ev(st.target), self.ev(st.value))
                self.env[st.target.id] = v
                return
            if isinstance(st.target, ast.Subscript):
                self.store(st.target, st.value, st.op)
                return
        if isinstance(st, ast.Expr) and isinstance(st.value, ast.Call):
            c = st.value
            out = kwarg(c, "out")
            if call_name(c) == "cumsum" and out is not None and c.args:
                v = self.ev(c.args[0])
                self.store_cum(out, v)
                return
            if call_name(c) == "print":
                return
        if isinstance(st, ast.For) and isinstance(st.target, ast.Name) and isinstance(st.iter, ast.Call) and call_name(st.iter) == "range" \
                and not st.orelse and not st.iter.keywords and (len(st.iter.args) == 1 or (len(st.iter.args) == 2 and norm(st.iter.args[0]) == "0")) \
                and not any(isinstance(x, (ast.Break, ast.Continue, ast.For, ast.While, ast.Return, ast.Try, ast.Raise, ast.With)) for b in st.body for x in ast.walk(b)) \
                and self.loop is None:
            n = self.ev(st.iter.args[-1])
            if self.scalar(n) and self._for_range(st, n):
                return
        if isinstance(st, ast.For) and not st.orelse and self.loop is None \
                and not any(isinstance(x, (ast.Break, ast.Continue, ast.For, ast.While, ast.Return, ast.Try, ast.Raise, ast.With)) for b in st.body for x in ast.walk(b)):
            hd = self._zip_header(st)
            if hd is not None and self._for_range(st, hd[1], hd[0], hd[2]):
                return
        if isinstance(st, ast.If) and not st.orelse and st.body and isinstance(st.body[-1], ast.Raise):
            return                 # a rejection guard leaves the state of the continuing path unchanged
        if isinstance(st, ast.If) and self._if_names(st):
            return
        if isinstance(st, ast.Try) and st.handlers and all(h.body and isinstance(h.body[-1], ast.Raise) for h in st.handlers) and self.loop is None:
            # every handler ends in a raise: the path that continues has run the whole body (then else, then finally)
            self.run(st.body)
            self.run(st.orelse)
            self.run(st.finalbody)
            return
        if isinstance(st, ast.Return):
            self.ret.append(self.ev(st.value) if st.value is not None else None)
            return
        if isinstance(st, ast.Raise):
            return
        self._kill(st)

    def _if_names(self, st):
        """an if / else whose arms only bind plain names, under an ordering test between integer terms: each name bound in an arm
        becomes `x if test else y`.  False: not of that form (nothing was done)"""
        c = self.cond(st.test)
        if c is None:
            return False
        for arm in (st.body, st.orelse):
            for x in arm:
                ok = (isinstance(x, ast.Assign) and len(x.targets) == 1 and isinstance(x.targets[0], ast.Name)) or \
                    (isinstance(x, ast.AugAssign) and isinstance(x.target, ast.Name)) or isinstance(x, ast.Pass)
                # calls: only the pure integer functions the evaluation knows (no effect on anything else)
                if not ok or any(isinstance(y, ast.Call) and not (dotted_name(y.func) in ("min", "max", "int", "operator.index") and not y.keywords
                                                                  and not any(isinstance(a, ast.Starred) for a in y.args)) for y in ast.walk(x)):
                    return False
                t = x.targets[0] if isinstance(x, ast.Assign) else getattr(x, "target", None)
                if t is not None and isinstance(self.env.get(t.id), (_Tab, _FieldView, _Rep, _Cum, _Seq)):
                    return False
        env0 = dict(self.env)
        self.run(st.body)
        env_t = self.env
        self.env = dict(env0)
        self.run(st.orelse)
        env_f = self.env
        out = dict(env0)
        for k in set(env_t) | set(env_f):
            a, b = env_t.get(k, self.sym(k)), env_f.get(k, self.sym(k))
            if a is b:
                out[k] = a
            elif self.scalar(a) and self.scalar(b):
                out[k] = a if _teq(a, b) is True else sp.Piecewise((a, c), (b, True))
            else:
                out[k] = None
        self.env = out
        return True

    def _scratch(self):
        """a copy of the evaluator on which a loop body can be tried out: tables are copied, everything else is immutable"""
        o = _IsplitEval({})
        tabs = {}

        def cp(v):
            if isinstance(v, _Tab):
                if id(v) not in tabs:
                    tabs[id(v)] = _Tab(v.n, v.fields)
                return tabs[id(v)]
            if isinstance(v, _FieldView):
                return _FieldView(cp(v.tab), v.field)
            return v
        o.env = {k: cp(v) for k, v in self.env.items()}
        o.cums = list(self.cums)
        o.carried = dict(self.carried)
        return o

    def _window(self, v):
        """(sequence, first position, number of elements) of a division-point sequence or a slice of it with literal bounds (counted
        from the front for the lower, from the back for the upper bound); the count is exact when it is not negative, which the
        comparison with the positive number of table rows establishes.  None: not of that form"""
        if isinstance(v, (_Cum, _Seq)):
            base, lo, hi = v, None, None
        elif isinstance(v, _Shift) and isinstance(v.cum, (_Cum, _Seq)):
            base, lo, hi = v.cum, v.lo, v.hi
        else:
            return None
        ln = base.n if isinstance(base, _Seq) else _total(base.segs)
        lo = sp.Integer(0) if lo is None else lo
        if not (self.scalar(lo) and lo.is_Integer and lo >= 0):
            return None
        if hi is None:
            hi = ln
        elif self.scalar(hi) and hi.is_Integer and hi < 0:
            hi = ln + hi
        else:
            return None
        return base, lo, sp.expand(hi - lo)

    def _zip_header(self, st):
        """`for [i,] x[, y ...] in [enumerate(] S | zip(S, T, ...) [)]` over division-point sequences (or slices of them) of one length n:
        (name of the round number, n, {name: its value in round i, an element of the sequence}).  None: not of that form"""
        it, tgt = st.iter, st.target
        idx = None
        if isinstance(it, ast.Call) and isinstance(it.func, ast.Name) and it.func.id == "enumerate" and len(it.args) == 1 \
                and all(k.arg == "start" and norm(k.value) == "0" for k in it.keywords):
            if not (isinstance(tgt, (ast.Tuple, ast.List)) and len(tgt.elts) == 2 and isinstance(tgt.elts[0], ast.Name)):
                return None
            idx, it, tgt = tgt.elts[0].id, it.args[0], tgt.elts[1]
        if isinstance(it, ast.Call) and isinstance(it.func, ast.Name) and it.func.id == "zip":
            if it.keywords or not it.args or any(isinstance(a, ast.Starred) for a in it.args):
                return None
            if not (isinstance(tgt, (ast.Tuple, ast.List)) and len(tgt.elts) == len(it.args)):
                return None
            srcs, tgts = list(it.args), list(tgt.elts)
        else:
            srcs, tgts = [it], [tgt]
        if not all(isinstance(t, ast.Name) for t in tgts):
            return None
        names = [t.id for t in tgts] + ([idx] if idx is not None else [])
        if len(set(names)) != len(names):
            return None
        if idx is None:
            idx = "$round"
        i = self.sym(idx)
        n, binds = None, {}
        for t, src in zip(tgts, srcs):
            w = self._window(self.ev(src))
            if w is None:
                return None
            base, lo, ln = w
            if n is None:
                n = ln
            elif _teq(n, ln) is not True:
                return None             # zip stops at the shortest: not followed
            binds[t.id] = _Elem(base, sp.expand(lo + i))
        return idx, n, binds

    def _for_range(self, st, n, idx=None, binds=None):
        """`for i in range(n)` with a straight-line body.  A name the body reads before it binds it is carried from one round to the
        next: with A its value as round i begins, the body is evaluated once to find its value A + d(i) as the round ends; the
        values A takes are then init, init + d(0), init + d(0) + d(1), ...: the cumulative sums of the runs of d led by init, and
        inside the round A is element i of that sequence, A + d(i) element i + 1.  False: not followed (nothing was done)"""
        if idx is None:
            idx = st.target.id
        binds = dict(binds or {})      # names the loop header binds to an element of a sequence in round i (see _zip_header)
        i = self.sym(idx)
        stored = {x.id for b in st.body for x in ast.walk(b) if isinstance(x, ast.Name) and isinstance(x.ctx, (ast.Store, ast.Del))}
        if idx in stored or any(b in stored for b in binds):
            return False
        bound, carried = set(), []
        for b in st.body:
            reads = [x.id for x in ast.walk(b) if isinstance(x, ast.Name) and (isinstance(x.ctx, ast.Load) or (isinstance(b, ast.AugAssign) and x is b.target))]
            for r in reads:
                if r in stored and r not in bound and r not in carried:
                    carried.append(r)
            if isinstance(b, ast.Assign) and len(b.targets) == 1 and isinstance(b.targets[0], ast.Name):
                bound.add(b.targets[0].id)
        syms = {}
        if carried:
            if not all(self.scalar(self.env.get(c)) and _known(self.env[c]) for c in carried):
                return False
            syms = {c: sp.Symbol("@" + c, integer=True) for c in carried}
            sc = self._scratch()
            sc.loop = (i, n)
            sc.env.pop(idx, None)
            sc.env.update(binds)
            for c, a in syms.items():
                sc.env[c] = a
            sc.run(st.body)
            self.swapped = self.swapped or sc.swapped
            found = {}
            for c, a in syms.items():
                end = sc.env.get(c)
                if not self.scalar(end):
                    return False
                d = _pw_fold(end - a)
                if d.free_symbols & set(syms.values()):
                    return False           # not a running total: the recurrence is not solved here
                runs = _runs_of(d, i, n)
                if runs is None:
                    return False
                found[a] = (_Cum([(sp.Integer(1), sp.expand(self.env[c]))] + runs), d)
            for a, (cu, d) in found.items():
                self.cums.append(cu)
                self.carried[a] = (cu, d)
            for c, a in syms.items():
                self.env[c] = a
        self.loop = (i, n)
        self.env.pop(idx, None)
        self.env.update(binds)
        self.run(st.body)
        self.loop = None
        for a in syms.values():
            self.carried.pop(a, None)
        # what a name bound in the body holds after the last round is not needed (and not known when there is no round at all)
        for x in list(stored) + list(binds):
            self.env[x] = None
        return True

    def store_cum(self, target, v):
        """np.cumsum(v, out=target) / target = cumsum"""
        if isinstance(target, ast.Name) and isinstance(self.env.get(target.id), (_FieldView, _Tab)):
            self._kill(ast.Expr(value=ast.Name(id=target.id, ctx=ast.Load())))
            return
        if not isinstance(v, (_Rep, _Cum)):
            self._kill(ast.Assign(targets=[_as_store(target)], value=ast.Constant(value=0)))
            return
        segs = v.segs
        if isinstance(target, ast.Name):
            cu = _Cum(segs)
            self.cums.append(cu)
            self.env[target.id] = cu
            return
        if isinstance(target, ast.Subscript) and isinstance(target.value, ast.Name) and isinstance(target.slice, ast.Slice):
            d = self.env.get(target.value.id)
            sl = target.slice
            if isinstance(d, _Rep) and len(d.segs) == 1 and d.segs[0][1] == 0 and sl.step is None and sl.upper is None \
                    and sl.lower is not None and norm(sl.lower) == "1" and _teq(d.segs[0][0], _total(segs) + 1):
                cu = _Cum([(sp.Integer(1), sp.Integer(0))] + segs)
                self.cums.append(cu)
                self.env[target.value.id] = cu
                return
            self.env[target.value.id] = None
            return
        self._kill(ast.Assign(targets=[_as_store(target)], value=ast.Constant(value=0)))

    def store(self, t, value, op):
        # sizes[:r] += 1  /  sizes[:r] = q + 1
        if isinstance(t.value, ast.Name) and isinstance(self.env.get(t.value.id), _Rep) and isinstance(t.slice, ast.Slice):
            r = self.env[t.value.id]
            sl = t.slice
            v = self.ev(value)
            if len(r.segs) == 1 and (sl.lower is None) != (sl.upper is None) and sl.step is None and self.scalar(v) and (op is None or isinstance(op, (ast.Add, ast.Sub))):
                k = self.ev(sl.upper if sl.lower is None else sl.lower)
                n, v0 = r.segs[0]
                if self.scalar(k):
                    nv = v if op is None else (v0 + v if isinstance(op, ast.Add) else v0 - v)
                    # valid for 0 <= k <= n, which holds for the remainder of a division by n
                    runs = [(k, nv), (sp.expand(n - k), v0)] if sl.lower is None else [(k, v0), (sp.expand(n - k), nv)]
                    self.env[t.value.id] = _Rep(runs) if _is_remainder_of(k, n) else None
                    return
            if isinstance(self.env.get(t.value.id), _Rep) and op is None and len(r.segs) == 1 and r.segs[0][1] == 0:
                v = self.ev(value)
                if isinstance(v, _Cum):
                    if v in self.cums:
                        self.cums.remove(v)
                    self.store_cum(t, v)
                    return
            self.env[t.value.id] = None
            return
        # table field stores: T['f'] = V, T['f'][:] = V, T['f'][i] = V, T[i]['f'] = V
        tab, field, idx = self._field_target(t)
        if tab is not None:
            if op is not None:
                tab.fields[field] = "?"
                return
            v = self.ev(value)
            tab.fields[field] = self._field_value(tab, idx, v)
            return
        self._kill(ast.Assign(targets=[t], value=ast.Constant(value=0)))

    def _field_target(self, t):
        subs = []
        b = t
        while isinstance(b, ast.Subscript):
            subs.append(b.slice)
            b = b.value
        subs.reverse()
        if isinstance(b, ast.Name) and isinstance(self.env.get(b.id), _FieldView):
            view = self.env[b.id]
            if len(subs) != 1 or (isinstance(subs[0], ast.Constant) and isinstance(subs[0].value, str)):
                view.tab.fields[view.field] = "?"
                return None, None, None
            return view.tab, view.field, subs[0]
        if not isinstance(b, ast.Name) or not isinstance(self.env.get(b.id), _Tab):
            return None, None, None
        tab = self.env[b.id]
        fields = [s for s in subs if isinstance(s, ast.Constant) and isinstance(s.value, str)]
        rest = [s for s in subs if not (isinstance(s, ast.Constant) and isinstance(s.value, str))]
        if len(fields) != 1 or fields[0].value not in tab.fields or len(rest) > 1:
            self.env[b.id] = None
            return None, None, None
        return tab, fields[0].value, (rest[0] if rest else None)

    def _field_value(self, tab, idx, v):
        whole = idx is None or (isinstance(idx, ast.Slice) and idx.lower is None and idx.upper is None and idx.step is None) \
            or (isinstance(idx, ast.Constant) and idx.value is Ellipsis)
        if whole:
            if isinstance(v, _Shift):
                ln = v.cum.n if isinstance(v.cum, _Seq) else _total(v.cum.segs)
                lo = sp.Integer(0) if v.lo is None else v.lo
                hi = ln if v.hi is None else v.hi
                if lo.is_number and lo < 0:
                    lo = ln + lo
                if hi.is_number and hi < 0:
                    hi = ln + hi
                if _teq(hi - lo, tab.n) and self.loop is None:
                    return (v.cum, sp.expand(lo))
            return "?"
        if self.loop is not None and not isinstance(idx, ast.Slice):
            i, n = self.loop
            if _teq(self.ev(idx), i) and _teq(n, tab.n) and isinstance(v, _Elem):
                k = sp.expand(v.idx - i)
                if i not in k.free_symbols:
                    return (v.cum, k)
            if _teq(self.ev(idx), i) and _teq(n, tab.n) and self.scalar(v):
                # a running total: as the round begins it is element i of its cumulative sequence, once the round's increment
                # has been added it is element i + 1
                mine = [a for a in self.carried if a in v.free_symbols]
                if len(mine) == 1:
                    a = mine[0]
                    cu, d = self.carried[a]
                    if _pw_eq(v, a) is True:
                        return (cu, sp.Integer(0))
                    if _pw_eq(v, a + d) is True:
                        return (cu, sp.Integer(1))
        return "?"


def _as_store(t):
    t = copy.deepcopy(t)
    for x in ast.walk(t):
        if hasattr(x, "ctx"):
            x.ctx = ast.Store()
    return t


def _is_remainder_of(k, n):
    return k.func == _fmod and len(k.args) == 2 and _teq(k.args[1], n) is True


def _norm_segs(segs, rterm):
    """runs with empty runs dropped and equal neighbours merged; inside a run whose count is the remainder r the run is
    non-empty only when r != 0, so the indicator [r != 0] is 1 there"""
    out = []
    for c, v in segs:
        c = sp.expand(c)
        if c == 0:
            continue
        if _teq(c, rterm) is True:
            v = v.subs(_Z, 1)
        v = sp.expand(v)
        if out and _teq(out[-1][1], v) is True:
            out[-1] = (sp.expand(out[-1][0] + c), v)
        else:
            out.append((c, v))
    return out


def _segs_equal(a, b, rterm):
    a, b = _norm_segs(a, rterm), _norm_segs(b, rterm)
    if len(a) != len(b):
        return False if all(_known(c) and _known(v) for c, v in a + b) else None
    res = True
    for (c1, v1), (c2, v2) in zip(a, b):
        for x, y in ((c1, c2), (v1, v2)):
            r = _teq(x, y)
            if r is False:
                return False
            if r is None:
                res = None
    return res


_Q, _Z = sp.Symbol("Q", integer=True), sp.Symbol("Z", integer=True)


def _qr(v, num, nch):
    """name the quotient, remainder and [remainder != 0] of num by nchunks"""
    def f(t):
        return sp.expand(t.subs({_fdiv(num, nch): _Q, _fmod(num, nch): num - nch * _Q, _cdiv(num, nch): _Q + _Z})) if isinstance(t, sp.Basic) else t
    return [(f(c), f(x)) for c, x in v]


def _closed_form_points(seq, num, nch):
    """are the nchunks+1 values seq.elem(i), i = 0..nchunks, equal to i*q + min(i, r) with (q, r) = divmod(num, nchunks)?  Decided on the
    two sides of i = r (i = r - t and i = r + t, t >= 0), where min/max of terms in i and r are plain terms.  True / False / None"""
    if _teq(seq.n, nch + 1) is not True or not isinstance(seq.elem, sp.Basic):
        return None
    R = sp.Symbol("R", integer=True)
    t = sp.Symbol("t", integer=True, nonnegative=True)
    try:
        e = seq.elem.subs({_fdiv(num, nch): _Q, _fmod(num, nch): R}).subs(num, nch * _Q + R)
        if e.atoms(sp.core.function.AppliedUndef) or not (e.free_symbols <= {_ISYM, _Q, R, nch}):
            return None                # built from something else than the quotient and the remainder: not judged
        res = True
        for at, want in ((R - t, (R - t) * _Q + (R - t)), (R + t, (R + t) * _Q + R)):
            d = sp.expand(e.subs(_ISYM, at) - want)
            if d != 0:
                if d.has(sp.Min) or d.has(sp.Max) or d.has(sp.Piecewise):
                    return None
                res = False
        return res
    except Exception:
        return None


# ---------------------------------------------------------------------------
# a count written with case distinctions (x if test else y, min / max) against the requested number, for every input: the cases are
# split, each case is a conjunction of integer-linear constraints over the parameters, decided by Fourier-Motzkin elimination (exact for
# integers while the eliminated variable has unit coefficients on one side)
def _lin(e, syms):
    """an integer-linear term as {symbol: coefficient, 1: constant}, else None"""
    try:
        e = sp.expand(e)
        if not (e.free_symbols <= set(syms)) or e.atoms(sp.core.function.AppliedUndef) or e.has(sp.Min, sp.Max, sp.Piecewise):
            return None
        if not syms or not e.free_symbols:
            return {1: int(e)} if e.is_Integer else None
        p = sp.Poly(e, *syms)
        if p.total_degree() > 1:
            return None
        out = {}
        for mon, c in p.terms():
            if not c.is_Integer:
                return None
            if sum(mon) == 0:
                out[1] = int(c)
            else:
                out[syms[list(mon).index(1)]] = int(c)
        return out
    except Exception:
        return None


def _rel_constraints(c, syms):
    """a sympy relation between integer-linear terms as a list of constraints `term >= 0`, else None"""
    if c == True:                     # noqa: E712 (a sympy truth value)
        return []
    if isinstance(c, (sp.StrictLessThan, sp.StrictGreaterThan)):
        ls = [_lin(c.gts - c.lts - 1, syms)]
    elif isinstance(c, (sp.LessThan, sp.GreaterThan)):
        ls = [_lin(c.gts - c.lts, syms)]
    elif isinstance(c, sp.Equality):
        ls = [_lin(c.lhs - c.rhs, syms), _lin(c.rhs - c.lhs, syms)]
    else:
        return None
    return None if any(x is None for x in ls) else ls


def _fm_sat(cons):
    """is there an integer point with every constraint {symbol: coefficient, 1: constant} >= 0?  True / False (not even a rational one) /
    None (a rational one exists, an integer one is not established)"""
    cons = [dict(c) for c in cons]
    exact = True
    for _ in range(12):
        live = []
        for c in cons:
            if any(v != 1 and k for v, k in c.items()):
                live.append(c)
            elif c.get(1, 0) < 0:
                return False
        cons = live
        vs = sorted({v for c in cons for v, k in c.items() if v != 1 and k}, key=str)
        if not vs:
            return True if exact else None
        v = min(vs, key=lambda w: (max(abs(c.get(w, 0)) for c in cons), str(w)))
        lo = [c for c in cons if c.get(v, 0) > 0]
        hi = [c for c in cons if c.get(v, 0) < 0]
        if lo and hi and not (all(c[v] == 1 for c in lo) or all(c[v] == -1 for c in hi)):
            exact = False
        new = [c for c in cons if not c.get(v, 0)]
        for a in lo:
            for b in hi:
                ka, kb = -b[v], a[v]
                d = {}
                for k in set(a) | set(b):
                    if k != v:
                        d[k] = ka * a.get(k, 0) + kb * b.get(k, 0)
                new.append(d)
        if len(new) > 200:
            return None
        cons = new
    return None


def _term_cases(t, depth=0):
    """[(conditions, term)]: the term with every `x if c else y`, min and max replaced case by case (the cases cover every input)"""
    if depth > 6:
        raise ValueError("too many case distinctions")
    for sub in sp.postorder_traversal(t):          # innermost first: the tests of a case never hold cases themselves
        if isinstance(sub, sp.Piecewise):
            out, neg = [], []
            for v, c in sub.args:
                conds = neg + ([c] if c != True else [])           # noqa: E712
                out += [(conds + cs, tt) for cs, tt in _term_cases(t.xreplace({sub: v}), depth + 1)]
                if c == True:                                       # noqa: E712
                    return out
                neg = neg + [sp.Not(c)]
            raise ValueError("a case distinction without a last arm")
        if isinstance(sub, (sp.Min, sp.Max)):
            out = []
            for a in sub.args:
                conds = [(sp.Le(a, b) if isinstance(sub, sp.Min) else sp.Ge(a, b)) for b in sub.args if b is not a]
                out += [(conds + cs, tt) for cs, tt in _term_cases(t.xreplace({sub: a}), depth + 1)]
            return out
    return [([], t)]


def _has_cases(t):
    return isinstance(t, sp.Basic) and t.has(sp.Piecewise, sp.Min, sp.Max)


def _equal_on_domain(t, want, domain):
    """is the term t (with case distinctions) equal to `want` for every integer input of the domain (relations that hold for every call
    that returns)?  Returns (True, None) / (False, "the case in which it differs") / (None, None)"""
    try:
        syms = sp.sympify(t).free_symbols | want.free_symbols
        for c in domain:
            syms = syms | c.free_symbols
        syms = sorted(syms, key=str)
        if any(str(s_).startswith(("?", "@")) for s_ in syms):
            return None, None
        dom = []
        for c in domain:
            r = _rel_constraints(c, syms)
            if r is None:
                return None, None
            dom += r
        undecided = False
        for conds, tt in _term_cases(sp.sympify(t)):
            cons = list(dom)
            flat = []
            for c in conds:
                flat += list(c.args) if isinstance(c, sp.And) else [c]
            for c in flat:
                r = None if _has_cases(c) else _rel_constraints(c, syms)
                if r is None:
                    cons = None
                    break
                cons += r
            if cons is None:
                undecided = True
                continue
            here = _fm_sat(cons)
            if here is False:
                continue                # no input gets into this case
            d = _lin(tt - want, syms)
            if d is None:
                undecided = True
                continue
            if not any(k for v, k in d.items()):
                continue                # the same term
            up = dict(d)
            up[1] = up.get(1, 0) - 1                       # t - want >= 1
            dn = {v: -k for v, k in d.items()}
            dn[1] = dn.get(1, 0) - 1                       # want - t >= 1
            ru, rd = _fm_sat(cons + [up]), _fm_sat(cons + [dn])
            if ru is True or rd is True:
                return False, "`%s` in the case %s" % (tt, " and ".join(str(c) for c in conds) or "of every input")
            if not (ru is False and rd is False):
                undecided = True
        return (None, None) if undecided else (True, None)
    except Exception:
        return None, None


def chunking(chk, repo):
    fi = repo.func("esutil.algorithm.isplit")
    chk.analysed_unit(fi.qualname)
    q = fi.qualname
    fn = fi.node
    if len(fi.params) < 2:
        raise AnalysisError("isplit lost its (num, nchunks) parameters")
    pn, pc = fi.params[0], fi.params[1]
    num, nch = sp.Symbol("num", integer=True), sp.Symbol("nchunks", integer=True)
    evl = _IsplitEval({pn: num, pc: nch})
    evl.run(fn.body)
    tabs = [r for r in evl.ret if isinstance(r, _Tab)]
    tab = tabs[0] if len(tabs) == 1 and len(evl.ret) == 1 else None
    used = []
    if tab is not None:
        for f_, v in tab.fields.items():
            if isinstance(v, tuple) and v[0] not in used:
                used.append(v[0])
    cum = used[0] if len(used) == 1 else (evl.cums[-1] if (not used and len(evl.cums) >= 1) else None)
    seq = cum if isinstance(cum, _Seq) else None
    segs = _qr(cum.segs, num, nch) if (cum is not None and seq is None) else None
    # quotient and remainder of num by nchunks
    allterms = [t for cu in evl.cums for c, v in cu.segs for t in (c, v)] + [v for v in evl.env.values() if isinstance(v, sp.Basic)] \
        + [t for v in evl.env.values() if isinstance(v, _Rep) for c, x in v.segs for t in (c, x)] \
        + [t for v in list(evl.env.values()) + [seq] if isinstance(v, _Seq) for t in (v.n, v.elem) if isinstance(t, sp.Basic)]
    has_q = any(t.has(_fdiv(num, nch)) for t in allterms)
    has_r = any(t.has(_fmod(num, nch)) for t in allterms)
    wrong = evl.swapped or any(t.has(_fdiv(nch, num)) or t.has(_fmod(nch, num)) for t in allterms)
    chk.ob("R20.isplit", q + "::divmod", True if (has_q and has_r and not wrong) else (False if wrong else None), fi.where(),
           "the section sizes are built from the quotient and the remainder of num by nchunks (divmod(num, nchunks) or // and %)")
    # sizes
    lead = [(sp.Integer(1), sp.Integer(0))]
    rx = sp.expand(num - nch * _Q)         # the remainder, by the divmod identity
    want = [(rx, _Q + 1), (nch - rx, _Q)]
    ok = None
    has_lead = None
    found = None
    if seq is not None:
        # division points written down in closed form: point i of 0..nchunks is i*q + min(i, r) exactly when the sizes are r sections
        # of q+1 followed by nchunks-r of q and the points are 0 followed by their cumulative sum
        ok = _closed_form_points(seq, num, nch)
        has_lead = ok
        found = "point i = %s, %s points" % (seq.elem, seq.n)
    elif segs is not None:
        has_lead = bool(segs) and _teq(segs[0][0], 1) is True and _teq(segs[0][1], 0) is True
        ok = _segs_equal(segs[1:] if has_lead else segs, want, rx)
        found = "runs %s" % [(str(c), str(v)) for c, v in segs]
    chk.ob("R20.isplit", q + "::section-sizes", ok, fi.where(),
           "section sizes are r sections of q+1 followed by nchunks-r sections of q: sizes differ by at most one, larger first, and sum to num "
           "by the divmod identity (found %s)" % found)
    # division points
    okd = None
    if seq is not None:
        okd = has_lead
    elif cum is not None and used:
        okd = bool(has_lead)
    elif cum is not None and has_lead:
        okd = True
    chk.ob("R20.isplit", q + "::cumulative-division-points", okd, fi.where(), "division points are 0 followed by the cumulative sum of the sizes")
    # ranges
    okc = None
    if tab is not None and set(tab.fields) >= {"start", "end"}:
        s, e = tab.fields.get("start"), tab.fields.get("end")
        if isinstance(s, tuple) and isinstance(e, tuple):
            okc = s[0] is e[0] and _teq(s[1], 0) is True and _teq(e[1], 1) is True and _teq(tab.n, nch) is True
            if _has_cases(tab.n) and s[0] is e[0] and _teq(s[1], 0) is True and _teq(e[1], 1) is True:
                okc = _equal_on_domain(tab.n, nch, [sp.Ge(num, 0), sp.Ge(nch, 1)])[0]     # see ::returns-subs
    chk.ob("R20.isplit", q + "::contiguous-ranges", okc, fi.where(), "chunk i is [div[i], div[i+1]) for every i in 0..nchunks-1: contiguous, in order, covering 0..num")
    cfg = cfg_of(fi)
    view = cfg.view()
    rn = rules.raise_nodes(cfg)
    okr = any(_facts(view, n) & {"%s <= 0" % pc, "%s < 1" % pc} for n in rn)
    if not okr:
        # False only when nothing at all can reject: no raise, no assert, nchunks handed to no package helper
        elsewhere = [x for x in walk_no_nested(fn) if isinstance(x, ast.Assert) or (isinstance(x, ast.Call) and _callee(repo, fi, x) is not None
                                                                               and any(isinstance(a, ast.Name) and a.id == pc for a in x.args))]
        okr = None if (rn or elsewhere) else False
    chk.ob("R20.isplit", q + "::rejects-nonpositive-nchunks", okr, fi.where(), "nchunks <= 0 is rejected")
    okt = None
    rows = ""
    if len(evl.ret) == 1:
        okt = (tab is not None and _teq(tab.n, nch) is True) if (tab is not None or isinstance(evl.ret[0], (sp.Basic, _Rep, _Cum))) else None
        if tab is not None and _has_cases(tab.n):
            # a row count with case distinctions (clamped with min / max, re-bound under a test): compared with the requested nchunks in
            # every case, for the inputs the function returns for (num >= 0, nchunks >= 1 past the rejection guard)
            okt, differs = _equal_on_domain(tab.n, nch, [sp.Ge(num, 0), sp.Ge(nch, 1)])
            if differs:
                rows = "; the number of rows is %s" % differs
    chk.ob("R20.isplit", q + "::returns-subs", okt, fi.where(), "returns the table of nchunks (start, end) ranges: one row for every chunk that was "
           "asked for, whatever num is (chunks beyond num are empty ranges, not left out)" + rows)
    splitarray(chk, repo)


# ---------------------------------------------------------------------------
# splitarray: the returned list as a sequence (index symbol, count, element term), whichever way it is built
class _Slice:
    def __init__(self, base, lo, hi):
        self.base, self.lo, self.hi = base, lo, hi


class _SplitEval(_Sx):
    def __init__(self, env, fn):
        _Sx.__init__(self, env)
        self.fn = fn
        self.busy = set()

    def ev(self, e):
        if isinstance(e, ast.Name) and e.id not in self.env:
            sd = rules.single_defs(self.fn)
            if e.id in sd and e.id not in self.busy:
                self.busy.add(e.id)
                try:
                    v = self.ev(sd[e.id])
                finally:
                    self.busy.discard(e.id)
                if isinstance(v, sp.Basic) and _known(v):
                    return v
            return self.sym(e.id)
        return _Sx.ev(self, e)

    def subscript(self, e):
        if isinstance(e.slice, ast.Slice) and e.slice.step is None and isinstance(e.value, ast.Name):
            lo = self.ev(e.slice.lower) if e.slice.lower is not None else sp.Integer(0)
            hi = self.ev(e.slice.upper) if e.slice.upper is not None else None
            return _Slice(e.value.id, lo, hi)
        return _Sx.subscript(self, e)


_ISYM = sp.Symbol("_i", integer=True)


def _sequence(e, fn, depth=0):
    """(count, element value in terms of _ISYM) for an expression that is a list built element by element, else None.
    count: ('expr', ast) the loop runs over range(<ast>) | ('ceil', a, b) it runs over range(0, a, b)"""
    if depth > 6 or e is None:
        return None
    if isinstance(e, ast.Call) and isinstance(e.func, ast.Name) and e.func.id == "range" and not e.keywords:
        a = e.args
        if len(a) == 1 or (len(a) == 2 and norm(a[0]) == "0"):
            return ("expr", a[-1]), _ISYM
        if len(a) == 3:
            sx = _SplitEval({}, fn)
            lo, hi, st = sx.ev(a[0]), sx.ev(a[1]), sx.ev(a[2])
            if all(isinstance(x, sp.Basic) for x in (lo, hi, st)):
                return ("ceil", sp.expand(hi - lo), st), lo + _ISYM * st
        return None
    if isinstance(e, ast.Call) and isinstance(e.func, ast.Name) and e.func.id in ("list", "tuple") and len(e.args) == 1 and not e.keywords:
        return _sequence(e.args[0], fn, depth + 1)
    if isinstance(e, (ast.ListComp, ast.GeneratorExp)) and len(e.generators) == 1:
        g = e.generators[0]
        if g.ifs or g.is_async or not isinstance(g.target, ast.Name):
            return None
        inner = _sequence(g.iter, fn, depth + 1)
        if inner is None:
            return None
        return inner[0], _SplitEval({g.target.id: inner[1]}, fn).ev(e.elt)
    if isinstance(e, ast.Name):
        sd = rules.single_defs(fn)
        if e.id in sd and not (isinstance(sd[e.id], ast.List) and not sd[e.id].elts):
            return _sequence(sd[e.id], fn, depth + 1)
        return _append_loop(e.id, fn, depth)
    return None


def _append_loop(name, fn, depth):
    """name = []; for t in <sequence>: ...; name.append(x)"""
    inits = [x for x in walk_no_nested(fn) if isinstance(x, ast.Assign) and any(norm(t) == name for t in x.targets)]
    if len(inits) != 1 or not ((isinstance(inits[0].value, ast.List) and not inits[0].value.elts) or norm(inits[0].value) == "list()"):
        return None
    touches = [x for x in walk_no_nested(fn) if isinstance(x, ast.Call) and isinstance(x.func, ast.Attribute) and norm(x.func.value) == name]
    other = [x for x in walk_no_nested(fn) if isinstance(x, (ast.AugAssign, ast.Delete, ast.Subscript)) and
             ((isinstance(x, ast.AugAssign) and norm(x.target) == name) or (isinstance(x, ast.Subscript) and isinstance(x.ctx, (ast.Store, ast.Del)) and norm(x.value) == name))]
    if len(touches) != 1 or touches[0].func.attr != "append" or len(touches[0].args) != 1 or other:
        return None
    app = touches[0]
    loops = [x for x in walk_no_nested(fn) if isinstance(x, ast.For) and any(isinstance(s, ast.Expr) and s.value is app for s in x.body)]
    if len(loops) != 1:
        return None
    lp = loops[0]
    if lp.orelse or not isinstance(lp.target, ast.Name) or lp not in fn.body:
        return None
    if any(isinstance(x, (ast.If, ast.Continue, ast.Break, ast.For, ast.While, ast.Return, ast.Try, ast.With)) for s in lp.body for x in ast.walk(s)):
        return None
    inner = _sequence(lp.iter, fn, depth + 1)
    if inner is None:
        return None
    # names the body reads before it binds them are carried from one round to the next (`start = end` at the bottom of the body):
    # each becomes a symbol for "its value when the round begins", and after the body has been evaluated the recurrence
    # c(i+1) = c(i) + d with d the same in every round is solved as c(i) = c(0) + i*d (i: number of the round)
    bound = []
    for s in lp.body:
        if isinstance(s, ast.Assign) and len(s.targets) == 1 and isinstance(s.targets[0], ast.Name):
            bound.append(s.targets[0].id)
    carried = {}
    seen_bound = set()
    for s in lp.body:
        for x in ast.walk(s.value if isinstance(s, ast.Assign) else s):
            if isinstance(x, ast.Name) and isinstance(x.ctx, ast.Load) and x.id in bound and x.id not in seen_bound and x.id != lp.target.id:
                carried.setdefault(x.id, sp.Symbol("@" + x.id, integer=True))
        if isinstance(s, ast.Assign) and len(s.targets) == 1 and isinstance(s.targets[0], ast.Name):
            seen_bound.add(s.targets[0].id)
    if lp.target.id in bound:
        return None
    env = {lp.target.id: inner[1]}
    env.update(carried)
    sx = _SplitEval(env, fn)
    elem = None
    for s in lp.body:
        if isinstance(s, ast.Expr) and s.value is app:
            if elem is not None:
                return None
            elem = sx.ev(app.args[0])
        elif isinstance(s, ast.Assign) and len(s.targets) == 1 and isinstance(s.targets[0], ast.Name):
            sx.env[s.targets[0].id] = sx.ev(s.value)
        elif isinstance(s, ast.Expr) and isinstance(s.value, ast.Constant):
            continue
        else:
            return None
    if elem is None:
        return None
    if carried:
        closed = {}
        k = fn.body.index(lp)
        for name, c in carried.items():
            # the value before the first round: one plain assignment among the statements in front of the loop, nothing else binds the name
            binds = [x for x in walk_no_nested(fn) if isinstance(x, ast.Name) and isinstance(x.ctx, (ast.Store, ast.Del)) and x.id == name]
            inside = [x for b in lp.body for x in ast.walk(b) if isinstance(x, ast.Name) and isinstance(x.ctx, (ast.Store, ast.Del)) and x.id == name]
            first = [b for b in fn.body[:k] if isinstance(b, ast.Assign) and len(b.targets) == 1 and isinstance(b.targets[0], ast.Name) and b.targets[0].id == name]
            if len(first) != 1 or len(binds) != len(inside) + 1 or name in func_params(fn):
                return None
            c0 = _SplitEval({}, fn).ev(first[0].value)
            end = sx.env.get(name)
            if not (isinstance(c0, sp.Basic) and _known(c0) and isinstance(end, sp.Basic) and _known(end)):
                return None
            d = sp.expand(end - c)
            if d.free_symbols & (set(carried.values()) | {_ISYM}):
                return None             # not a constant step: the recurrence is not solved here
            closed[c] = c0 + _ISYM * d
        elem = _subst_value(elem, closed)
    return inner[0], elem


def _subst_value(v, m):
    if isinstance(v, sp.Basic):
        return sp.expand(v.subs(m))
    if isinstance(v, _Slice):
        return _Slice(v.base, _subst_value(v.lo, m), _subst_value(v.hi, m))
    if isinstance(v, tuple):
        return tuple(_subst_value(x, m) for x in v)
    return v


def _nonzero_test(t, sx, neg=False):
    """(term, sense): the test holds exactly when term != 0 (sense True) or term == 0 (sense False); None if not of that form"""
    if isinstance(t, ast.UnaryOp) and isinstance(t.op, ast.Not):
        r = _nonzero_test(t.operand, sx)
        return (r[0], not r[1]) if r else None
    if isinstance(t, ast.Compare) and len(t.ops) == 1:
        a, b = sx.ev(t.left), sx.ev(t.comparators[0])
        if not (isinstance(a, sp.Basic) and isinstance(b, sp.Basic)):
            return None
        op = t.ops[0]
        if b == 0 and isinstance(op, (ast.NotEq, ast.Gt)) or a == 0 and isinstance(op, (ast.NotEq, ast.Lt)):
            # a remainder of a division by a positive count is never negative: > 0 is != 0
            return (a if b == 0 else b, True)
        if isinstance(op, ast.Eq) and (a == 0 or b == 0):
            return (a if b == 0 else b, False)
        if isinstance(op, ast.GtE) and b == 1:
            return (a, True)
        return None
    v = sx.ev(t)
    return (v, True) if isinstance(v, sp.Basic) else None


# ---------------------------------------------------------------------------
# R20.split ...::early-return-is-the-chunk-list.  `return [var]` is the chunk list exactly when 0 < size <= nper, `return []` exactly
# when size == 0.  The tests that lead to such a return are read as a formula over integer terms in size, nper, size // nper and
# size % nper (names followed through the definition that reaches the test).  All inputs are covered by six cases: with
# size = q*nper + r, 0 <= r < nper, nper >= 1:  q = 0 | q = 1 | q >= 2, each with r = 0 | r > 0.  In a case every term is affine in
# nper, r (and, for q >= 2, q and the surplus e = (q-2)*nper >= 0, taken as free non-negative unknowns), so the minimum and the maximum of
# each comparison's difference over the case are read off its vertex and rays: the comparison holds for every input of the case,
# for none, or is undecided.  Violation: a case (with size > 0) all of whose inputs satisfy the path's tests and none the requirement.
# Held: in every case some test fails for all inputs or the requirement holds for all.  Anything else: no verdict.
_CN, _CR, _CQ, _CE = sp.Symbol("N_"), sp.Symbol("r_"), sp.Symbol("q_"), sp.Symbol("e_")
_CASES = [(qk, rk) for qk in (0, 1, 2) for rk in (0, 1)]


def _case_text(c):
    return "%s and %s" % (("size // nper == %d" % c[0]) if c[0] < 2 else "size // nper >= 2", "size %% nper %s 0" % ("==" if c[1] == 0 else "!="))


def _case_bounds(t, size, nper, case):
    """(min, max) of the integer term t over the inputs of the case, +-inf allowed; None if t is not affine there"""
    qk, rk = case
    r = _CR if rk else sp.Integer(0)
    qq = sp.Integer(qk) if qk < 2 else _CQ
    sz = (qk * _CN + r) if qk < 2 else (2 * _CN + r + _CE)
    try:
        t = sp.sympify(t)
        t = t.replace(_fdiv, lambda a, b: qq if (a == size and b == nper) else _fdiv(a, b))
        t = t.replace(_fmod, lambda a, b: r if (a == size and b == nper) else _fmod(a, b))
        t = t.replace(_cdiv, lambda a, b: (qq + (1 if rk else 0)) if (a == size and b == nper) else _cdiv(a, b))
        t = sp.expand(t.subs({size: sz, nper: _CN}))
        p_ = sp.Poly(t, _CN, _CR, _CQ, _CE)
    except Exception:
        return None
    if p_.total_degree() > 1 or (t.free_symbols - {_CN, _CR, _CQ, _CE}):
        return None
    co = {v: p_.coeff_monomial(v) for v in (_CN, _CR, _CQ, _CE)}
    a = p_.coeff_monomial(1)
    if not all(x.is_Rational for x in list(co.values()) + [a]):
        return None

    def low(a, b, c, d, f):
        """minimum of a + b*N + c*r + d*q + f*e"""
        m = a
        if rk:                          # N >= 2, 1 <= r <= N-1: vertex (2, 1), rays (1, 0) and (1, 1)
            if b < 0 or b + c < 0:
                return -_INF
            m += 2 * b + c
        else:                           # N >= 1
            if b < 0:
                return -_INF
            m += b
        if qk == 2:
            if d < 0 or f < 0:
                return -_INF
            m += 2 * d
        return m
    args = (a, co[_CN], co[_CR], co[_CQ], co[_CE])
    lo = low(*args)
    hi = low(*[-x for x in args])
    return lo, (-hi if hi != -_INF else _INF)


def _case_literal(op, d, size, nper, case):
    """truth of `d <op> 0` over the case: True (all inputs) / False (none) / None"""
    b = _case_bounds(d, size, nper, case)
    if b is None:
        return None
    lo, hi = b
    if op == "<=":
        return True if hi <= 0 else (False if lo > 0 else None)
    if op == "<":
        return True if hi < 0 else (False if lo >= 0 else None)
    if op == "==":
        return True if lo == hi == 0 else (False if (lo > 0 or hi < 0) else None)
    if op == "!=":
        r = _case_literal("==", d, size, nper, case)
        return None if r is None else (not r)
    return None


def _dnf(t, neg, lit):
    """disjunctive form (list of conjunctions of literals) of the test t (negated if neg); lit(expr, neg) -> literal or None"""
    if isinstance(t, ast.UnaryOp) and isinstance(t.op, ast.Not):
        return _dnf(t.operand, not neg, lit)
    if isinstance(t, ast.BoolOp):
        parts = [_dnf(v, neg, lit) for v in t.values]
        if any(p_ is None for p_ in parts):
            return None
        if isinstance(t.op, ast.And) != neg:
            out = [[]]
            for p_ in parts:
                out = [a + b for a in out for b in p_]
                if len(out) > 64:
                    return None
            return out
        return [c for p_ in parts for c in p_]
    if isinstance(t, ast.Compare) and len(t.ops) > 1:
        # a < b <= c is a < b and b <= c (the operands are plain terms, or the literals are not understood anyway)
        terms = [t.left] + list(t.comparators)
        return _dnf(ast.BoolOp(op=ast.And(), values=[ast.Compare(left=terms[i], ops=[t.ops[i]], comparators=[terms[i + 1]]) for i in range(len(t.ops))]), neg, lit)
    l = lit(t, neg)
    return None if l is None else [[l]]


def _display_return(fi, ret, var, size, nper):
    """(verdict, text) for `return [var]` / `return []` in splitarray"""
    fn = fi.node
    cfg = cfg_of(fi)
    view = cfg.view()
    rin, _ = view.reaching_defs()
    rn = rules.node_of_stmt(cfg, ret)
    if rn is None or not view.reachable(rn):
        return None, "the return is not reached"
    elts = ret.value.elts
    if len(elts) > 1:
        return None, "more than one chunk written out"
    if elts:
        e = elts[0]
        whole = isinstance(e, ast.Name) and e.id == var
        if isinstance(e, ast.Subscript) and isinstance(e.value, ast.Name) and e.value.id == var and isinstance(e.slice, ast.Slice) and e.slice.step is None:
            sx0 = _Sx({var + ".size": size, "len(%s)" % var: size})
            lo = sx0.ev(e.slice.lower) if e.slice.lower is not None else sp.Integer(0)
            hi = sx0.ev(e.slice.upper) if e.slice.upper is not None else None
            whole = _teq(lo, 0) is True and (hi is None or _teq(hi, nper) is True or _teq(hi, size) is True)
        if not whole:
            return None, "the element is not the array itself"
        need = [("<", 0 - size), ("<=", size - nper)]
    else:
        need = [("==", size)]

    def term(e, at, depth=0):
        """integer term of expression e as evaluated at CFG node `at`"""
        if depth > 8:
            return None
        if isinstance(e, ast.Constant):
            return sp.Integer(e.value) if (isinstance(e.value, int) and not isinstance(e.value, bool)) else None
        if isinstance(e, ast.Name):
            defs = rin.get(at.id, {}).get(e.id)
            if not defs or len(defs) != 1:
                return None
            d = next(iter(defs))
            if d == cfg.entry.id:
                return nper if e.id == str(nper) else None
            dn = cfg.node(d)
            a = dn.ast
            if dn.kind == "stmt" and isinstance(a, ast.Assign) and len(a.targets) == 1:
                t_ = a.targets[0]
                if isinstance(t_, ast.Name):
                    return term(a.value, dn, depth + 1)
                if isinstance(t_, (ast.Tuple, ast.List)) and isinstance(a.value, ast.Call) and call_name(a.value) == "divmod" and len(a.value.args) == 2 \
                        and len(t_.elts) == 2 and all(isinstance(x, ast.Name) for x in t_.elts):
                    x, y = term(a.value.args[0], dn, depth + 1), term(a.value.args[1], dn, depth + 1)
                    if x is None or y is None:
                        return None
                    return _floordiv(x, y) if t_.elts[0].id == e.id else _fmod(x, y)
            return None
        if isinstance(e, ast.Attribute) and e.attr == "size" and isinstance(e.value, ast.Name) and e.value.id == var:
            return size if is_var(at) else None
        if isinstance(e, ast.Call) and isinstance(e.func, ast.Name) and e.func.id == "len" and len(e.args) == 1 and not e.keywords \
                and isinstance(e.args[0], ast.Name) and e.args[0].id == var:
            return size if is_var(at) else None
        if isinstance(e, ast.Subscript) and norm(e) == "%s.shape[0]" % var:
            return size if is_var(at) else None
        if isinstance(e, ast.Call) and isinstance(e.func, ast.Name) and e.func.id == "int" and len(e.args) == 1 and not e.keywords:
            return term(e.args[0], at, depth + 1)
        if isinstance(e, ast.UnaryOp) and isinstance(e.op, (ast.USub, ast.UAdd)):
            x = term(e.operand, at, depth + 1)
            return None if x is None else (-x if isinstance(e.op, ast.USub) else x)
        if isinstance(e, ast.BinOp) and isinstance(e.op, (ast.Add, ast.Sub, ast.Mult, ast.FloorDiv, ast.Mod)):
            x, y = term(e.left, at, depth + 1), term(e.right, at, depth + 1)
            if x is None or y is None:
                return None
            v_ = _Sx().binop(e, x, y)
            return v_ if _known(v_) else None
        return None

    vdefs = rin.get(rn.id, {}).get(var)

    def is_var(at):
        """the array is bound once on the way, to the binding the return hands back"""
        return bool(vdefs) and len(vdefs) == 1 and rin.get(at.id, {}).get(var) == vdefs

    def literal_at(at):
        def lit(t, neg):
            if isinstance(t, ast.Compare):
                a, b = term(t.left, at), term(t.comparators[0], at)
                op = {ast.Lt: "<", ast.LtE: "<=", ast.Gt: ">", ast.GtE: ">=", ast.Eq: "==", ast.NotEq: "!="}.get(type(t.ops[0]))
                if a is None or b is None or op is None:
                    return None
                if neg:
                    op = {"<": ">=", "<=": ">", ">": "<=", ">=": "<", "==": "!=", "!=": "=="}[op]
                if op in (">", ">="):
                    a, b, op = b, a, {">": "<", ">=": "<="}[op]
                return (op, sp.expand(a - b), norm(t), neg)
            a = term(t, at)
            if a is None:
                return None
            return ("==" if neg else "!=", a, norm(t), neg)
        return lit
    # the path: every test the return depends on
    path = [[]]
    for bn, lab in view.controlling_branches(rn):
        if lab not in ("T", "F"):
            return None, "reached through `%s`" % bn.text()[:50]
        if bn.kind == "loop":
            return None, "reached inside a loop"
        if bn.kind != "branch":
            continue
        d = _dnf(bn.ast.test, lab == "F", literal_at(bn))
        if d is None:
            return None, "test `%s` not understood" % norm(bn.ast.test)[:60]
        path = [a + b for a in path for b in d]
        if len(path) > 64:
            return None, "too many cases"
    if any(n.kind in ("handler", "try") for n in view.dominators(rn)) or any(isinstance(a_, (ast.Try, ast.With, ast.For, ast.While)) for a_ in _ancestors(_parent_map(fn), ret)):
        return None, "reached inside a try / with / loop"
    undecided = None
    for case in _CASES:
        for conj in path:
            vals = [_case_literal(op, d, size, nper, case) for op, d, _, _ in conj]
            if any(v_ is False for v_ in vals):
                continue                # no input of this case gets here
            nv = [_case_literal(op, d, size, nper, case) for op, d in need]
            if all(v_ is True for v_ in nv):
                continue
            if all(v_ is True for v_ in vals) and any(v_ is False for v_ in nv):
                if case == (0, 0):
                    undecided = undecided or "an empty input gets an empty chunk"
                    continue
                return False, "for every input with %s the tests on the way hold (%s), and the chunk list is not `%s` there: %s" \
                    % (_case_text(case), " and ".join(("not (%s)" % t_) if n_ else t_ for _, _, t_, n_ in conj) or "none",
                       norm(ret.value), "the array is not empty, so there is at least one chunk" if not elts
                       else "the array is longer than nper, so it must come back as chunks of nper items (the last possibly shorter), not as one chunk")
            undecided = undecided or "inputs with %s" % _case_text(case)
    if undecided:
        return None, "not decided for " + undecided
    return True, ""


def _ceil_count(count, fi, size, nper, ret=None):
    """is the loop count ceil(size / nper)?  True / False / None.  ret: the return statement the list is handed back by (tests whose
    other side never gets there only select the inputs that do)"""
    fn = fi.node
    want = _cdiv(size, nper)
    floor_only = _fdiv(size, nper)
    if count[0] == "ceil":
        # range(lo, hi, step): ceil((hi - lo) / step) rounds.  When hi - lo is a whole multiple k*step the count is k; a k that is a
        # local of the function is then judged below like the bound of range(k)
        v = _ceildiv(count[1], count[2])
        if _teq(v, want) is True:
            return True
        if not (isinstance(v, sp.Symbol) and str(v) in _stored_names(fn) and str(v) not in func_params(fn)):
            return None
        e = ast.Name(id=str(v), ctx=ast.Load())
    else:
        e = count[1]
    sx = _SplitEval({}, fn)
    if not isinstance(e, ast.Name) or e.id in rules.single_defs(fn):
        v = sx.ev(e)
        if not isinstance(v, sp.Basic):
            return None
        # False only for the plain quotient (a final shorter chunk would be dropped); any other closed form is not judged
        return True if _teq(v, want) is True else (False if _teq(v, floor_only) is True else None)
    # quotient, plus one exactly when the remainder is not zero
    name = e.id
    cfg = cfg_of(fi)
    view = cfg.view()
    defs = rules.assigns_to(cfg, name)
    base, incs = [], []
    for n in defs:
        a = n.ast
        if isinstance(a, ast.AugAssign) and isinstance(a.op, ast.Add) and norm(a.value) == "1":
            incs.append(n)
        elif isinstance(a, ast.Assign) and norm(a.value) in ("%s + 1" % name, "1 + %s" % name) and isinstance(a.targets[0], ast.Name):
            incs.append(n)
        elif isinstance(a, ast.Assign) and len(a.targets) == 1:
            v = sx.ev(a.value)
            t = a.targets[0]
            if isinstance(t, (ast.Tuple, ast.List)):
                idx = [i for i, x in enumerate(t.elts) if norm(x) == name]
                v = v[idx[0]] if isinstance(v, tuple) and len(v) == len(t.elts) and len(idx) == 1 else None
                # the other element of a divmod pair is the remainder under its own name
                if isinstance(sx.ev(a.value), tuple):
                    for i, x in enumerate(t.elts):
                        if isinstance(x, ast.Name) and x.id != name and len(rules.assigns_to(cfg, x.id)) == 1:
                            sx.env[x.id] = sx.ev(a.value)[i]
            base.append((n, v))
        else:
            return None
    if len(base) != 1 or not isinstance(base[0][1], sp.Basic):
        return None
    if _teq(base[0][1], floor_only) is not True:
        return True if (_teq(base[0][1], want) is True and not incs) else None
    if len(incs) != 1:
        return False if not incs else None
    inc = incs[0]
    if not view.dominates(base[0][0], inc):
        return None
    ctl = [(bn, lab) for bn, lab in view.controlling_branches(inc) if bn.kind == "branch" or (bn.kind == "loop" and isinstance(bn.ast, ast.While))]
    rn = rules.node_of_stmt(cfg, ret) if ret is not None else None
    if len(ctl) > 1 and rn is not None:
        # a test whose other side leaves the function some other way (an early return, a rejection) does not take part in the count of
        # the inputs that reach the loop -- unless it is the only test there is
        def leaves(bn, lab):
            other = [j for j in view.g.successors(bn.id) if lab not in view.g[bn.id][j]["labels"]]
            return bool(other) and not any(j == rn.id or view._reach_from(j, rn.id, bn.id) for j in other)
        rest = [c for c in ctl if not leaves(*c)]
        if len(rest) == 1:
            ctl = rest
    if len(ctl) != 1 or ctl[0][0].kind != "branch":
        return False if not ctl else None
    r = _nonzero_test(ctl[0][0].ast.test, sx)
    if r is None:
        return None
    term, sense = r
    if ctl[0][1] == "F":
        sense = not sense
    if _teq(term, _fmod(size, nper)) is not True:
        return None                    # a test on something else than the remainder: not judged
    return bool(sense)


def splitarray(chk, repo):
    fi = repo.func("esutil.numpy_util.splitarray")
    chk.analysed_unit(fi.qualname)
    q = fi.qualname
    fn = fi.node
    if len(fi.params) < 2:
        raise AnalysisError("splitarray lost its (nper, array) parameters")
    pnper, pin = fi.params[0], fi.params[1]
    var = []
    for x in walk_no_nested(fn):
        if isinstance(x, ast.Assign) and len(x.targets) == 1 and isinstance(x.targets[0], ast.Name) and isinstance(x.value, ast.Call) \
                and call_name(x.value) == "atleast_1d" and x.value.args and norm(x.value.args[0]) in (pin, x.targets[0].id):
            var.append(x.targets[0].id)
    ok = len(set(var)) == 1
    v = var[0] if var else pin
    chk.ob("R20.split", q + "::input-as-array", ok, fi.where(), "the input is viewed as an array (atleast_1d)")
    size, nper = sp.Symbol(v + ".size", integer=True), sp.Symbol(pnper, integer=True)
    rets = [x for x in walk_no_nested(fn) if isinstance(x, ast.Return)]
    # a return of a list written out in place (`return []`, `return [var]`) is a special case for some inputs: judged on its own below
    special = [x for x in rets if isinstance(x.value, (ast.List, ast.Tuple)) and len(rets) > 1]
    rets = [x for x in rets if x not in special]
    seq = _sequence(rets[0].value, fn) if len(rets) == 1 else None
    okn = _ceil_count(seq[0], fi, size, nper, rets[0] if special else None) if seq is not None else None
    if special and okn is False:
        okn = None                      # the inputs for which the count is off may be the ones that are answered separately
    for k_, r_ in enumerate(special):
        v_, why = _display_return(fi, r_, v, size, nper)
        chk.ob("R20.split", "%s::early-return-is-the-chunk-list::R%d::%s" % (q, k_ + 1, norm(r_.value)[:40]), v_, fi.where(r_),
               "a list written out in place is returned only for inputs whose chunk list it is: `%s` needs %s on every path that reaches it%s"
               % (norm(r_), "size == 0" if not r_.value.elts else "0 < size <= nper (one chunk, the whole array)", (": " + why) if why else ""))
    chk.ob("R20.split", q + "::chunk-count-is-ceil", okn, fi.where(), "the number of chunks is size // nper, plus one exactly when size % nper != 0 (ceiling division)")
    oks = None
    if seq is not None and isinstance(seq[1], _Slice) and seq[1].base == v:
        el = seq[1]
        lo = _teq(el.lo, _ISYM * nper)
        hi = _teq(el.hi, (_ISYM + 1) * nper) if el.hi is not None else False
        oks = None if (lo is None or hi is None) else bool(lo and hi)
    chk.ob("R20.split", q + "::consecutive-fixed-size-slices", oks, fi.where(), "chunk i is %s[i*nper:(i+1)*nper], for i = 0, 1, ... in order, none skipped" % v)
    chk.ob("R20.split", q + "::returns-chunk-list", True if seq is not None else None, fi.where(), "the list of chunks is what is returned")
